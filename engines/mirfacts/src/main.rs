//! mirfacts — rustc_private driver that dumps the type-checked program (MIR with
//! resolved callees, ADT/field projections, constants, spans) of the crate being
//! compiled as one JSON fact file.  Injected with RUSTC_WORKSPACE_WRAPPER (argv[1]
//! is the real rustc path and is dropped).  Output directory: $MIRFACTS_OUT.
//! One write per process.  No dependencies beyond the nightly's rustc-dev.
#![feature(rustc_private)]
#![allow(rustc::usage_of_ty_tykind)]

extern crate rustc_abi;
extern crate rustc_driver;
extern crate rustc_hir;
extern crate rustc_interface;
extern crate rustc_middle;
extern crate rustc_session;
extern crate rustc_span;

use rustc_driver::{Callbacks, Compilation};
use rustc_hir::def::DefKind;
use rustc_hir::def_id::{DefId, LOCAL_CRATE};
use rustc_interface::interface::Compiler;
use rustc_middle::mir::{
    self, AggregateKind, BasicBlockData, Body, Const, ConstValue, Operand, Place, PlaceElem,
    Rvalue, StatementKind, TerminatorKind, UnwindAction,
};
use rustc_middle::ty::print::{with_crate_prefix, with_no_trimmed_paths, with_no_visible_paths};
use rustc_middle::ty::{self, Ty, TyCtxt};
use rustc_span::Span;
use std::fmt::Write as _;

// ---------------------------------------------------------------- JSON writer

fn jstr(out: &mut String, s: &str) {
    out.push('"');
    for c in s.chars() {
        match c {
            '"' => out.push_str("\\\""),
            '\\' => out.push_str("\\\\"),
            '\n' => out.push_str("\\n"),
            '\r' => out.push_str("\\r"),
            '\t' => out.push_str("\\t"),
            c if (c as u32) < 0x20 => {
                let _ = write!(out, "\\u{:04x}", c as u32);
            }
            c => out.push(c),
        }
    }
    out.push('"');
}

struct J(String);
impl J {
    fn new() -> Self {
        J(String::new())
    }
    fn key(&mut self, k: &str) {
        if !self.0.ends_with('{') && !self.0.ends_with('[') {
            self.0.push(',');
        }
        jstr(&mut self.0, k);
        self.0.push(':');
    }
    fn sep(&mut self) {
        if !self.0.is_empty() && !self.0.ends_with('{') && !self.0.ends_with('[') && !self.0.ends_with(':') {
            self.0.push(',');
        }
    }
    fn s(&mut self, k: &str, v: &str) {
        self.key(k);
        jstr(&mut self.0, v);
    }
    fn n(&mut self, k: &str, v: i128) {
        self.key(k);
        let _ = write!(self.0, "{}", v);
    }
    fn b(&mut self, k: &str, v: bool) {
        self.key(k);
        self.0.push_str(if v { "true" } else { "false" });
    }
    fn raw(&mut self, k: &str, v: &str) {
        self.key(k);
        self.0.push_str(v);
    }
    fn open(&mut self, c: char) {
        self.sep();
        self.0.push(c);
    }
    fn kopen(&mut self, k: &str, c: char) {
        self.key(k);
        self.0.push(c);
    }
    fn close(&mut self, c: char) {
        self.0.push(c);
    }
    fn item_str(&mut self, v: &str) {
        self.sep();
        jstr(&mut self.0, v);
    }
    fn item_raw(&mut self, v: &str) {
        self.sep();
        self.0.push_str(v);
    }
}

// ---------------------------------------------------------------- helpers

thread_local! { static CRATE: std::cell::RefCell<String> = std::cell::RefCell::new(String::new()); }

/// `crate::a::b` -> `<crate name>::a::b` (word-boundary aware)
fn fix_crate(s: String) -> String {
    if !s.contains("crate::") {
        return s;
    }
    let name = CRATE.with(|c| c.borrow().clone());
    let mut out = String::with_capacity(s.len() + 16);
    let bytes = s.as_bytes();
    let mut i = 0;
    while i < s.len() {
        if s[i..].starts_with("crate::")
            && (i == 0 || !(bytes[i - 1].is_ascii_alphanumeric() || bytes[i - 1] == b'_'))
        {
            out.push_str(&name);
            out.push_str("::");
            i += 7;
        } else {
            let ch = s[i..].chars().next().unwrap();
            out.push(ch);
            i += ch.len_utf8();
        }
    }
    out
}

/// Def path: std/core/alloc items by their visible (re-exported) path, everything else by its
/// canonical definition path (so that `pub use` re-exports do not split one item into two names
/// when seen from the binary crate).
fn path_of(tcx: TyCtxt<'_>, did: DefId) -> String {
    let krate = tcx.crate_name(did.krate);
    let k = krate.as_str();
    if did.is_local() || k == "std" || k == "core" || k == "alloc" {
        fix_crate(with_no_trimmed_paths!(with_crate_prefix!(tcx.def_path_str(did))))
    } else {
        fix_crate(with_no_trimmed_paths!(with_no_visible_paths!(with_crate_prefix!(
            tcx.def_path_str(did)
        ))))
    }
}

fn ty_str(ty: Ty<'_>) -> String {
    fix_crate(with_no_trimmed_paths!(with_crate_prefix!(ty.to_string())))
}

fn span_json(tcx: TyCtxt<'_>, span: Span, j: &mut J, with_snip: bool) {
    let sm = tcx.sess.source_map();
    let exp = span.from_expansion();
    let sp = if exp { span.source_callsite() } else { span };
    let lo = sm.lookup_char_pos(sp.lo());
    let hi = sm.lookup_char_pos(sp.hi());
    let fname = match &lo.file.name {
        rustc_span::FileName::Real(r) => match r.local_path() {
            Some(p) => p.display().to_string(),
            None => format!("{:?}", lo.file.name),
        },
        other => format!("{:?}", other),
    };
    j.s("file", &fname);
    j.n("line", lo.line as i128);
    j.n("col", lo.col.0 as i128);
    j.n("eline", hi.line as i128);
    j.n("ecol", hi.col.0 as i128);
    j.b("exp", exp);
    if with_snip {
        if let Ok(mut s) = sm.span_to_snippet(sp) {
            if s.len() > 240 {
                let mut cut = 240;
                while !s.is_char_boundary(cut) {
                    cut -= 1;
                }
                s.truncate(cut);
                s.push('…');
            }
            j.s("snip", &s);
        }
    }
}

struct Cx<'tcx, 'a> {
    tcx: TyCtxt<'tcx>,
    body: &'a Body<'tcx>,
    owner: DefId,
}

impl<'tcx, 'a> Cx<'tcx, 'a> {
    fn place(&self, p: &Place<'tcx>, j: &mut J) {
        j.open('{');
        j.n("l", p.local.as_u32() as i128);
        if !p.projection.is_empty() {
            j.kopen("p", '[');
            let mut pty = mir::PlaceTy::from_ty(self.body.local_decls[p.local].ty);
            for elem in p.projection.iter() {
                j.open('{');
                match elem {
                    PlaceElem::Deref => j.s("k", "deref"),
                    PlaceElem::Field(f, fty) => {
                        j.s("k", "field");
                        j.n("i", f.as_u32() as i128);
                        match pty.ty.kind() {
                            ty::Adt(adt, _) => {
                                j.s("adt", &path_of(self.tcx, adt.did()));
                                let vidx = pty.variant_index.unwrap_or(rustc_abi::FIRST_VARIANT);
                                if vidx.as_usize() < adt.variants().len() {
                                    let v = adt.variant(vidx);
                                    if adt.is_enum() {
                                        j.s("variant", v.name.as_str());
                                    }
                                    if f.as_usize() < v.fields.len() {
                                        j.s("name", v.fields[f].name.as_str());
                                    }
                                }
                            }
                            ty::Tuple(_) => j.s("adt", "(tuple)"),
                            ty::Closure(..) => j.s("adt", "(closure)"),
                            _ => j.s("adt", "(other)"),
                        }
                        j.s("ty", &ty_str(fty));
                    }
                    PlaceElem::Index(l) => {
                        j.s("k", "index");
                        j.n("l", l.as_u32() as i128);
                    }
                    PlaceElem::ConstantIndex { offset, min_length, from_end } => {
                        j.s("k", "cindex");
                        j.n("offset", offset as i128);
                        j.n("min_length", min_length as i128);
                        j.b("from_end", from_end);
                    }
                    PlaceElem::Subslice { from, to, from_end } => {
                        j.s("k", "subslice");
                        j.n("from", from as i128);
                        j.n("to", to as i128);
                        j.b("from_end", from_end);
                    }
                    PlaceElem::Downcast(name, vidx) => {
                        j.s("k", "downcast");
                        j.n("vi", vidx.as_u32() as i128);
                        if let Some(n) = name {
                            j.s("variant", n.as_str());
                        } else if let ty::Adt(adt, _) = pty.ty.kind() {
                            if vidx.as_usize() < adt.variants().len() {
                                j.s("variant", adt.variant(vidx).name.as_str());
                            }
                        }
                    }
                    PlaceElem::OpaqueCast(_) => j.s("k", "opaque"),
                    PlaceElem::UnwrapUnsafeBinder(_) => j.s("k", "unbinder"),
                }
                j.close('}');
                pty = pty.projection_ty(self.tcx, elem);
            }
            j.close(']');
        }
        j.close('}');
    }

    fn constant(&self, c: &mir::ConstOperand<'tcx>, j: &mut J) {
        let ty = c.const_.ty();
        j.s("ty", &ty_str(ty));
        match ty.kind() {
            ty::FnDef(did, args) => {
                j.kopen("fn", '{');
                self.callee(*did, args, j);
                j.close('}');
                return;
            }
            ty::Closure(did, _) => {
                j.s("closure", &path_of(self.tcx, *did));
                return;
            }
            _ => {}
        }
        // evaluated / literal values
        let val: Option<ConstValue> = match c.const_ {
            Const::Val(v, _) => Some(v),
            Const::Unevaluated(uv, _) => {
                j.s("item", &path_of(self.tcx, uv.def));
                if let Some(p) = uv.promoted {
                    j.n("promoted", p.as_u32() as i128);
                    None
                } else if uv.args.is_empty() {
                    // named constant without generics (e.g. CACHE_FILE_NAME): its evaluated value
                    match std::panic::catch_unwind(std::panic::AssertUnwindSafe(|| {
                        self.tcx.const_eval_poly(uv.def)
                    })) {
                        Ok(Ok(v)) => Some(v),
                        _ => None,
                    }
                } else {
                    None
                }
            }
            Const::Ty(_, ct) => {
                // valtree constants (string/byte-string patterns of `match`, const generics)
                if let Some(v) = ct.try_to_value() {
                    if let Some(bytes) = v.try_to_raw_bytes(self.tcx) {
                        match std::str::from_utf8(bytes) {
                            Ok(s) if matches!(ty.kind(), ty::Ref(_, inner, _) if inner.is_str()) => j.s("str", s),
                            _ => {
                                let mut hex = String::new();
                                for b in bytes.iter().take(4096) {
                                    let _ = write!(hex, "{:02x}", b);
                                }
                                j.s("bytes", &hex);
                            }
                        }
                    } else if let Some(si) = v.try_to_leaf() {
                        let size = si.size();
                        let bits = si.to_bits(size);
                        match ty.kind() {
                            ty::Bool => j.b("bool", bits != 0),
                            ty::Char => {
                                if let Some(ch) = char::from_u32(bits as u32) {
                                    j.s("char", &ch.to_string());
                                }
                            }
                            _ => {
                                if bits <= i128::MAX as u128 {
                                    j.n("int", bits as i128);
                                }
                            }
                        }
                    }
                }
                None
            }
        };
        if let Some(v) = val {
            match v {
                ConstValue::Scalar(rustc_middle::mir::interpret::Scalar::Ptr(ptr, _)) => {
                    // reference to a byte array (`&[u8; N]`, e.g. format_args! templates): read it
                    if let ty::Ref(_, inner, _) = ty.kind() {
                        if let ty::Array(elem, _) = inner.kind() {
                            if matches!(elem.kind(), ty::Uint(ty::UintTy::U8)) {
                                let (prov, off) = ptr.into_raw_parts();
                                if let Some(rustc_middle::mir::interpret::GlobalAlloc::Memory(a)) =
                                    self.tcx.try_get_global_alloc(prov.alloc_id())
                                {
                                    let a = a.inner();
                                    let start = off.bytes() as usize;
                                    let end = a.size().bytes() as usize;
                                    if start <= end {
                                        let bytes = a.inspect_with_uninit_and_ptr_outside_interpreter(start..end);
                                        let mut hex = String::new();
                                        for b in bytes.iter().take(8192) {
                                            let _ = write!(hex, "{:02x}", b);
                                        }
                                        j.s("bytes", &hex);
                                    }
                                }
                            }
                        }
                    }
                }
                ConstValue::Scalar(_) => {
                    if let Some(si) = v.try_to_scalar_int() {
                        let size = si.size();
                        let bits = si.to_bits(size);
                        match ty.kind() {
                            ty::Bool => j.b("bool", bits != 0),
                            ty::Char => {
                                if let Some(ch) = char::from_u32(bits as u32) {
                                    j.s("char", &ch.to_string());
                                }
                            }
                            ty::Int(_) => {
                                let sh = 128 - size.bits();
                                let sv = ((bits as i128) << sh) >> sh;
                                j.n("int", sv);
                            }
                            ty::Uint(_) => {
                                if bits <= i128::MAX as u128 {
                                    j.n("int", bits as i128);
                                }
                            }
                            _ => {
                                if bits <= i128::MAX as u128 {
                                    j.n("bits", bits as i128);
                                }
                            }
                        }
                    }
                }
                ConstValue::ZeroSized => {
                    j.b("zst", true);
                }
                ConstValue::Slice { .. } => {
                    if let Some(bytes) = v.try_get_slice_bytes_for_diagnostics(self.tcx) {
                        match std::str::from_utf8(bytes) {
                            Ok(s) if matches!(ty.kind(), ty::Ref(_, inner, _) if inner.is_str()) => {
                                j.s("str", s)
                            }
                            _ => {
                                // byte slice (format_args templates): hex + lossy text
                                let mut hex = String::new();
                                for b in bytes.iter().take(4096) {
                                    let _ = write!(hex, "{:02x}", b);
                                }
                                j.s("bytes", &hex);
                            }
                        }
                    }
                }
                ConstValue::Indirect { .. } => {
                    j.b("indirect", true);
                }
            }
        }
    }

    fn operand(&self, o: &Operand<'tcx>, j: &mut J) {
        j.open('{');
        match o {
            Operand::Copy(p) => {
                j.key("copy");
                self.place(p, j);
            }
            Operand::Move(p) => {
                j.key("move");
                self.place(p, j);
            }
            Operand::Constant(c) => {
                j.kopen("const", '{');
                self.constant(c, j);
                j.close('}');
            }
            _ => {
                j.s("other", "runtime_checks");
            }
        }
        j.close('}');
    }

    /// callee description: declared path, generic args, resolved path (if resolvable)
    fn callee(&self, did: DefId, args: ty::GenericArgsRef<'tcx>, j: &mut J) {
        let tcx = self.tcx;
        j.s("path", &path_of(tcx, did));
        j.kopen("generics", '[');
        for a in args.iter() {
            let s = fix_crate(with_no_trimmed_paths!(with_crate_prefix!(a.to_string())));
            j.item_str(&s);
        }
        j.close(']');
        // trait method?
        if let Some(tr) = tcx.trait_of_assoc(did) {
            j.s("trait", &path_of(tcx, tr));
            if let Some(first) = args.types().next() {
                j.s("self_ty", &ty_str(first));
            }
            j.s("name", tcx.item_name(did).as_str());
        } else if let Some(imp) = tcx.inherent_impl_of_assoc(did) {
            let self_ty = tcx.type_of(imp).instantiate_identity().skip_norm_wip();
            j.s("self_ty", &ty_str(self_ty));
            j.s("name", tcx.item_name(did).as_str());
        } else if matches!(tcx.def_kind(did), DefKind::Fn | DefKind::AssocFn) {
            j.s("name", tcx.item_name(did).as_str());
        }
        let typing_env = ty::TypingEnv::post_analysis(tcx, self.owner);
        let resolved = std::panic::catch_unwind(std::panic::AssertUnwindSafe(|| {
            ty::Instance::try_resolve(tcx, typing_env, did, args)
        }));
        match resolved {
            Ok(Ok(Some(inst))) => {
                let rd = inst.def_id();
                j.s("resolved", &path_of(tcx, rd));
                let kind = match inst.def {
                    ty::InstanceKind::Item(_) => "item",
                    ty::InstanceKind::Virtual(..) => "virtual",
                    ty::InstanceKind::FnPtrShim(..) => "fnptr_shim",
                    ty::InstanceKind::ClosureOnceShim { .. } => "closure_once_shim",
                    ty::InstanceKind::DropGlue(..) => "drop_glue",
                    ty::InstanceKind::CloneShim(..) => "clone_shim",
                    ty::InstanceKind::Intrinsic(_) => "intrinsic",
                    ty::InstanceKind::ReifyShim(..) => "reify_shim",
                    _ => "other",
                };
                j.s("rkind", kind);
            }
            Ok(Ok(None)) => j.s("rkind", "unresolved"),
            _ => j.s("rkind", "error"),
        }
        j.b("local", did.is_local());
    }

    fn rvalue(&self, rv: &Rvalue<'tcx>, j: &mut J) {
        j.open('{');
        match rv {
            Rvalue::Use(op, ..) => {
                j.s("k", "use");
                j.key("op");
                self.operand(op, j);
            }
            Rvalue::Repeat(op, _) => {
                j.s("k", "repeat");
                j.key("op");
                self.operand(op, j);
            }
            Rvalue::Ref(_, bk, p) => {
                j.s("k", "ref");
                j.b("mut", matches!(bk, mir::BorrowKind::Mut { .. }));
                j.b("fake", matches!(bk, mir::BorrowKind::Fake(_)));
                j.key("place");
                self.place(p, j);
            }
            Rvalue::RawPtr(_, p) => {
                j.s("k", "rawptr");
                j.key("place");
                self.place(p, j);
            }
            Rvalue::Cast(kind, op, ty) => {
                j.s("k", "cast");
                j.s("cast", &format!("{:?}", kind));
                j.s("ty", &ty_str(*ty));
                j.key("op");
                self.operand(op, j);
            }
            Rvalue::BinaryOp(op, ab) => {
                j.s("k", "bin");
                j.s("op", &format!("{:?}", op));
                j.key("a");
                self.operand(&ab.0, j);
                j.key("b");
                self.operand(&ab.1, j);
            }
            Rvalue::UnaryOp(op, a) => {
                j.s("k", "un");
                j.s("op", &format!("{:?}", op));
                j.key("a");
                self.operand(a, j);
            }
            Rvalue::Discriminant(p) => {
                j.s("k", "discr");
                j.key("place");
                self.place(p, j);
                let pty = p.ty(self.body, self.tcx).ty;
                j.s("ty", &ty_str(pty));
                if let ty::Adt(adt, _) = pty.kind() {
                    if adt.is_enum() {
                        j.kopen("variants", '{');
                        for (vi, d) in adt.discriminants(self.tcx) {
                            j.s(&d.val.to_string(), adt.variant(vi).name.as_str());
                        }
                        j.close('}');
                    }
                }
            }
            Rvalue::Aggregate(kind, ops) => {
                j.s("k", "aggr");
                match &**kind {
                    AggregateKind::Array(t) => {
                        j.s("agg", "array");
                        j.s("ty", &ty_str(*t));
                    }
                    AggregateKind::Tuple => j.s("agg", "tuple"),
                    AggregateKind::Adt(did, vidx, _, _, _) => {
                        j.s("agg", "adt");
                        j.s("adt", &path_of(self.tcx, *did));
                        let adt = self.tcx.adt_def(*did);
                        let v = adt.variant(*vidx);
                        j.s("variant", v.name.as_str());
                        j.kopen("fields", '[');
                        for f in v.fields.iter() {
                            j.item_str(f.name.as_str());
                        }
                        j.close(']');
                    }
                    AggregateKind::Closure(did, _) => {
                        j.s("agg", "closure");
                        j.s("closure", &path_of(self.tcx, *did));
                    }
                    AggregateKind::Coroutine(did, _) => {
                        j.s("agg", "coroutine");
                        j.s("closure", &path_of(self.tcx, *did));
                    }
                    AggregateKind::CoroutineClosure(did, _) => {
                        j.s("agg", "coroutine_closure");
                        j.s("closure", &path_of(self.tcx, *did));
                    }
                    AggregateKind::RawPtr(..) => j.s("agg", "rawptr"),
                }
                j.kopen("ops", '[');
                for o in ops.iter() {
                    self.operand(o, j);
                }
                j.close(']');
            }
            Rvalue::CopyForDeref(p) => {
                j.s("k", "copy_for_deref");
                j.key("place");
                self.place(p, j);
            }
            Rvalue::ThreadLocalRef(did) => {
                j.s("k", "tls");
                j.s("item", &path_of(self.tcx, *did));
            }
            Rvalue::WrapUnsafeBinder(op, _) => {
                j.s("k", "wrap_binder");
                j.key("op");
                self.operand(op, j);
            }
        }
        j.close('}');
    }

    fn block(&self, bb: &BasicBlockData<'tcx>, j: &mut J) {
        let tcx = self.tcx;
        j.open('{');
        if bb.is_cleanup {
            j.b("cleanup", true);
        }
        j.kopen("stmts", '[');
        for st in bb.statements.iter() {
            match &st.kind {
                StatementKind::Assign(b) => {
                    let (place, rv) = &**b;
                    j.open('{');
                    j.key("lhs");
                    self.place(place, j);
                    j.key("rv");
                    self.rvalue(rv, j);
                    j.n("line", {
                        let sp = if st.source_info.span.from_expansion() {
                            st.source_info.span.source_callsite()
                        } else {
                            st.source_info.span
                        };
                        tcx.sess.source_map().lookup_char_pos(sp.lo()).line as i128
                    });
                    j.close('}');
                }
                StatementKind::SetDiscriminant { place, variant_index } => {
                    j.open('{');
                    j.key("setdiscr");
                    self.place(place, j);
                    j.n("vi", variant_index.as_u32() as i128);
                    j.close('}');
                }
                _ => {}
            }
        }
        j.close(']');
        let term = bb.terminator();
        j.kopen("term", '{');
        match &term.kind {
            TerminatorKind::Goto { target } => {
                j.s("k", "goto");
                j.n("target", target.as_u32() as i128);
            }
            TerminatorKind::SwitchInt { discr, targets } => {
                j.s("k", "switch");
                j.key("discr");
                self.operand(discr, j);
                j.kopen("targets", '[');
                for (v, t) in targets.iter() {
                    j.open('[');
                    j.item_raw(&v.to_string());
                    j.item_raw(&t.as_u32().to_string());
                    j.close(']');
                }
                j.close(']');
                j.n("otherwise", targets.otherwise().as_u32() as i128);
            }
            TerminatorKind::Return => j.s("k", "return"),
            TerminatorKind::Unreachable => j.s("k", "unreachable"),
            TerminatorKind::UnwindResume => j.s("k", "resume"),
            TerminatorKind::UnwindTerminate(_) => j.s("k", "terminate"),
            TerminatorKind::Drop { place, target, unwind, .. } => {
                j.s("k", "drop");
                j.key("place");
                self.place(place, j);
                j.n("target", target.as_u32() as i128);
                if let UnwindAction::Cleanup(c) = unwind {
                    j.n("unwind", c.as_u32() as i128);
                }
            }
            TerminatorKind::Call { func, args, destination, target, unwind, fn_span, .. } => {
                j.s("k", "call");
                j.key("func");
                self.operand(func, j);
                // function-pointer / closure-typed callee: record its type
                if !matches!(func, Operand::Constant(_)) {
                    j.s("func_ty", &ty_str(func.ty(self.body, tcx)));
                }
                j.kopen("args", '[');
                for a in args.iter() {
                    self.operand(&a.node, j);
                }
                j.close(']');
                j.kopen("arg_tys", '[');
                for a in args.iter() {
                    j.item_str(&ty_str(a.node.ty(self.body, tcx)));
                }
                j.close(']');
                j.key("dest");
                self.place(destination, j);
                j.s("dest_ty", &ty_str(destination.ty(self.body, tcx).ty));
                if let Some(t) = target {
                    j.n("target", t.as_u32() as i128);
                }
                if let UnwindAction::Cleanup(c) = unwind {
                    j.n("unwind", c.as_u32() as i128);
                }
                j.kopen("fn_span", '{');
                span_json(tcx, *fn_span, j, false);
                j.close('}');
            }
            TerminatorKind::TailCall { .. } => j.s("k", "tailcall"),
            TerminatorKind::Assert { cond, expected, msg, target, unwind } => {
                j.s("k", "assert");
                j.key("cond");
                self.operand(cond, j);
                j.b("expected", *expected);
                let kind = match &**msg {
                    mir::AssertKind::BoundsCheck { .. } => "bounds".to_string(),
                    mir::AssertKind::Overflow(op, ..) => format!("overflow:{:?}", op),
                    mir::AssertKind::OverflowNeg(_) => "overflow_neg".to_string(),
                    mir::AssertKind::DivisionByZero(_) => "div_zero".to_string(),
                    mir::AssertKind::RemainderByZero(_) => "rem_zero".to_string(),
                    mir::AssertKind::MisalignedPointerDereference { .. } => "misaligned".to_string(),
                    mir::AssertKind::NullPointerDereference => "nullptr".to_string(),
                    _ => "other".to_string(),
                };
                j.s("assert", &kind);
                match &**msg {
                    mir::AssertKind::BoundsCheck { len, index } => {
                        j.key("len");
                        self.operand(len, j);
                        j.key("index");
                        self.operand(index, j);
                    }
                    mir::AssertKind::Overflow(_, a, b) => {
                        j.key("a");
                        self.operand(a, j);
                        j.key("b");
                        self.operand(b, j);
                    }
                    _ => {}
                }
                j.n("target", target.as_u32() as i128);
                if let UnwindAction::Cleanup(c) = unwind {
                    j.n("unwind", c.as_u32() as i128);
                }
            }
            TerminatorKind::Yield { resume, .. } => {
                j.s("k", "yield");
                j.n("target", resume.as_u32() as i128);
            }
            TerminatorKind::CoroutineDrop => j.s("k", "coroutine_drop"),
            TerminatorKind::FalseEdge { real_target, .. } => {
                j.s("k", "goto");
                j.n("target", real_target.as_u32() as i128);
            }
            TerminatorKind::FalseUnwind { real_target, .. } => {
                j.s("k", "goto");
                j.n("target", real_target.as_u32() as i128);
            }
            TerminatorKind::InlineAsm { .. } => j.s("k", "asm"),
        }
        j.kopen("span", '{');
        span_json(tcx, term.source_info.span, j, matches!(term.kind, TerminatorKind::Call { .. } | TerminatorKind::Assert { .. }));
        j.close('}');
        j.close('}');
        j.close('}');
    }
}

fn dump_body<'tcx>(tcx: TyCtxt<'tcx>, owner: DefId, body: &Body<'tcx>, id: &str, j: &mut J) {
    let cx = Cx { tcx, body, owner };
    j.open('{');
    j.s("id", id);
    j.s("kind", &format!("{:?}", tcx.def_kind(owner)));
    if let Some(parent) = tcx.opt_parent(owner) {
        if matches!(tcx.def_kind(owner), DefKind::Closure) {
            j.s("parent", &path_of(tcx, parent));
        }
        if matches!(tcx.def_kind(parent), DefKind::Impl { .. }) {
            if let Some(tr) = tcx.impl_opt_trait_ref(parent) {
                let tr = tr.instantiate_identity().skip_norm_wip();
                j.s("impl_trait", &path_of(tcx, tr.def_id));
                j.s("impl_self", &ty_str(tr.self_ty()));
            } else {
                let st = tcx.type_of(parent).instantiate_identity().skip_norm_wip();
                j.s("impl_self", &ty_str(st));
            }
        }
    }
    if matches!(tcx.def_kind(owner), DefKind::Fn | DefKind::AssocFn) {
        j.s("vis", &format!("{:?}", tcx.visibility(owner)));
        j.s("name", tcx.item_name(owner).as_str());
    }
    j.kopen("span", '{');
    span_json(tcx, body.span, j, false);
    j.close('}');
    j.n("arg_count", body.arg_count as i128);
    j.kopen("locals", '[');
    for (_, d) in body.local_decls.iter_enumerated() {
        j.item_str(&ty_str(d.ty));
    }
    j.close(']');
    j.kopen("vars", '[');
    for v in body.var_debug_info.iter() {
        if let mir::VarDebugInfoContents::Place(p) = &v.value {
            j.open('{');
            j.s("name", v.name.as_str());
            j.key("place");
            cx.place(p, j);
            j.close('}');
        }
    }
    j.close(']');
    j.kopen("blocks", '[');
    for (_, bb) in body.basic_blocks.iter_enumerated() {
        cx.block(bb, j);
    }
    j.close(']');
    j.close('}');
}

struct Cb;

impl Callbacks for Cb {
    fn after_analysis<'tcx>(&mut self, _c: &Compiler, tcx: TyCtxt<'tcx>) -> Compilation {
        let out_dir = match std::env::var("MIRFACTS_OUT") {
            Ok(d) => d,
            Err(_) => return Compilation::Continue,
        };
        let crate_name = tcx.crate_name(LOCAL_CRATE).to_string();
        if let Ok(only) = std::env::var("MIRFACTS_ONLY") {
            if !only.split(',').any(|c| c == crate_name) {
                return Compilation::Continue;
            }
        }
        CRATE.with(|c| *c.borrow_mut() = crate_name.clone());
        let crate_types: Vec<String> =
            tcx.crate_types().iter().map(|t| format!("{:?}", t)).collect();
        let mut j = J::new();
        j.open('{');
        j.s("crate", &crate_name);
        j.kopen("crate_types", '[');
        for t in &crate_types {
            j.item_str(t);
        }
        j.close(']');
        j.s("rustc", env!("CARGO_PKG_VERSION"));

        // ---- function bodies (+ promoteds)
        j.kopen("fns", '[');
        let mut n_bodies = 0usize;
        for ldid in tcx.mir_keys(()).iter() {
            let did = ldid.to_def_id();
            let kind = tcx.def_kind(did);
            if !matches!(kind, DefKind::Fn | DefKind::AssocFn | DefKind::Closure) {
                continue;
            }
            // coroutine closures (async blocks) are handled through their own def ids
            let id = path_of(tcx, did);
            let body = tcx.optimized_mir(did);
            dump_body(tcx, did, body, &id, &mut j);
            n_bodies += 1;
            let promoted = tcx.promoted_mir(did);
            for (pi, pb) in promoted.iter_enumerated() {
                let pid = format!("{}::{{promoted#{}}}", id, pi.as_u32());
                dump_body(tcx, did, pb, &pid, &mut j);
            }
        }
        j.close(']');
        j.n("n_bodies", n_bodies as i128);

        // ---- local ADTs
        j.kopen("adts", '[');
        for id in tcx.hir_free_items() {
            let did = id.owner_id.to_def_id();
            let kind = tcx.def_kind(did);
            if !matches!(kind, DefKind::Struct | DefKind::Enum | DefKind::Union) {
                continue;
            }
            let adt = tcx.adt_def(did);
            j.open('{');
            j.s("path", &path_of(tcx, did));
            j.s("kind", &format!("{:?}", kind));
            j.kopen("span", '{');
            span_json(tcx, tcx.def_span(did), &mut j, false);
            j.close('}');
            j.kopen("variants", '[');
            for v in adt.variants().iter() {
                j.open('{');
                j.s("name", v.name.as_str());
                j.kopen("fields", '[');
                for f in v.fields.iter() {
                    j.open('{');
                    j.s("name", f.name.as_str());
                    let fty = tcx.type_of(f.did).instantiate_identity().skip_norm_wip();
                    j.s("ty", &ty_str(fty));
                    j.close('}');
                }
                j.close(']');
                j.close('}');
            }
            j.close(']');
            j.close('}');
        }
        j.close(']');

        // ---- trait impls in this crate: trait method -> impl method
        j.kopen("impls", '[');
        for id in tcx.hir_free_items() {
            let did = id.owner_id.to_def_id();
            if !matches!(tcx.def_kind(did), DefKind::Impl { .. }) {
                continue;
            }
            j.open('{');
            let st = tcx.type_of(did).instantiate_identity().skip_norm_wip();
            j.s("self_ty", &ty_str(st));
            if let Some(tr) = tcx.impl_opt_trait_ref(did) {
                let tr = tr.instantiate_identity().skip_norm_wip();
                j.s("trait", &path_of(tcx, tr.def_id));
            }
            j.kopen("items", '[');
            for item in tcx.associated_items(did).in_definition_order() {
                if !matches!(item.kind, ty::AssocKind::Fn { .. }) {
                    continue;
                }
                j.open('{');
                j.s("name", item.name().as_str());
                j.s("path", &path_of(tcx, item.def_id));
                if let Some(ti) = item.trait_item_def_id() {
                    j.s("trait_item", &path_of(tcx, ti));
                }
                j.close('}');
            }
            j.close(']');
            j.close('}');
        }
        j.close(']');

        // ---- local traits: methods with default bodies
        j.kopen("traits", '[');
        for id in tcx.hir_free_items() {
            let did = id.owner_id.to_def_id();
            if !matches!(tcx.def_kind(did), DefKind::Trait) {
                continue;
            }
            j.open('{');
            j.s("path", &path_of(tcx, did));
            j.kopen("items", '[');
            for item in tcx.associated_items(did).in_definition_order() {
                if !matches!(item.kind, ty::AssocKind::Fn { .. }) {
                    continue;
                }
                j.open('{');
                j.s("name", item.name().as_str());
                j.s("path", &path_of(tcx, item.def_id));
                j.b("has_default", item.defaultness(tcx).has_value());
                j.close('}');
            }
            j.close(']');
            j.close('}');
        }
        j.close(']');
        j.close('}');

        let ct = crate_types.first().cloned().unwrap_or_default().to_lowercase();
        let path = format!("{}/mir-{}-{}.json", out_dir, crate_name, ct);
        let tmp = format!("{}.tmp{}", path, std::process::id());
        std::fs::write(&tmp, j.0.as_bytes()).expect("mirfacts: write");
        std::fs::rename(&tmp, &path).expect("mirfacts: rename");
        Compilation::Continue
    }
}

fn main() {
    let mut args: Vec<String> = std::env::args().collect();
    // RUSTC_WORKSPACE_WRAPPER / RUSTC_WRAPPER: argv[1] is the path of the real rustc
    if args.len() > 1 && (args[1].ends_with("rustc") || args[1].contains("/rustc")) {
        args.remove(1);
    }
    rustc_driver::run_compiler(&args, &mut Cb);
}

//! srcfacts — dumps the syntax of /repo's non-test Rust sources (syn 2) and of its Tera
//! templates (parsed by the very parser the tool links: `tera::Template::new`) as JSON.
//! It evaluates nothing; all rules live in /verif/rules/*.py.
//!
//! usage: srcfacts <repo-root> <out.json>
use proc_macro2::Span;
use quote::ToTokens;
use serde_json::{json, Map, Value};
use std::path::Path;
use syn::spanned::Spanned;

fn ln(sp: Span) -> u64 {
    sp.start().line as u64
}
fn tok<T: ToTokens>(t: &T) -> String {
    t.to_token_stream().to_string()
}

fn path_segs(p: &syn::Path) -> Value {
    Value::Array(p.segments.iter().map(|s| Value::String(s.ident.to_string())).collect())
}

fn has_cfg_test(attrs: &[syn::Attribute]) -> bool {
    attrs.iter().any(|a| {
        a.path().is_ident("cfg") && {
            let t = a.meta.to_token_stream().to_string().replace(' ', "");
            t == "cfg(test)"
        }
    })
}

fn attrs_json(attrs: &[syn::Attribute]) -> Value {
    Value::Array(
        attrs
            .iter()
            .filter(|a| !a.path().is_ident("doc"))
            .map(|a| json!({"path": path_segs(a.path()), "tokens": tok(&a.meta)}))
            .collect(),
    )
}

fn ty_json(t: &syn::Type) -> Value {
    Value::String(tok(t))
}

fn pat_json(p: &syn::Pat) -> Value {
    use syn::Pat::*;
    match p {
        Ident(i) => {
            let mut m = Map::new();
            m.insert("k".into(), "ident".into());
            m.insert("name".into(), i.ident.to_string().into());
            if i.by_ref.is_some() {
                m.insert("by_ref".into(), true.into());
            }
            if i.mutability.is_some() {
                m.insert("mut".into(), true.into());
            }
            if let Some((_, sub)) = &i.subpat {
                m.insert("sub".into(), pat_json(sub));
            }
            Value::Object(m)
        }
        TupleStruct(ts) => json!({"k":"tstruct","path":path_segs(&ts.path),
            "elems": ts.elems.iter().map(pat_json).collect::<Vec<_>>()}),
        Struct(s) => json!({"k":"struct","path":path_segs(&s.path),
            "fields": s.fields.iter().map(|f| json!({"member": tok(&f.member), "pat": pat_json(&f.pat)})).collect::<Vec<_>>(),
            "rest": s.rest.is_some()}),
        Tuple(t) => json!({"k":"tuple","elems": t.elems.iter().map(pat_json).collect::<Vec<_>>()}),
        Lit(l) => json!({"k":"lit","lit": lit_json(&l.lit)}),
        Wild(_) => json!({"k":"wild"}),
        Or(o) => json!({"k":"or","cases": o.cases.iter().map(pat_json).collect::<Vec<_>>()}),
        Path(p) => json!({"k":"path","segs": path_segs(&p.path)}),
        Reference(r) => json!({"k":"ref","pat": pat_json(&r.pat)}),
        Slice(s) => json!({"k":"slice","elems": s.elems.iter().map(pat_json).collect::<Vec<_>>()}),
        Range(r) => json!({"k":"range","text": tok(r)}),
        Rest(_) => json!({"k":"rest"}),
        Type(t) => json!({"k":"typed","pat": pat_json(&t.pat), "ty": ty_json(&t.ty)}),
        Paren(p) => pat_json(&p.pat),
        other => json!({"k":"other","text": tok(other)}),
    }
}

fn lit_json(l: &syn::Lit) -> Value {
    match l {
        syn::Lit::Str(s) => json!({"t":"str","v": s.value()}),
        syn::Lit::Char(c) => json!({"t":"char","v": c.value().to_string()}),
        syn::Lit::Int(i) => json!({"t":"int","v": i.base10_digits(), "suffix": i.suffix()}),
        syn::Lit::Float(f) => json!({"t":"float","v": f.base10_digits()}),
        syn::Lit::Bool(b) => json!({"t":"bool","v": b.value}),
        syn::Lit::ByteStr(b) => json!({"t":"bytestr","v": String::from_utf8_lossy(&b.value()).to_string()}),
        other => json!({"t":"other","v": tok(other)}),
    }
}

fn block_json(b: &syn::Block) -> Value {
    Value::Array(b.stmts.iter().map(stmt_json).collect())
}

fn stmt_json(s: &syn::Stmt) -> Value {
    match s {
        syn::Stmt::Local(l) => {
            let mut m = Map::new();
            m.insert("k".into(), "let".into());
            m.insert("ln".into(), ln(l.span()).into());
            m.insert("pat".into(), pat_json(&l.pat));
            if let Some(init) = &l.init {
                m.insert("init".into(), expr_json(&init.expr));
                if let Some((_, e)) = &init.diverge {
                    m.insert("else".into(), expr_json(e));
                }
            }
            Value::Object(m)
        }
        syn::Stmt::Expr(e, semi) => json!({"k":"expr","semi": semi.is_some(), "e": expr_json(e)}),
        syn::Stmt::Item(i) => json!({"k":"item","item": item_json(i)}),
        syn::Stmt::Macro(m) => json!({"k":"expr","semi": m.semi_token.is_some(), "e": macro_json(&m.mac, ln(m.span()))}),
    }
}

/// A macro invocation: name, raw tokens, and — when the tokens parse as a comma separated
/// expression list (format!, println!, matches!(e, pat) is handled separately, vec!, json!-free) —
/// the parsed arguments.
fn macro_json(m: &syn::Macro, line: u64) -> Value {
    let name = m.path.segments.last().map(|s| s.ident.to_string()).unwrap_or_default();
    let mut o = Map::new();
    o.insert("k".into(), "macro".into());
    o.insert("ln".into(), line.into());
    o.insert("name".into(), name.clone().into());
    o.insert("tokens".into(), m.tokens.to_string().into());
    if name == "matches" {
        // matches!(expr, pat [if guard])
        struct M(syn::Expr, syn::Pat, Option<syn::Expr>);
        impl syn::parse::Parse for M {
            fn parse(input: syn::parse::ParseStream) -> syn::Result<Self> {
                let e: syn::Expr = input.parse()?;
                input.parse::<syn::Token![,]>()?;
                let p = syn::Pat::parse_multi_with_leading_vert(input)?;
                let g = if input.peek(syn::Token![if]) {
                    input.parse::<syn::Token![if]>()?;
                    Some(input.parse::<syn::Expr>()?)
                } else {
                    None
                };
                let _ = input.parse::<Option<syn::Token![,]>>();
                Ok(M(e, p, g))
            }
        }
        if let Ok(M(e, p, g)) = syn::parse2::<M>(m.tokens.clone()) {
            o.insert("expr".into(), expr_json(&e));
            o.insert("pat".into(), pat_json(&p));
            if let Some(g) = g {
                o.insert("guard".into(), expr_json(&g));
            }
        }
    } else {
        let parser = syn::punctuated::Punctuated::<syn::Expr, syn::Token![,]>::parse_terminated;
        if let Ok(args) = syn::parse::Parser::parse2(parser, m.tokens.clone()) {
            o.insert("args".into(), Value::Array(args.iter().map(expr_json).collect()));
        }
    }
    Value::Object(o)
}

fn expr_json(e: &syn::Expr) -> Value {
    use syn::Expr::*;
    let line = ln(e.span());
    let mut v = match e {
        Lit(l) => json!({"k":"lit","lit": lit_json(&l.lit)}),
        Path(p) => json!({"k":"path","segs": path_segs(&p.path), "text": tok(&p.path)}),
        Call(c) => json!({"k":"call","func": expr_json(&c.func), "args": c.args.iter().map(expr_json).collect::<Vec<_>>()}),
        MethodCall(m) => json!({"k":"mcall","recv": expr_json(&m.receiver), "method": m.method.to_string(),
            "turbofish": m.turbofish.as_ref().map(|t| tok(t)),
            "args": m.args.iter().map(expr_json).collect::<Vec<_>>()}),
        Macro(m) => macro_json(&m.mac, line),
        Match(m) => json!({"k":"match","expr": expr_json(&m.expr),
            "arms": m.arms.iter().map(|a| json!({"pat": pat_json(&a.pat),
                "guard": a.guard.as_ref().map(|(_, g)| expr_json(g)),
                "body": expr_json(&a.body), "ln": ln(a.span())})).collect::<Vec<_>>()}),
        If(i) => json!({"k":"if","cond": expr_json(&i.cond), "then": block_json(&i.then_branch),
            "else": i.else_branch.as_ref().map(|(_, e)| expr_json(e))}),
        Let(l) => json!({"k":"letcond","pat": pat_json(&l.pat), "expr": expr_json(&l.expr)}),
        Block(b) => json!({"k":"block","stmts": block_json(&b.block)}),
        Unsafe(b) => json!({"k":"block","stmts": block_json(&b.block), "unsafe": true}),
        Closure(c) => json!({"k":"closure","params": c.inputs.iter().map(pat_json).collect::<Vec<_>>(), "body": expr_json(&c.body)}),
        Reference(r) => json!({"k":"ref","mut": r.mutability.is_some(), "expr": expr_json(&r.expr)}),
        Unary(u) => json!({"k":"unary","op": tok(&u.op), "expr": expr_json(&u.expr)}),
        Binary(b) => json!({"k":"binary","op": tok(&b.op), "l": expr_json(&b.left), "r": expr_json(&b.right)}),
        Field(f) => json!({"k":"field","base": expr_json(&f.base), "member": tok(&f.member)}),
        Index(i) => json!({"k":"index","base": expr_json(&i.expr), "index": expr_json(&i.index)}),
        Range(r) => json!({"k":"range","from": r.start.as_ref().map(|e| expr_json(e)), "to": r.end.as_ref().map(|e| expr_json(e)),
            "inclusive": matches!(r.limits, syn::RangeLimits::Closed(_))}),
        Return(r) => json!({"k":"return","expr": r.expr.as_ref().map(|e| expr_json(e))}),
        Try(t) => json!({"k":"try","expr": expr_json(&t.expr)}),
        Struct(s) => json!({"k":"struct","path": path_segs(&s.path),
            "fields": s.fields.iter().map(|f| json!({"member": tok(&f.member), "expr": expr_json(&f.expr)})).collect::<Vec<_>>(),
            "rest": s.rest.as_ref().map(|e| expr_json(e))}),
        Tuple(t) => json!({"k":"tuple","elems": t.elems.iter().map(expr_json).collect::<Vec<_>>()}),
        Array(a) => json!({"k":"array","elems": a.elems.iter().map(expr_json).collect::<Vec<_>>()}),
        ForLoop(f) => json!({"k":"for","pat": pat_json(&f.pat), "iter": expr_json(&f.expr), "body": block_json(&f.body)}),
        While(w) => json!({"k":"while","cond": expr_json(&w.cond), "body": block_json(&w.body)}),
        Loop(l) => json!({"k":"loop","body": block_json(&l.body)}),
        Break(b) => json!({"k":"break","expr": b.expr.as_ref().map(|e| expr_json(e))}),
        Continue(_) => json!({"k":"continue"}),
        Assign(a) => json!({"k":"assign","l": expr_json(&a.left), "r": expr_json(&a.right)}),
        Cast(c) => json!({"k":"cast","expr": expr_json(&c.expr), "ty": ty_json(&c.ty)}),
        Paren(p) => return expr_json(&p.expr),
        Group(g) => return expr_json(&g.expr),
        Await(a) => json!({"k":"await","expr": expr_json(&a.base)}),
        Async(a) => json!({"k":"block","stmts": block_json(&a.block), "async": true}),
        Repeat(r) => json!({"k":"repeat","expr": expr_json(&r.expr), "len": expr_json(&r.len)}),
        other => json!({"k":"other","text": tok(other)}),
    };
    if let Value::Object(m) = &mut v {
        m.insert("ln".into(), line.into());
    }
    v
}

fn sig_json(sig: &syn::Signature) -> Value {
    let params: Vec<Value> = sig
        .inputs
        .iter()
        .map(|a| match a {
            syn::FnArg::Receiver(r) => json!({"self": true, "mut": r.mutability.is_some(), "ref": r.reference.is_some()}),
            syn::FnArg::Typed(t) => json!({"pat": pat_json(&t.pat), "ty": ty_json(&t.ty)}),
        })
        .collect();
    let ret = match &sig.output {
        syn::ReturnType::Default => Value::Null,
        syn::ReturnType::Type(_, t) => ty_json(t),
    };
    json!({"name": sig.ident.to_string(), "params": params, "ret": ret,
           "async": sig.asyncness.is_some(), "generics": tok(&sig.generics)})
}

fn fields_json(f: &syn::Fields) -> Value {
    Value::Array(
        f.iter()
            .enumerate()
            .map(|(i, f)| {
                json!({"name": f.ident.as_ref().map(|i| i.to_string()).unwrap_or_else(|| i.to_string()),
                   "ty": ty_json(&f.ty), "attrs": attrs_json(&f.attrs),
                   "pub": matches!(f.vis, syn::Visibility::Public(_))})
            })
            .collect(),
    )
}

fn item_json(i: &syn::Item) -> Value {
    use syn::Item::*;
    match i {
        Fn(f) => {
            if has_cfg_test(&f.attrs) {
                return Value::Null;
            }
            json!({"k":"fn","ln": ln(f.span()), "eln": f.span().end().line as u64, "sig": sig_json(&f.sig), "attrs": attrs_json(&f.attrs),
                   "vis": tok(&f.vis), "body": block_json(&f.block)})
        }
        Struct(s) => {
            if has_cfg_test(&s.attrs) {
                return Value::Null;
            }
            json!({"k":"struct","ln": ln(s.span()), "name": s.ident.to_string(), "attrs": attrs_json(&s.attrs),
                   "generics": tok(&s.generics),
                   "fields": fields_json(&s.fields), "tuple": matches!(s.fields, syn::Fields::Unnamed(_))})
        }
        Enum(e) => {
            if has_cfg_test(&e.attrs) {
                return Value::Null;
            }
            json!({"k":"enum","ln": ln(e.span()), "name": e.ident.to_string(), "attrs": attrs_json(&e.attrs),
                   "variants": e.variants.iter().map(|v| json!({"name": v.ident.to_string(), "attrs": attrs_json(&v.attrs),
                        "fields": fields_json(&v.fields),
                        "shape": match v.fields { syn::Fields::Named(_) => "named", syn::Fields::Unnamed(_) => "tuple", syn::Fields::Unit => "unit" }})).collect::<Vec<_>>()})
        }
        Impl(im) => {
            if has_cfg_test(&im.attrs) {
                return Value::Null;
            }
            let items: Vec<Value> = im
                .items
                .iter()
                .filter_map(|it| match it {
                    syn::ImplItem::Fn(f) if !has_cfg_test(&f.attrs) => Some(
                        json!({"k":"fn","ln": ln(f.span()), "eln": f.span().end().line as u64, "sig": sig_json(&f.sig), "attrs": attrs_json(&f.attrs),
                           "vis": tok(&f.vis), "body": block_json(&f.block)}),
                    ),
                    syn::ImplItem::Const(c) => Some(
                        json!({"k":"const","name": c.ident.to_string(), "ty": ty_json(&c.ty), "expr": expr_json(&c.expr)}),
                    ),
                    _ => None,
                })
                .collect();
            json!({"k":"impl","ln": ln(im.span()), "self_ty": ty_json(&im.self_ty),
                   "trait": im.trait_.as_ref().map(|(_, p, _)| tok(p)),
                   "generics": tok(&im.generics), "items": items})
        }
        Trait(t) => {
            if has_cfg_test(&t.attrs) {
                return Value::Null;
            }
            let items: Vec<Value> = t
                .items
                .iter()
                .filter_map(|it| match it {
                    syn::TraitItem::Fn(f) => Some(
                        json!({"k":"fn","ln": ln(f.span()), "eln": f.span().end().line as u64, "sig": sig_json(&f.sig), "attrs": attrs_json(&f.attrs),
                           "body": f.default.as_ref().map(block_json)}),
                    ),
                    _ => None,
                })
                .collect();
            json!({"k":"trait","ln": ln(t.span()), "name": t.ident.to_string(), "items": items})
        }
        Const(c) => {
            if has_cfg_test(&c.attrs) {
                return Value::Null;
            }
            json!({"k":"const","ln": ln(c.span()), "name": c.ident.to_string(), "ty": ty_json(&c.ty), "expr": expr_json(&c.expr)})
        }
        Static(c) => json!({"k":"static","ln": ln(c.span()), "name": c.ident.to_string(), "ty": ty_json(&c.ty), "expr": expr_json(&c.expr)}),
        Mod(m) => {
            if has_cfg_test(&m.attrs) {
                return Value::Null;
            }
            match &m.content {
                Some((_, items)) => json!({"k":"mod","name": m.ident.to_string(),
                    "items": items.iter().map(item_json).filter(|v| !v.is_null()).collect::<Vec<_>>()}),
                None => json!({"k":"moddecl","name": m.ident.to_string(), "vis": tok(&m.vis)}),
            }
        }
        Use(u) => json!({"k":"use","text": tok(&u.tree), "vis": tok(&u.vis)}),
        Macro(m) => json!({"k":"macro_item","name": m.ident.as_ref().map(|i| i.to_string()), "path": tok(&m.mac.path), "tokens": m.mac.tokens.to_string()}),
        Type(t) => json!({"k":"type","name": t.ident.to_string(), "ty": ty_json(&t.ty)}),
        other => json!({"k":"other","text": tok(other).chars().take(200).collect::<String>()}),
    }
}

// ------------------------------------------------------------------ tera

fn tera_expr(e: &tera::ast::Expr) -> Value {
    json!({"val": tera_val(&e.val), "negated": e.negated,
           "filters": e.filters.iter().map(tera_call).collect::<Vec<_>>()})
}
fn tera_call(f: &tera::ast::FunctionCall) -> Value {
    let mut args: Vec<(String, Value)> = f.args.iter().map(|(k, v)| (k.clone(), tera_expr(v))).collect();
    args.sort_by(|a, b| a.0.cmp(&b.0));
    json!({"name": f.name, "args": args.into_iter().map(|(k, v)| json!([k, v])).collect::<Vec<_>>()})
}
fn tera_val(v: &tera::ast::ExprVal) -> Value {
    use tera::ast::ExprVal::*;
    match v {
        String(s) => json!({"k":"str","v": s}),
        Int(i) => json!({"k":"int","v": i}),
        Float(f) => json!({"k":"float","v": f}),
        Bool(b) => json!({"k":"bool","v": b}),
        Ident(s) => json!({"k":"ident","v": s}),
        Math(m) => json!({"k":"math","op": format!("{}", m.operator), "l": tera_expr(&m.lhs), "r": tera_expr(&m.rhs)}),
        Logic(l) => json!({"k":"logic","op": format!("{}", l.operator), "l": tera_expr(&l.lhs), "r": tera_expr(&l.rhs)}),
        Test(t) => json!({"k":"test","ident": t.ident, "negated": t.negated, "name": t.name, "args": t.args.iter().map(tera_expr).collect::<Vec<_>>()}),
        MacroCall(m) => json!({"k":"macrocall","ns": m.namespace, "name": m.name}),
        FunctionCall(f) => json!({"k":"fncall","call": tera_call(f)}),
        Array(a) => json!({"k":"array","elems": a.iter().map(tera_expr).collect::<Vec<_>>()}),
        StringConcat(c) => json!({"k":"concat","values": c.values.iter().map(tera_val).collect::<Vec<_>>()}),
        In(i) => json!({"k":"in","l": tera_expr(&i.lhs), "r": tera_expr(&i.rhs), "negated": i.negated}),
    }
}
fn tera_nodes(ns: &[tera::ast::Node]) -> Value {
    Value::Array(ns.iter().map(tera_node).collect())
}
fn tera_node(n: &tera::ast::Node) -> Value {
    use tera::ast::Node::*;
    match n {
        Super => json!({"k":"super"}),
        Text(s) => json!({"k":"text","v": s}),
        VariableBlock(_, e) => json!({"k":"var","e": tera_expr(e)}),
        MacroDefinition(_, m, _) => json!({"k":"macrodef","name": m.name, "body": tera_nodes(&m.body)}),
        Extends(_, s) => json!({"k":"extends","v": s}),
        Include(_, names, ignore_missing) => json!({"k":"include","names": names, "ignore_missing": ignore_missing}),
        ImportMacro(_, a, b) => json!({"k":"import","file": a, "ns": b}),
        Set(_, s) => json!({"k":"set","key": s.key, "value": tera_expr(&s.value), "global": s.global}),
        Raw(_, s, _) => json!({"k":"text","v": s, "raw": true}),
        FilterSection(_, f, _) => json!({"k":"filtersection","filter": tera_call(&f.filter), "body": tera_nodes(&f.body)}),
        Block(_, b, _) => json!({"k":"block","name": b.name, "body": tera_nodes(&b.body)}),
        Forloop(_, f, _) => json!({"k":"for","key": f.key, "value": f.value, "container": tera_expr(&f.container),
            "body": tera_nodes(&f.body), "empty": f.empty_body.as_ref().map(|b| tera_nodes(b))}),
        If(i, _) => json!({"k":"if",
            "conds": i.conditions.iter().map(|(_, c, body)| json!({"cond": tera_expr(c), "body": tera_nodes(body)})).collect::<Vec<_>>(),
            "else": i.otherwise.as_ref().map(|(_, b)| tera_nodes(b))}),
        Break(_) => json!({"k":"break"}),
        Continue(_) => json!({"k":"continue"}),
        Comment(_, s) => json!({"k":"comment","v": s}),
    }
}

fn main() {
    let args: Vec<String> = std::env::args().collect();
    if args.len() != 3 {
        eprintln!("usage: srcfacts <repo-root> <out.json>");
        std::process::exit(2);
    }
    let root = Path::new(&args[1]);
    let mut files = Map::new();
    let mut templates = Map::new();
    let mut errors: Vec<Value> = Vec::new();
    let mut roots: Vec<std::path::PathBuf> = vec![root.join("src")];
    if root.join("build.rs").exists() {
        roots.push(root.join("build.rs"));
    }
    for r in roots {
        for entry in walkdir::WalkDir::new(&r).sort_by_file_name() {
            let entry = match entry {
                Ok(e) => e,
                Err(e) => {
                    errors.push(json!({"walk": e.to_string()}));
                    continue;
                }
            };
            let p = entry.path();
            if !p.is_file() {
                continue;
            }
            let rel = p.strip_prefix(root).unwrap_or(p).to_string_lossy().to_string();
            match p.extension().and_then(|e| e.to_str()) {
                Some("rs") => {
                    let src = match std::fs::read_to_string(p) {
                        Ok(s) => s,
                        Err(e) => {
                            errors.push(json!({"file": rel, "error": e.to_string()}));
                            continue;
                        }
                    };
                    match syn::parse_file(&src) {
                        Ok(f) => {
                            let items: Vec<Value> =
                                f.items.iter().map(item_json).filter(|v| !v.is_null()).collect();
                            files.insert(rel, json!({"items": items, "lines": src.lines().count()}));
                        }
                        Err(e) => errors.push(json!({"file": rel, "error": e.to_string()})),
                    }
                }
                Some("tera") => {
                    let src = match std::fs::read_to_string(p) {
                        Ok(s) => s,
                        Err(e) => {
                            errors.push(json!({"file": rel, "error": e.to_string()}));
                            continue;
                        }
                    };
                    match tera::Template::new(&rel, None, &src) {
                        Ok(t) => {
                            templates.insert(rel, json!({"ast": tera_nodes(&t.ast), "source": src}));
                        }
                        Err(e) => {
                            let mut msg = e.to_string();
                            let mut src_err: Option<&dyn std::error::Error> = std::error::Error::source(&e);
                            while let Some(s) = src_err {
                                msg.push_str(" / ");
                                msg.push_str(&s.to_string());
                                src_err = s.source();
                            }
                            errors.push(json!({"file": rel, "error": msg, "template": true}));
                        }
                    }
                }
                _ => {}
            }
        }
    }
    let cargo_toml = std::fs::read_to_string(root.join("Cargo.toml")).unwrap_or_default();
    let out = json!({"files": files, "templates": templates, "errors": errors, "cargo_toml": cargo_toml});
    std::fs::write(&args[2], serde_json::to_vec(&out).unwrap()).expect("write");
}

"""tplpaths — control-path enumeration of Tera templates (TPATH rule kind).

A path is a sequence of items:
  ("text", s) | ("hole", expr_text, expr_json) | ("loop", var, container_text, [paths of the body])
with the list of branch conditions taken ("cond text", bool).  `include` is inlined through the
template registry; `set` bindings are substituted into later holes and conditions (so guards are
expressed over the context variables the Rust side inserts, not over template locals).
Nothing is rendered: this is a syntactic unfolding of the template AST.
"""
import json
import re


def expr_text(e, env=None):
    """canonical text of a Tera expression (filters included); `set` variables are substituted"""
    env = env or {}
    t = val_text(e["val"], env)
    for f in e.get("filters", []):
        args = ",".join("%s=%s" % (k, expr_text(v, env)) for k, v in f["args"])
        t = "%s|%s%s" % (t, f["name"], "(" + args + ")" if args else "")
    if e.get("negated"):
        t = "not(" + t + ")"
    return t


def val_text(v, env):
    k = v["k"]
    if k == "ident":
        name = v["v"]
        head = name.split(".")[0]
        if head in env and env[head] is not None:
            rest = name[len(head):]
            return env[head] + rest if not rest else "(%s)%s" % (env[head], rest)
        return name
    if k == "str":
        return json.dumps(v["v"])
    if k in ("int", "float"):
        return str(v["v"])
    if k == "bool":
        return "true" if v["v"] else "false"
    if k in ("math", "logic"):
        return "%s %s %s" % (expr_text(v["l"], env), v["op"], expr_text(v["r"], env))
    if k == "test":
        return "%s is %s%s" % (v["ident"], "not " if v["negated"] else "", v["name"])
    if k == "array":
        return "[" + ",".join(expr_text(x, env) for x in v["elems"]) + "]"
    if k == "concat":
        return " ~ ".join(val_text(x, env) for x in v["values"])
    if k == "in":
        return "%s %sin %s" % (expr_text(v["l"], env), "not " if v["negated"] else "", expr_text(v["r"], env))
    if k == "fncall":
        return v["call"]["name"] + "(..)"
    if k == "macrocall":
        return "%s::%s(..)" % (v["ns"], v["name"])
    return "?"


class Path:
    stopped = False     # a `continue` / `break` was taken: nothing that follows in the loop body is rendered on this path

    def __init__(self, conds=(), items=()):
        self.conds = tuple(conds)
        self.items = list(items)

    def extend(self, other):
        if self.stopped:
            return self
        p = Path(self.conds + other.conds, self.items + other.items)
        p.stopped = other.stopped
        return p

    def flat(self, hole=lambda t: "⟦%s⟧" % t, loop=None):
        """text with holes rendered by `hole`; loops rendered once per body path by `loop` (default: body of the first path)"""
        out = []
        for it in self.items:
            if it[0] == "text":
                out.append(it[1])
            elif it[0] == "hole":
                out.append(hole(it[1]))
            elif it[0] == "loop":
                if loop is not None:
                    out.append(loop(it))
                else:
                    bodies = it[3]
                    out.append(bodies[0].flat(hole) if bodies else "")
        return "".join(out)

    def holes(self, in_loops=True):
        for it in self.items:
            if it[0] == "hole":
                yield it
            elif it[0] == "loop" and in_loops:
                for bp in it[3]:
                    yield from bp.holes()

    def cond_text(self):
        return " ∧ ".join(("%s" if v else "¬(%s)") % c for c, v in self.conds) or "always"


MAX_PATHS = 4096


LEN_ATOM = re.compile(r"^(.*\|length) (==|!=|>|>=|<|<=) (\d+)$")


def _norm_atom(text, want):
    """`x|length == 0`, `x|length != 0`, `x|length >= 1`, `x|length < 1` all speak about the atom `x|length > 0`"""
    m = LEN_ATOM.match(text)
    if m:
        base, op, n = m.group(1), m.group(2), int(m.group(3))
        table = {("==", 0): False, ("!=", 0): True, (">", 0): True, (">=", 1): True, ("<", 1): False, ("<=", 0): False}
        if (op, n) in table:
            return ("%s > 0" % base, want if table[(op, n)] else (not want))
    return (text, want)


def cond_cases(e, want, env, env_ast, depth=0):
    """alternatives under which expression e evaluates to `want`: list of tuples of (atom text, bool)"""
    if e.get("negated"):
        inner = dict(e)
        inner["negated"] = False
        return cond_cases(inner, not want, env, env_ast, depth)
    v = e["val"]
    if not e.get("filters"):
        if v["k"] == "logic" and v["op"] in ("and", "or"):
            l_t = cond_cases(v["l"], True, env, env_ast, depth)
            l_f = cond_cases(v["l"], False, env, env_ast, depth)
            r_t = cond_cases(v["r"], True, env, env_ast, depth)
            r_f = cond_cases(v["r"], False, env, env_ast, depth)
            if v["op"] == "and":
                out = [a + b for a in l_t for b in r_t] if want else (l_f + [a + b for a in l_t for b in r_f])
            else:
                out = (l_t + [a + b for a in l_f for b in r_t]) if want else [a + b for a in l_f for b in r_f]
            return [x for x in out if consistent(x)][:64]
        if v["k"] == "ident" and "." not in v["v"] and v["v"] in env_ast and depth < 6:
            val, env0 = env_ast[v["v"]]
            return cond_cases(val, want, env0, env_ast, depth + 1)
        if v["k"] == "bool":
            return [()] if bool(v["v"]) == want else []
    return [(_norm_atom(expr_text(e, env), want),)]


class Templates:
    def __init__(self, S):
        self.S = S
        self.reg = S.template_registry()

    def ast_of(self, name):
        info = self.reg.get(name)
        if info is None:
            return None
        t = self.S.templates.get(info["file"])
        return t["ast"] if t else None

    def paths(self, name):
        ast = self.ast_of(name)
        if ast is None:
            return None
        return self._paths(ast, {}, 0)

    _env_ast = {}
    _capture = None

    def paths_in_context(self, name):
        """paths of a partial as its includers see it: `set` variables of the including template substituted (`{% set name = struct.name %}` before the
        include, or `struct.name` written out in the partial, give the same holes).  A template nobody includes is rendered from Rust: its own paths."""
        self._capture = (name, [])
        try:
            for root in sorted(self.reg):
                if root != name:
                    self.paths(root)
            got = self._capture[1]
        finally:
            self._capture = None
        return got or self.paths(name)

    def _paths(self, nodes, env, depth):
        """-> list[Path]; env maps `set` variables to expression text"""
        return [p for (p, _e, _a) in self._run(nodes, dict(env), dict(self._env_ast), depth)]

    def _emit(self, e, env, ea, depth=0):
        """items printed by `{{ e }}`: a `set` variable that holds a string literal or a concatenation (`"params: types." ~ x ~ "Params"`) prints its
        literal parts as text and its other parts as holes — the same items as when the template spells them out"""
        v = e["val"]
        if not e.get("filters") and not e.get("negated") and depth < 6:
            if v["k"] == "str":
                return [("text", v["v"])]
            if v["k"] == "ident" and "." not in v["v"] and v["v"] in ea:
                val, env0 = ea[v["v"]]
                return self._emit(val, env0, ea, depth + 1)
            if v["k"] == "concat":
                out = []
                for x in v["values"]:
                    out.extend(self._emit({"val": x, "filters": [], "negated": False}, env, ea, depth + 1))
                return out
        return [("hole", expr_text(e, env), e)]

    def _sub(self, nodes, env, ea, depth):
        """paths of a nested scope (include, loop body) evaluated under the given bindings; what it sets stays inside"""
        saved = self._env_ast
        self._env_ast = ea
        try:
            return self._paths(nodes, env, depth)
        finally:
            self._env_ast = saved

    def _run(self, nodes, env, env_ast, depth):
        """-> list of (Path, env, env_ast): the bindings travel with the path, because `{% set %}` inside the branches of an `{% if %}` is visible
        after it (Tera's `if` opens no scope) and may differ from branch to branch"""
        states = [(Path(), env, env_ast)]
        for n in nodes:
            k = n["k"]
            new = []
            for (p, env, ea) in states:
                if p.stopped or k == "comment":
                    new.append((p, env, ea))
                elif k == "text":
                    new.append((p.extend(Path((), [("text", n["v"])])), env, ea))
                elif k == "var":
                    new.append((p.extend(Path((), self._emit(n["e"], env, ea))), env, ea))
                elif k == "set":
                    ea2 = dict(ea)
                    ea2[n["key"]] = (n["value"], dict(env))
                    env2 = dict(env)
                    env2[n["key"]] = expr_text(n["value"], env)
                    new.append((p, env2, ea2))
                elif k == "include":
                    sub = None
                    for nm in n["names"]:
                        a = self.ast_of(nm)
                        if a is not None and depth < 6:
                            sub = self._sub(a, env, ea, depth + 1)
                            if self._capture is not None and nm == self._capture[0]:
                                self._capture[1].extend(sub)
                            break
                    if sub is None:
                        sub = [Path((), [("text", "⟪ missing include %s ⟫" % ",".join(n["names"]))])]
                    new.extend((p.extend(s_), env, ea) for s_ in sub)
                elif k == "for":
                    body_env = dict(env)
                    body_env[n["value"]] = None  # loop variable shadows
                    if n.get("key"):
                        body_env[n["key"]] = None
                    body_env["loop"] = None
                    bodies = self._sub(n["body"], body_env, ea, depth + 1)
                    for bp_ in bodies:
                        bp_.stopped = False      # the jump ends one pass through the body, not what follows the loop
                    new.append((p.extend(Path((), [("loop", n["value"], expr_text(n["container"], env), bodies)])), env, ea))
                elif k == "if":
                    # conditions are unfolded into their atoms (`a or b`, `not a and not b`, a `set` variable holding such an expression): a path
                    # records the truth value of each atom, so two templates that spell the same decision differently have the same paths
                    negs = [()]          # alternatives (tuples of atom outcomes) under which every earlier condition failed
                    for c in n["conds"]:
                        pos = cond_cases(c["cond"], True, env, ea)
                        subs = self._run(c["body"], env, ea, depth + 1)
                        for ng in negs:
                            for ps in pos:
                                if not consistent(ng + ps):
                                    continue
                                for (s_, env_s, ea_s) in subs:
                                    new.append((p.extend(Path(ng + ps, []).extend(s_)), env_s, ea_s))
                        neg_c = cond_cases(c["cond"], False, env, ea)
                        negs = [ng + nc for ng in negs for nc in neg_c if consistent(ng + nc)][:64]
                    if n.get("else") is not None:
                        els = self._run(n["else"], env, ea, depth + 1)
                        for ng in negs:
                            for (s_, env_s, ea_s) in els:
                                new.append((p.extend(Path(ng, []).extend(s_)), env_s, ea_s))
                    else:
                        for ng in negs:
                            new.append((p.extend(Path(ng, [])), env, ea))
                elif k in ("block", "filtersection"):
                    for (s_, env_s, ea_s) in self._run(n["body"], env, ea, depth + 1):
                        new.append((p.extend(s_), env_s, ea_s))
                elif k in ("break", "continue"):
                    stop_ = Path()
                    stop_.stopped = True
                    new.append((p.extend(stop_), env, ea))
                elif k in ("extends", "import", "macrodef", "super"):
                    new.append((p.extend(Path((), [("text", "⟪%s⟫" % k)])), env, ea))
                else:
                    new.append((p, env, ea))
            states = new[:MAX_PATHS]
        return states

    def rendered_names(self):
        """template names passed to render(..) anywhere in the sources (string literals)"""
        from srclib import walk_block, lit_str
        names = set()
        registrars = {v["registrar"] for v in self.reg.values()}
        for f in self.S.fns:
            if f.body is None:
                continue
            for e in walk_block(f.body):
                if e.get("k") == "mcall" and e["method"] == "render" and e["args"]:
                    s = lit_str(e["args"][0])
                    if s:
                        names.add(s)
                    elif e["args"][0].get("k") in ("mcall", "call"):
                        # the name looked up by a new private helper that maps a variant to a registered template name
                        import srclib as _sl
                        a0 = e["args"][0]
                        h0 = _sl._NEW_HELPERS.get(a0["method"] if a0["k"] == "mcall" else (a0["func"].get("segs") or ["?"])[-1])
                        if h0 is not None and h0.body is not None:
                            names |= {lit_str(y) for y in walk_block(h0.body) if lit_str(y) and lit_str(y) in self.reg}
                elif e.get("k") in ("mcall", "call") and e.get("args") and f.qname not in registrars and e.get("method") != "add_raw_template":
                    # a registered template name handed to a wrapper around render
                    for a in e["args"]:
                        s = lit_str(a)
                        if s and s in self.reg:
                            names.add(s)
        return names

    def reachable_templates(self):
        """rendered templates plus everything they include (names)"""
        seen = set()
        work = list(self.rendered_names())
        from srclib import tera_walk
        while work:
            n = work.pop()
            if n in seen:
                continue
            seen.add(n)
            ast = self.ast_of(n)
            if ast is None:
                continue
            for node in tera_walk(ast):
                if node.get("k") == "include":
                    work.extend(node["names"])
        return seen


def consistent(conds):
    """drop paths whose condition list contradicts itself (same text required true and false)"""
    seen = {}
    for c, v in conds:
        if c in seen and seen[c] != v:
            return False
        seen[c] = v
    return True

"""crossref — thorough-tier completeness cross-check of two enumerations against an independent enumerator (clippy's opt-in lints).

The UNORD rule enumerates unordered-iteration consumption sites by type from MIR, the PANIC rule enumerates string-slice / index sites
from MIR.  rustc's own lint passes (clippy::iter_over_hash_type, clippy::string_slice, clippy::indexing_slicing) enumerate overlapping
site classes from HIR with a different algorithm.  Every site a lint reports inside a function that is reachable from the entry points
must fall inside a function in which our rule also found a site of that class: a gap means our enumeration lost coverage.
This is still static analysis of /repo's current source (the lints are compiler passes); nothing is executed.
"""
import json
import os
import subprocess

from common import VERIF, REPO, nightly_sysroot, FactsError

LINTS = {
    "unord": ["clippy::iter_over_hash_type"],
    "panic": ["clippy::string_slice", "clippy::indexing_slicing"],
}


def run_clippy(repo, lints):
    """-> [(lint, file, line)] for the lib and bin targets"""
    tgt = os.path.join(VERIF, ".cache", "clippy-target")
    os.makedirs(tgt, exist_ok=True)
    flags = ["-A", "clippy::all"]
    for l in lints:
        flags += ["-W", l]
    env = dict(os.environ, CARGO_TARGET_DIR=tgt, CARGO_NET_OFFLINE="true")
    # make sure the lint passes really run: drop the members' fingerprints
    fp = os.path.join(tgt, "debug", ".fingerprint")
    if os.path.isdir(fp):
        for d in os.listdir(fp):
            if d.startswith(("tauri-typegen-", "tauri_typegen-", "cargo-tauri-typegen-")):
                subprocess.run(["rm", "-rf", os.path.join(fp, d)])
    r = subprocess.run(["cargo", "+nightly", "clippy", "--offline", "--locked", "--lib", "--bins", "--message-format=json", "--"] + flags,
                       cwd=repo, env=env, capture_output=True, text=True)
    if r.returncode != 0:
        raise FactsError("clippy cross-reference could not run: " + r.stderr[-600:])
    out = []
    for line in r.stdout.splitlines():
        try:
            m = json.loads(line)
        except ValueError:
            continue
        if m.get("reason") != "compiler-message":
            continue
        msg = m["message"]
        code = (msg.get("code") or {}).get("code")
        if code not in lints:
            continue
        for sp in msg.get("spans", []):
            if sp.get("is_primary"):
                out.append((code, sp["file_name"], sp["line_start"]))
    return out


def enclosing_fn(S, file, line):
    best = None
    for f in S.fns:
        if f.file == file and f.body is not None and f.line <= line <= f.eline:
            if best is None or (f.eline - f.line) < (best.eline - best.line):
                best = f
    return best


def gaps(ctx, klass, our_sites, reachable_names):
    """our_sites: set of (file, line); reachable_names: set of short function names (owner::name / name) reachable from the entry points.
    -> (n lint sites, n inside reachable functions, [gap descriptions])"""
    S = ctx.S
    found = run_clippy(ctx.repo, LINTS[klass])
    ours_by_fn = {}
    for (file, line) in our_sites:
        f = enclosing_fn(S, file, line)
        if f is not None:
            ours_by_fn.setdefault(f.qname, set()).add(line)
    n_reach = 0
    out = []
    for (code, file, line) in sorted(set(found)):
        f = enclosing_fn(S, file, line)
        if f is None:
            continue            # test module or item the syntax facts drop (cfg(test))
        if f.qname not in reachable_names:
            continue
        n_reach += 1
        if f.qname not in ours_by_fn:
            out.append((code, file, line, f.qname))
    return len(set(found)), n_reach, out

"""C10 — Zod schemas describe the same structure as the plain TypeScript declarations.

Both generators are compositional, so constructor-wise agreement implies agreement at every depth.
  D1  SHAPE/SIBLING  per TypeStructure constructor, ZodSchemaBuilder::render_type has the Zod image of the plain shape with the
                     same recursive holes: array -> z.array(x), set -> array-like, map -> z.record(k, v), tuple -> z.tuple([..]),
                     Optional -> omittable, primitives -> z.string()/z[.coerce].number()/z[.coerce].boolean()/z.void(),
                     custom -> {name}Schema (or the mapping's image); enums -> z.enum([literals])
  D2  TPATH          names and key holes of the Zod templates equal those of the plain templates for the same role
  D3  TABLE          nothing on the parameter path builds a non-JSON-serialisable Zod type (z.set, z.map, z.date, z.bigint, ...)
"""
import re

from common import Rule, V, finish
from svlib import SVEval, render, leaves
from tplpaths import Templates, consistent
from c05 import resolver, constructor_of, flat_pieces, shape_of

PROP = "C10"

NON_JSON = ("z.set(", "z.map(", "z.date(", "z.bigint(", "z.undefined(", "z.function(", "z.promise(", "z.nan(", "z.symbol(", "z.instanceof(")


def zod_shape(sv):
    ps = flat_pieces(sv)
    txt = "".join(p[1] if p[0] == "lit" else ("\x00" if p[0] == "rec" else ("\x01" if p[0] == "rep" else "\x02")) for p in ps)
    # validators appended through call nodes are kept as \x02 pieces; strip `call` wrappers: the array schema is passed to apply_length_validator
    return txt


def unwrap_calls(sv):
    """apply_*_validator(schema, ..) returns schema + constraints: for shape purposes look at the schema argument"""
    while sv[0] == "call" and sv[1].startswith("apply_") and sv[2]:
        sv = sv[2][0]
    return sv


def check_renderer_families(S, ev, r1):
    """the TypeScript-type renderer of Zod mode recurses only into itself, the schema renderers only into themselves; shared by C10-D1 and C05-D3"""
    from c05 import resolver as _resolver
    def all_rec(sv):
        out = []
        if sv is None:
            return out
        if sv[0] == "rec":
            out.append(sv)
        elif sv[0] == "cat":
            for x in sv[1]:
                out += all_rec(x)
        elif sv[0] in ("rep", "list", "replace"):
            out += all_rec(sv[1])
        elif sv[0] == "call":
            for x in sv[2]:
                out += all_rec(x)
        return out
    for owner, entry in (("ZodVisitor", "visit_type_for_interface"), ("ZodVisitor", "visit_type"), ("ZodSchemaBuilder", "render_type")):
        res_ = _resolver(S, owner)
        fn_ = res_(entry)
        if fn_ is None:
            r1.bad(V(r1.id, "<anchor>", "missing:%s::%s" % (owner, entry), "renderer not found"))
            continue
        foreign = set()
        n_rec = 0
        for conds, sv in ev.fn_paths(fn_, None, res_):
            for rnode in all_rec(sv):
                n_rec += 1
                family = {"visit_type_for_interface"} if entry == "visit_type_for_interface" else {"visit_type", "render_type"}
                if rnode[1].split(".")[-1] not in family:
                    foreign.add((rnode[1], rnode[2]))
        if foreign:
            r1.bad(V(r1.id, "%s::%s" % (owner, entry), "renderer-families-mixed:%s" % ",".join(sorted("%s(%s)" % x for x in foreign)),
                     "%s::%s renders sub-structures with %s: the two renderings (TypeScript type / Zod schema) are mixed inside one expression" % (owner, entry, sorted(foreign))))
        else:
            r1.ok("%s::%s recurses only into its own family (%d recursive positions)" % (owner, entry, n_rec))


def struct_emitter_total(P, r2_pending, r2_ok, rid="C10-D2-names-and-keys", with_shape=False):
    """generate_struct_schema has no way out that emits nothing; shared by C10-D2 and C07-D6 (violations are appended to the given lists)"""
    gss = [f_ for k_, f_ in P.fns.items() if re.sub(r"::<[^>]*>", "", k_).endswith("ZodBindingsGenerator::generate_struct_schema")]
    for f_ in gss:
        emit = {c.bb for c in f_.calls if (c.best or "").endswith(("::generate_enum_schema", "::generate_object_schema")) and c.bb in f_.reach_blocks}
        if not emit:
            r2_pending.append(V(rid, f_.id, "no-emitter-call", "generate_struct_schema calls neither emitter"))
            continue
        seen_ = {0}
        work_ = [0]
        leak = False
        while work_:
            b_ = work_.pop()
            if b_ in emit:
                continue
            if f_.blocks[b_]["term"]["k"] == "return":
                leak = True
            for (_, t_) in f_.succ_edges(b_):
                if t_ not in seen_:
                    seen_.add(t_)
                    work_.append(t_)
        if leak:
            r2_pending.append(V(rid, f_.id, "struct-without-schema", "generate_struct_schema can return without calling generate_enum_schema / generate_object_schema: some structs the plain mode declares get no schema (and no inferred type) in Zod mode"))
        else:
            r2_ok.append("generate_struct_schema: every path emits through one of the two schema emitters")
    if not gss:
        r2_pending.append(V(rid, "<anchor>", "missing:generate_struct_schema", "anchor not found"))
    # ... and the object emitter has one shape for every struct: each way out of generate_object_schema passes through the render of the schema
    # template (the sibling of the plain interface template); a hand-written early exit for some structs ("no fields": `z.null()`) declares a
    # different shape than `interface X {}` does
    for f_ in [g_ for k_, g_ in P.fns.items() if with_shape and re.sub(r"::<[^>]*>", "", k_).endswith("ZodBindingsGenerator::generate_object_schema")]:
        rc = [c for c in f_.calls if c.name == "render" and c.bb in f_.reach_blocks]
        rets = [b for b in f_.reach_blocks if f_.blocks[b]["term"]["k"] == "return"]
        if rc and rets:
            if all(any(f_.dominates(c.bb, r_) for c in rc) for r_ in rets):
                r2_ok.append("generate_object_schema: every path renders the schema template")
            else:
                r2_pending.append(V(rid, f_.id, "object-schema-bypasses-template", "generate_object_schema can return text that did not come from the schema template: "
                                    "some structs get another shape in Zod mode than the interface the plain mode declares"))


def check(ctx):
    r2_pending = []
    r2_ok = []
    S = ctx.S
    rules = []
    ev = SVEval(S)

    r1 = Rule("C10-D1-shape-agreement", "D1",
              "for every TypeStructure constructor the schema builder's rendering is the Zod image of the plain rendering over the same holes",
              "a constructor with a different Zod shape makes the schema reject (or mis-type) values the plain declaration admits")
    r3 = Rule("C10-D3-json-serialisable", "D3",
              "no literal piece of the schema builder / Zod visitor renderings constructs a Zod type whose parsed value is not JSON-serialisable",
              "what the schema hands to invoke must survive JSON.stringify: a Set serialises as {}")
    plain_res = resolver(S, "TypeScriptVisitor")
    plain = {}
    for conds, sv in ev.fn_paths(plain_res("visit_type"), None, plain_res):
        c = constructor_of(conds)
        if c:
            plain.setdefault(c, []).append((conds, sv))
    sb = [f for f in S.fns if f.owner == "ZodSchemaBuilder" and f.name == "render_type"]
    if not sb:
        r1.bad(V(r1.id, "<anchor>", "missing:ZodSchemaBuilder::render_type", "anchor not found"))
    else:
        def sb_res(name):
            f = [x for x in S.fns if x.owner == "ZodSchemaBuilder" and x.name == name and x.body is not None]
            return f[0] if f else None
        # keep validators symbolic: do not inline apply_* (shape of the base schema is what matters here)
        def sb_res_shape(name):
            if name.startswith("apply_"):
                return None
            return sb_res(name)
        zod = {}
        for conds, sv in ev.fn_paths(sb[0], None, sb_res_shape):
            c = constructor_of(conds)
            if c:
                zod.setdefault(c, []).append((conds, sv))
        WANT = {
            "Array": r"^z\.array\(\x00\)$",
            "Set": r"^z\.array\(\x00\)$",
            "Map": r"^z\.record\(\x00, \x00\)$",
            "Tuple": r"^z\.tuple\(\[\x01\]\)$|^z\.void\(\)$",
            "Optional": r"^\x00\.(optional|nullish)\(\)$|^z\.optional\(\x00\)$",
            "Result": r"^\x00$|^z\.union\(\[\x00, z\.object\(\{ error: z\.string\(\) \}\)\]\)$",
        }
        for c in sorted(set(plain) | set(zod)):
            if c not in zod:
                r1.bad(V(r1.id, "ZodSchemaBuilder::render_type", "no-arm:%s" % c, "the schema builder has no rendering for TypeStructure::%s" % c))
                continue
            for conds, sv in zod[c]:
                base = unwrap_calls(sv)
                txt = zod_shape(base)
                for piece in flat_pieces(base):
                    if piece[0] == "lit":
                        for bad in NON_JSON:
                            if bad in piece[1]:
                                r3.bad(V(r3.id, "ZodSchemaBuilder::render_type", "non-json:%s:%s" % (c, bad.rstrip("(")),
                                         "%s renders `%s`: the parsed value (a JS %s) is not JSON-serialisable and JSON arrays are rejected"
                                         % (c, render(base), bad[2:-1].capitalize())))
                if c in WANT:
                    if re.match(WANT[c], txt):
                        # same holes as the plain rendering
                        zh = sorted(p[2] for p in flat_pieces(base) if p[0] == "rec") + sorted("*" for p in flat_pieces(base) if p[0] == "rep")
                        ph = None
                        for pc, psv in plain.get(c, []):
                            cand = sorted(p[2] for p in flat_pieces(psv) if p[0] == "rec") + sorted("*" for p in flat_pieces(psv) if p[0] == "rep")
                            if cand == zh or (c == "Tuple" and txt.startswith("z.void")):
                                ph = cand
                        if ph is not None or c == "Tuple":
                            r1.ok("%s: %s ≙ %s" % (c, render(base), render(plain[c][0][1]) if c in plain else "?"))
                        else:
                            r1.bad(V(r1.id, "ZodSchemaBuilder::render_type", "holes:%s:%s" % (c, ",".join(zh)),
                                     "%s recurses into %s but the plain rendering into other sub-structures" % (c, zh)))
                    else:
                        r1.bad(V(r1.id, "ZodSchemaBuilder::render_type", "shape:%s:%s" % (c, render(base)),
                                 "%s renders as `%s`, which is not the Zod image of the plain shape `%s`" % (c, render(base), render(plain[c][0][1]) if c in plain else "?")))
                elif c == "Primitive":
                    prim = None
                    for x in conds:
                        m = re.search(r'\w+ matches "(\w+)"', x)
                        if m:
                            prim = m.group(1)
                    img = {"string": r"^z\.string\(\)", "number": r"^z\.(coerce\.)?number\(\)", "boolean": r"^z\.(coerce\.)?boolean\(\)", "void": r"^z\.void\(\)$"}
                    r_ = render(base)
                    if prim in img:
                        if re.match(img[prim], r_):
                            r1.ok(None)
                        else:
                            r1.bad(V(r1.id, "ZodSchemaBuilder::render_primitive", "primitive:%s:%s" % (prim, r_), "primitive %s renders as %s" % (prim, r_)))
                elif c == "Custom":
                    if base[0] == "rec" or (base[0] == "call" and "visit_type" in base[1]):
                        r1.ok("Custom delegates to the Zod visitor (%s)" % render(base))
                    else:
                        r1.bad(V(r1.id, "ZodSchemaBuilder::render_type", "custom:%s" % render(base), "custom types are rendered as %s, not through the Zod visitor's schema reference" % render(base)))
        r1.samples.append("primitive images checked for string/number/boolean/void")
    # Zod visitor: custom -> {name}Schema ; also scanned for non-JSON constructors
    zres = resolver(S, "ZodVisitor")
    for conds, sv in ev.fn_paths(zres("visit_type"), None, zres):
        c = constructor_of(conds)
        for piece in leaves(sv):
            if piece[0] == "lit":
                for bad in NON_JSON:
                    if bad in piece[1]:
                        r3.bad(V(r3.id, "ZodVisitor::visit_type", "non-json:%s:%s" % (c, bad.rstrip("(")), "%s renders %s" % (c, render(sv))))
        if c == "Custom" and not any("mappings" in x and "not(" not in x for x in conds[-1:]):
            pass
    cust = [render(sv) for conds, sv in ev.fn_paths(zres("visit_type"), None, zres) if constructor_of(conds) == "Custom"]
    # every alternative that prints the type's own name (not the mapping's target) is the schema reference
    odd_c = [x for x in cust if not re.fullmatch(r"‹\w+›Schema", x) and re.search(r"‹\w+›", re.sub(r"‹\w+\[‹\w+›\]›", "", x))]
    if any(re.fullmatch(r"‹\w+›Schema", x) for x in cust) and not odd_c:
        r1.ok("ZodVisitor: unmapped custom type -> {name}Schema")
    else:
        r1.bad(V(r1.id, "ZodVisitor::visit_custom", "custom-reference:%s" % "|".join(sorted(set(cust))), "an unmapped custom type is not rendered as {name}Schema: %s" % cust))
    r3.ok("scanned %d renderings of the schema builder and the Zod visitor" % (sum(len(v) for v in (zod if sb else {}).values()) + len(cust)))
    # renderer families do not mix: the TypeScript-type renderer of Zod mode recurses only into itself, the schema renderer only into itself
    # (a schema inside a type position — Channel<[z.string()]> — or a type inside a schema is neither)
    check_renderer_families(S, ev, r1)
    # the public entries hand the structure to the renderer as they received it (no stripping of an outer Option, no pre-processing)
    for fid, f in ctx.P.fns.items():
        if not re.search(r"ZodSchemaBuilder(::<[^>]*>)?::(build_schema|build_param_schema)$", fid):
            continue
        for c in f.calls:
            if (c.best or "").endswith("::render_type") and len(c.args) > 1:
                o = f.origin(c.args[1])
                while o[0] == "proj" and all(x == "deref" for x in o[2]):
                    o = o[1]
                if o[0] == "arg":
                    r1.ok("%s passes its type structure to render_type unchanged" % fid.split("::")[-1])
                else:
                    r1.bad(V(r1.id, fid, "entry-preprocesses-structure", "%s does not pass the structure it received to render_type (%s): the schema then describes another type than the declaration"
                             % (fid.split("::")[-1], f.describe_origin(o)[:80]), c.file, c.line))
    # same keys in both modes: the two field-context builders (plain: StructContext::from_struct_info, Zod: TypeCollector::create_field_contexts)
    # turn *every* parsed field into a context: no filter/skip/take on the field iteration (what serde skips was removed by the parser, once, for both)
    DROPPERS = {"filter", "filter_map", "skip", "skip_while", "take", "take_while", "step_by", "flat_map", "nth", "last", "find", "find_map"}
    for suffix in ("StructContext::from_struct_info", "TypeCollector::create_field_contexts"):
        fs_ = [f_ for k_, f_ in ctx.P.fns.items() if re.sub(r"::<[^>]*>", "", k_).endswith(suffix)]
        if not fs_:
            r2_pending.append(V("C10-D2-names-and-keys", "<anchor>", "missing:%s" % suffix, "field-context builder not found"))
            continue
        for f_ in fs_:
            bad_ = [c for c in f_.calls if c.trait in ("std::iter::Iterator", "std::iter::DoubleEndedIterator") and c.name in DROPPERS and c.bb in f_.reach_blocks]
            if bad_:
                r2_pending.append(V("C10-D2-names-and-keys", f_.id, "field-iteration-dropped:%s" % ",".join(sorted(set(c.name for c in bad_))),
                                    "%s does not build a context for every parsed field (.%s(..)): this mode's declaration loses keys the other mode keeps" % (suffix, bad_[0].name), bad_[0].file, bad_[0].line))
            else:
                r2_ok.append("%s: one context per parsed field" % suffix)
    # every struct the plain mode declares gets a schema: generate_struct_schema has no way out that emits nothing
    struct_emitter_total(ctx.P, r2_pending, r2_ok, with_shape=True)
    # the `?` of the plain declaration agrees with the schema's .optional(): both look at the type's last path segment (rule shared with C04-D4)
    from c04 import check_optional_predicate, _P_holder
    _P_holder["P"] = ctx.P
    check_optional_predicate(S, "StructParser", r1)
    # enums
    ge = [f for f in S.fns if f.owner == "ZodBindingsGenerator" and f.name == "generate_enum_schema"]
    if not ge:
        r1.bad(V(r1.id, "<anchor>", "missing:generate_enum_schema", "anchor not found"))
    else:
        ps = ev.fn_paths(ge[0])
        txt = render(ps[0][1]) if ps else ""
        if re.match(r"^export const ‹\w+›Schema = z\.enum\(\[[^\]\n;]*\]\);\s*(\n|$)", txt):
            r1.ok("enum -> %s" % txt.strip()[:80])
        else:
            r1.bad(V(r1.id, "ZodBindingsGenerator::generate_enum_schema", "enum-shape:%s" % txt.strip()[:60], "enums are rendered as %s, not as z.enum([literals])" % txt.strip()[:80]))
    r1.require_floor(12, "constructor renderings")
    r3.require_floor(1, "renderings scanned")
    rules.append(r1)

    # ---------------------------------------------------------------- D2
    r2 = Rule("C10-D2-names-and-keys", "D2",
              "struct/enum/Params names and key holes of the Zod templates use the same context expressions as the plain templates",
              "a schema keyed by another name than the interface validates a different object than the declaration describes")
    for v_ in r2_pending:
        r2.bad(v_)
    for t_ in r2_ok:
        r2.ok(t_)
    T = Templates(S)
    def key_holes(name):
        ps = T.paths(name) or []
        out = set()
        for p in ps:
            if not consistent(p.conds):
                continue
            flat = p.flat(loop=lambda it: "".join(bp.flat() for bp in it[3][:4]))
            for m in re.finditer(r"⟦([^⟧]+)⟧\??\s*:", flat):
                out.add(re.sub(r"\|default\([^)]*\)", "", m.group(1)))
        return out
    def decl_names(name):
        ps = T.paths_in_context(name) or []
        out = set()
        for p in ps:
            if not consistent(p.conds):
                continue
            flat = p.flat(loop=lambda it: "".join(bp.flat() for bp in it[3][:4]))
            for m in re.finditer(r"export\s+(?:interface|type|const)\s+(⟦[^⟧]+⟧\w*)", flat):
                out.add(m.group(1))
        return out
    # the two generators declare the same set of types: what one removes from the used set before writing (names replaced through
    # type_mappings), the other removes too (sibling agreement on the shrinking steps of the two generate_models implementations)
    P = ctx.P
    from mirlib import short_path
    gens_ = [t for t in P.trait_impls.get("tauri_typegen::generators::base::BaseBindingsGenerator::generate_models", []) if t in P.fns]
    shrink = {}
    for gid in gens_:
        from c18 import narrowing_calls
        shrink[gid] = {"shrinks-used-set"} if any("tauri_typegen::generators::" in f_.id for (f_, _c, _k) in narrowing_calls(P, gid)) else set()
    if len(gens_) == 2:
        a_, b_ = gens_
        if shrink[a_] == shrink[b_]:
            r2.ok("both generate_models narrow the declared set alike (%s)" % (sorted(shrink[a_]) or "no narrowing"))
        else:
            lacking = a_ if not shrink[a_] else b_
            r2.bad(V(r2.id, lacking, "declared-set-narrowed-in-one-mode", "%s does not remove from the set of declared types what the other generator removes (types replaced "
                     "through type_mappings): the two modes declare different sets of names" % short_path(lacking)))
    # enum literals: the plain union type and the z.enum list print the same member of the field context (sibling agreement: template hole
    # against the Rust-side emitter)
    lit_plain = set()
    for p_ in T.paths_in_context("typescript/partials/enum.tera") or []:
        flat_ = p_.flat(loop=lambda it: "".join(bp.flat() for bp in it[3][:4]))
        for m_ in re.finditer(r"[\"']⟦([^⟧|]+)(?:\|[^⟧]*)?⟧[\"']", flat_):
            lit_plain.add(re.sub(r"([a-z0-9])([A-Z])", lambda mm: mm.group(1) + "_" + mm.group(2).lower(), m_.group(1).strip()))
    ge2 = [f for f in S.fns if f.owner == "ZodBindingsGenerator" and f.name == "generate_enum_schema"]
    if ge2 and lit_plain:
        ps2 = ev.fn_paths(ge2[0])
        lit_zod = {l[1] for l in (leaves(ps2[0][1]) if ps2 else []) if l[0] == "var" and l[1].startswith("field.")}
        if lit_zod and lit_zod != lit_plain:
            r2.bad(V(r2.id, "ZodBindingsGenerator::generate_enum_schema", "enum-literal-source:%s-vs-%s" % (",".join(sorted(lit_zod)), ",".join(sorted(lit_plain))),
                     "the z.enum literals are %s while the plain union type prints %s: the schema accepts other strings than the declared type" % (sorted(lit_zod), sorted(lit_plain))))
        elif lit_zod:
            r2.ok("enum literals: both modes print %s" % sorted(lit_zod))
    pairs = [("typescript/partials/interface.tera", "zod/partials/schema.ts.tera", "struct field keys"),
             ("typescript/partials/param_interface.ts.tera", "zod/partials/param_schemas.ts.tera", "parameter keys")]
    for a, b, what in pairs:
        ka, kb = key_holes(a), key_holes(b)
        kb2 = {k for k in kb if not k.startswith("channel.")}
        ka2 = {k for k in ka if not k.startswith("channel.")}
        if ka2 == kb2 and ka2:
            r2.ok("%s: %s in both modes" % (what, sorted(ka2)))
        else:
            r2.bad(V(r2.id, b, "keys:%s:%s≠%s" % (what, sorted(kb2), sorted(ka2)), "%s differ: plain %s, zod %s" % (what, sorted(ka2), sorted(kb2))))
    # channel keys: plain param_interface vs zod type_aliases
    ca = {k for k in key_holes("typescript/partials/param_interface.ts.tera") if k.startswith("channel.")}
    cb = {k for k in key_holes("zod/partials/type_aliases.ts.tera") if k.startswith("channel.")}
    if ca == cb and ca:
        r2.ok("channel keys: %s in both modes" % sorted(ca))
    else:
        r2.bad(V(r2.id, "zod/partials/type_aliases.ts.tera", "channel-keys:%s≠%s" % (sorted(cb), sorted(ca)), "channel keys differ: plain %s, zod %s" % (sorted(ca), sorted(cb))))
    # the Zod `XParams` type has the plain interface's keys for every (has parameters, has channels) combination: the parameter keys through
    # z.infer<typeof XParamsSchema>, the channel keys through a loop over command.channels — whichever branch structure spells the four cases
    ta_paths = T.paths("zod/partials/type_aliases.ts.tera") or []
    seen_combo = {}
    for p_ in ta_paths:
        for it in p_.items:
            if it[0] != "loop" or it[2] != "commands":
                continue
            for bp in it[3]:
                if not consistent(bp.conds):
                    continue
                cd = dict(bp.conds)
                hp, hc = cd.get("command.parameters|length > 0"), cd.get("command.channels|length > 0")
                flat = bp.flat(loop=lambda it2: "⟪loop %s⟫" % it2[2] + "".join(b2.flat() for b2 in it2[3][:1]))
                infer = "z.infer<typeof ⟦command.tsTypeName⟧ParamsSchema>" in flat
                chans = "⟪loop command.channels⟫" in flat and "⟦channel.serializedParameterName" in flat
                for P_ in ([hp] if hp is not None else [True, False]):
                    for C_ in ([hc] if hc is not None else [True, False]):
                        seen_combo.setdefault((P_, C_), []).append((infer, chans, bool(flat.strip())))
    for combo in [(True, True), (True, False), (False, True), (False, False)]:
        alts = seen_combo.get(combo, [])
        want = (combo[0], combo[1])
        got = sorted(set((a[0], a[1]) for a in alts if a[2])) or [(False, False)]
        if got == [want]:
            r2.ok("zod XParams for parameters=%s channels=%s: z.infer=%s, channel keys=%s" % (combo[0], combo[1], want[0], want[1]))
        else:
            r2.bad(V(r2.id, "zod/partials/type_aliases.ts.tera", "params-type-keys:%s%s:%s" % ("p" if combo[0] else "-", "c" if combo[1] else "-", got),
                     "for a command with parameters=%s and channels=%s the Zod `XParams` type is built with (z.infer, channel loop) = %s; the plain interface has the parameter keys iff parameters and the channel keys iff channels"
                     % (combo[0], combo[1], got)))
    na = decl_names("typescript/partials/interface.tera") | decl_names("typescript/partials/enum.tera")
    nb = decl_names("zod/partials/schema.ts.tera")
    # plain mode declares inside `for struct in structs` (the partial sees `struct.name`, directly or through a `set`); the Zod partial is rendered from
    # Rust once per struct with the key `name`
    if "⟦struct.name⟧" in na and {"⟦name⟧Schema", "⟦name⟧"} <= nb:
        r2.ok("struct names: interface ⟦name⟧ ↔ const ⟦name⟧Schema + type ⟦name⟧")
    else:
        r2.bad(V(r2.id, "zod/partials/schema.ts.tera", "struct-names:%s" % sorted(nb), "struct declarations differ: plain %s, zod %s" % (sorted(na), sorted(nb))))
    pa = decl_names("typescript/partials/param_interface.ts.tera")
    pb = decl_names("zod/partials/param_schemas.ts.tera") | decl_names("zod/partials/type_aliases.ts.tera")
    if pa == {"⟦command.tsTypeName⟧Params"} and {"⟦command.tsTypeName⟧ParamsSchema", "⟦command.tsTypeName⟧Params"} <= pb:
        r2.ok("parameter objects: ⟦command.tsTypeName⟧Params in both modes (+ParamsSchema)")
    else:
        r2.bad(V(r2.id, "zod/partials/param_schemas.ts.tera", "param-names:%s" % sorted(pb), "parameter object names differ: plain %s, zod %s" % (sorted(pa), sorted(pb))))
    # the two modes declare the same set of names: both generate_models close the declared set the same way (rule shared with C07-D3)
    from c07 import check_closure_before_insert
    sub = Rule(r2.id, "D2", "", "")
    check_closure_before_insert(ctx.P, sub)
    r2.instances += sub.instances
    r2.discharged += sub.discharged
    for v in sub.violations:
        v.rule = r2.id
        v.msg = "the declared set of this mode differs from the other mode's: " + v.msg
        r2.violations.append(v)
    r2.require_floor(7, "name/key comparisons and declared-set facts")
    rules.append(r2)
    rules.append(r3)

    return finish(
        PROP, ctx, rules,
        "String-shape extraction (SV) of ZodSchemaBuilder::render_type and of the plain visitor, compared constructor by constructor over the "
        "same recursive holes; literal scan for non-JSON Zod constructors; key/name hole comparison between the template families.",
        ["behaviour of z.coerce.* and of z.record with numeric key schemas inside Zod itself",
         "Result<T,E> fields render as a union with an error object (a superset of the plain shape; Result never occurs in parameters)",
         "note: ZodVisitor renders Optional as .nullable() and Set as z.array, but those arms are shadowed by the schema builder for fields and parameters"],
        ["both renderers are compositional: constructor-wise agreement implies agreement at every nesting depth"])

"""C04 — the object passed to invoke has exactly the keys Tauri deserialises.

  D1  TABLE    the injected-parameter filter accepts every documented spelling of AppHandle, State<..>, Window<..>, WebviewWindow,
               tauri::ipc::Request (bare / tauri::-qualified / with generics), and nothing that is not a Tauri type name
  D2  SIBLING/CTRL  channel recognition and the filter agree on Channel<T> and tauri::ipc::Channel<T>; every Channel parameter is
               extracted (no extra guard)
  D3  TABLE/SV/TPATH  default parameter case is camelCase; rename ▷ command rename_all ▷ default; key holes are bound to the
               serialized names in both modes
  D4  TABLE/TPATH  a key is optional iff the Rust parameter's last path segment is Option: `?` / `.optional()` under exactly isOptional
  D5  TPATH    both modes hand the same key set to invoke for each of the four parameter/channel combinations
"""
import re

from common import Rule, V, finish
from mirlib import ENTRY_POINTS, short_path
from srclib import walk, walk_block, lit_str, expr_text, stmt_exprs
from svlib import SVEval, render
from tplpaths import Templates, consistent

PROP = "C04"

REQUIRED = {  # context -> names the statement lists
    "tauri::X": {"AppHandle", "State", "Window", "WebviewWindow"},
    "tauri::ipc::X": {"Request", "Channel"},
    "bare": {"AppHandle", "WebviewWindow"},
    "bare+generics": {"State", "Window", "Channel"},
}
TAURI_NAMES = {"AppHandle", "State", "Window", "WebviewWindow", "Request", "Channel", "Manager", "Webview", "Runtime"}


def collect_comparisons(stmts, ctx, out):
    """walk statements; record (enclosing condition texts, compared variable text, literal)"""
    for st in stmts:
        for e in stmt_exprs(st):
            collect_expr(e, ctx, out)


def collect_expr(e, ctx, out):
    k = e.get("k")
    if k == "if":
        ct = expr_text(e["cond"]) if e["cond"].get("k") != "letcond" else "let %s = %s" % ("", expr_text(e["cond"]["expr"]))
        # comparisons inside the condition itself carry the other conjuncts of that condition as context
        names_here = []
        for x in walk(e["cond"]):
            if x.get("k") == "binary" and x["op"] == "==":
                record(x, ctx + [ct], out)
                for side in (x["l"], x["r"]):
                    if lit_str(side) in TAURI_NAMES:
                        names_here.append(lit_str(side))
        if names_here:
            # a branch that tests for an injected type name must accept outright: `return true` (any further condition belongs in the test itself,
            # where classify_context sees it)
            body = e["then"]
            def is_true(x):
                return x is not None and x.get("k") == "lit" and x["lit"]["t"] == "bool" and x["lit"]["v"] is True
            plain = (len(body) == 1 and body[0].get("k") == "expr"
                     and (is_true(body[0]["e"]) or (body[0]["e"].get("k") == "return" and is_true(body[0]["e"].get("expr")))))
            if not plain:
                out.append((ctx + [ct, "conditional-accept"], "body", "|".join(sorted(set(names_here))) + ":" + " ".join(expr_text(x) for st in body for x in stmt_exprs(st))[:80]))
        collect_comparisons(e["then"], ctx + [ct], out)
        if e.get("else") is not None:
            collect_expr(e["else"], ctx, out)
        return
    if k == "block":
        collect_comparisons(e["stmts"], ctx, out)
        return
    if k == "return" and e.get("expr") is not None:
        for x in walk(e["expr"]):
            if x.get("k") == "binary" and x["op"] == "==":
                record(x, ctx, out)
        return
    if k == "binary" and e["op"] == "==":
        record(e, ctx, out)
        return
    for c in __import__("srclib").children(e):
        collect_expr(c, ctx, out)


def record(x, ctx, out):
    for a, b in ((x["l"], x["r"]), (x["r"], x["l"])):
        s = lit_str(b)
        if s is not None:
            out.append((list(ctx), expr_text(a), s))


def classify_context(ctx, fn_lets):
    """bare / bare+generics / tauri::X / tauri::ipc::X from the enclosing conditions"""
    t = " && ".join(ctx)
    if "conditional-accept" in ctx:
        return "other:conditional-accept"
    if re.search(r"segments\.len\(\) == 3", t) and '"ipc"' in t:
        return "tauri::ipc::X"
    if re.search(r"segments\.len\(\) == 2", t) and re.search(r'segments\[0\]\.ident == "tauri"', t):
        return "tauri::X"
    if "segments.last()" in t or "last_segment" in t:
        if re.search(r"arguments", t):
            return "bare+generics"
        return "bare"
    return "other:" + t[:60]


def check_optional_predicate(S, owner, rule):
    """<owner>::is_optional_type tests the last path segment against "Option" (so `std::option::Option<T>` counts, `OptionalThing` does not); shared by
    C04-D4 (CommandParser) and C10-D1 (StructParser: the `?` of the plain declaration must agree with the schema, which looks at the parsed structure)"""
    iot = S.fn(owner, "is_optional_type")
    if iot is None:
        rule.bad(V(rule.id, "<anchor>", "missing:%s::is_optional_type" % owner, "anchor not found"))
        return
    # decided on the type-checked body (a shared helper the two parsers delegate to is spliced in): every accepting path tests the *last* path
    # segment's identifier against "Option" and nothing else; no text test on the rendered type
    from predtable import accept_paths, positive
    import common as _c
    P = _P_holder.get("P")
    mf = P.find("%s::is_optional_type" % owner) if P is not None else []
    texty = [e for e in walk_block(iot.body) if e.get("k") == "mcall" and e["method"] in ("starts_with", "contains", "ends_with", "find")]
    aps = accept_paths(P, mf[0], "true") if mf else None
    okp = bool(aps)
    seen = set()
    for a_ in aps or []:
        segs = {k_: positive(v_) for k_, v_ in a_["seg"].items()}
        lastk = [k_ for k_ in segs if k_ == "last" or (isinstance(k_, str) and k_.startswith("param:"))]
        seen |= {v_ for v_ in segs.values() if v_}
        if a_["other"] or a_["opaque_value"] or not lastk or segs[lastk[0]] != "Option" or [k_ for k_ in a_.get("kind", []) if not (k_[1] == "Path")]:
            okp = False
    if okp and seen == {"Option"} and not texty:
        rule.ok("%s::is_optional_type: last segment == \"Option\"" % owner)
    else:
        rule.bad(V(rule.id, "%s::is_optional_type" % owner, "predicate:%s" % sorted(seen | {"%s(..)" % e["method"] for e in texty}),
                   "optionality is decided by %s%s, not by the last path segment being `Option`" % (sorted(seen), " and text tests %s" % [expr_text(e)[:40] for e in texty] if texty else "")))


_P_holder = {}


def check_naming_adds_no_literal(S, rule):
    """a key / name is the serde rule applied to the Rust name and nothing else: apply_naming_convention appends/prepends no literal text
    (guards for TypeScript identifiers belong to the function/type-name computations, not to the shared helper); shared by C04-D3 and C06-D1"""
    anc = S.fn("NamingContext", "apply_naming_convention")
    if anc is None:
        rule.bad(V(rule.id, "<anchor>", "missing:apply_naming_convention", "anchor not found"))
        return
    lits = []
    for e in walk_block(anc.body):
        if e.get("k") == "mcall" and e["method"] in ("push", "push_str", "insert", "insert_str") and e["args"]:
            a_ = e["args"][-1]
            if a_.get("k") == "lit" and a_["lit"]["t"] in ("str", "char"):
                lits.append("%s(%r)" % (e["method"], a_["lit"]["v"]))
        if e.get("k") == "macro" and e["name"] == "format" and e.get("args") and lit_str(e["args"][0]) is not None:
            fr = re.sub(r"\{[^{}]*\}", "", lit_str(e["args"][0]))
            if fr:
                lits.append("format!(%r)" % lit_str(e["args"][0]))
    # ... and the words of the name are found by serde's rule (RenameRule::*.apply_to_field / apply_to_variant), not by a splitter written here: a
    # hand-written split on '_' with per-word capitalisation disagrees with serde on leading / doubled underscores (`_window_label`)
    hand = sorted({e["method"] for e in walk_block(anc.body) if e.get("k") == "mcall" and e["method"] in ("split", "split_terminator", "to_ascii_uppercase", "to_uppercase", "split_inclusive", "char_indices")})
    lib = any(e.get("k") == "mcall" and e["method"] in ("apply_to_field", "apply_to_variant") for e in walk_block(anc.body))
    if hand or not lib:
        rule.bad(V(rule.id, "NamingContext::apply_naming_convention", "hand-written-case-conversion:%s" % (",".join(hand) or "no-serde-rule"),
                   "apply_naming_convention converts names with its own %s instead of serde's rename rule: keys differ from what Tauri/serde compute for names with "
                   "leading or repeated underscores" % (", ".join(hand) or "code")))
    else:
        rule.ok("apply_naming_convention: word splitting and casing by serde's rename rule")
    if lits:
        rule.bad(V(rule.id, "NamingContext::apply_naming_convention", "naming-adds-literal:%s" % ",".join(sorted(lits)),
                   "apply_naming_convention adds literal text (%s) to the converted name: every key and name built from it changes, not only the one it was meant for" % ", ".join(sorted(lits))))
    else:
        rule.ok("apply_naming_convention returns the rule's result unmodified")


def check(ctx):
    P = ctx.P
    S = ctx.S
    _P_holder["P"] = P
    ev = SVEval(S)
    T = Templates(S)
    rules = []

    # ---------------------------------------------------------------- D1
    r1 = Rule("C04-D1-injected-filter", "D1",
              "is_tauri_parameter_type compares path segments with literal Tauri type names; for each documented spelling class (tauri::X, tauri::ipc::X, "
              "bare, bare with generic arguments) the documented names are accepted and every accepted name is a Tauri type name",
              "a missing name turns an injected parameter into a key the frontend must supply; an extra name hides a user parameter")
    fn = S.fn("CommandParser", "is_tauri_parameter_type")
    table = {}
    if fn is None:
        r1.bad(V(r1.id, "<anchor>", "missing:is_tauri_parameter_type", "anchor not found"))
    else:
        # the acceptance table is read from the type-checked body: every accepting path contributes (spelling class, accepted name), however
        # the comparisons are written (== chains, matches!, a match on the identifier text, let-else, a helper)
        from predtable import accept_paths, classify
        mf = P.find("CommandParser::is_tauri_parameter_type")
        aps = accept_paths(P, mf[0], "true") if mf else None
        if aps is None:
            r1.bad(V(r1.id, "CommandParser::is_tauri_parameter_type", "unclassified-context:too-many-paths", "the predicate is not a small decision list any more"))
            aps = []
        # the path enumeration reads the branches of this body; a narrowing combinator hides a branch inside a closure it does not enter
        # (seed C04/n: `segments.last().filter(|_| segments.len() == 1)` silently restricted the bare names to one-segment paths, so
        # tauri::webview::WebviewWindow became a key) — fail closed on Option::filter / take_if / and_then / then / then_some in the predicate
        if mf:
            hidden = sorted({short_path(c.best) for c in mf[0].calls
                             if re.search(r"(?:^|::)Option::<[^>]*>::(filter|take_if|and_then|is_some_and|is_none_or|xor|zip)$|(?:^|::)bool::(then|then_some)$", re.sub(r"<.*?>", "<T>", c.best or ""))})
            if hidden:
                r1.bad(V(r1.id, "CommandParser::is_tauri_parameter_type", "hidden-narrowing:%s" % ",".join(hidden),
                         "the predicate narrows a tested value through %s: the closure's condition decides which spellings are accepted and is not part of the decision list the table is read from" % ", ".join(hidden)))
            else:
                r1.ok("no narrowing combinator between the path's segments and the name tests")
        for a_ in aps:
            klass, name_ = classify(a_, generic_arg_tests=False)     # State<'_, T>: which kind of argument comes first says nothing about the name
            if name_ in ("tauri", "ipc"):
                continue
            table.setdefault(klass, set())
            if name_ is not None:
                table[klass].add(name_)
        for klass, need in REQUIRED.items():
            have = table.get(klass, set())
            # bare names accepted unconditionally are also accepted with generics
            if klass == "bare+generics":
                have = have | table.get("bare", set())
            miss = need - have
            if miss:
                r1.bad(V(r1.id, "CommandParser::is_tauri_parameter_type", "missing:%s:%s" % (klass, ",".join(sorted(miss))),
                         "spelling class %s does not accept %s (accepted: %s)" % (klass, sorted(miss), sorted(have))))
            else:
                r1.ok("%s accepts %s" % (klass, sorted(have)))
        for klass, have in sorted(table.items()):
            extra = have - TAURI_NAMES
            if klass.startswith("other:"):
                r1.bad(V(r1.id, "CommandParser::is_tauri_parameter_type", "unclassified-context:%s:%s" % (klass[6:], ",".join(sorted(have))),
                         "names %s are compared in a context the rule does not understand (%s)" % (sorted(have), klass)))
            elif extra:
                r1.bad(V(r1.id, "CommandParser::is_tauri_parameter_type", "non-tauri-name:%s:%s" % (klass, ",".join(sorted(extra))),
                         "the filter also drops parameters of type %s, which is not a Tauri-injected type" % sorted(extra)))
        # the filter decides in extract_parameters: return None exactly under is_tauri_parameter_type
        ep = [f for k, f in P.fns.items() if k.startswith("tauri_typegen::analysis::command_parser::CommandParser::extract_parameters::{closure")]
        for f in ep:
            cs = [c for c in f.calls if short_path(c.best) == "CommandParser::is_tauri_parameter_type"]
            if len(cs) == 1:
                extra = []
                agg = [b for b in sorted(f.reach_blocks) for st in f.blocks[b]["stmts"] if st.get("rv", {}).get("k") == "aggr" and st["rv"].get("adt", "").endswith("ParameterInfo")]
                for b in agg[:1]:
                    conds = f.must_conditions(b)
                    allowed = [c for c in conds if re.search(r"is_tauri_parameter_type\(\)=false|=Typed$|=Ident$|\.deref=Typed|Pat.*=Ident|as:Typed|deref.*=Ident", c)]
                    rest = [c for c in conds if c not in allowed]
                    if any("is_tauri_parameter_type()=false" in c for c in conds) and not rest:
                        r1.ok("a ParameterInfo is built under exactly {typed argument, identifier pattern, not injected}")
                    else:
                        r1.bad(V(r1.id, f.id, "parameter-guards:%s" % ",".join(sorted(rest)), "a parameter becomes a key under %s" % conds))
                    for (bb, keep, lose) in f.filter_branches(0, b):
                        o, _ = f.cond_struct(bb, keep[0])
                        t = f.describe_origin(o, deep=1)
                        if (o[0] == "call" and short_path(o[1].best) == "CommandParser::is_tauri_parameter_type") or o[0] in ("proj", "arg", "multi"):
                            continue
                        extra.append(short_path(o[1].best) if o[0] == "call" else (o[1] if o[0] == "bin" else o[0]))
                if extra:
                    r1.bad(V(r1.id, f.id, "parameter-filters:%s" % ",".join(sorted(extra)), "further branches (%s) can drop a value parameter" % extra))
    r1.require_floor(4, "spelling classes")
    rules.append(r1)

    # ---------------------------------------------------------------- D2
    r2 = Rule("C04-D2-channels", "D2",
              "Channel<T> and tauri::ipc::Channel<T> are recognised by the channel extractor and filtered from the value parameters; every typed "
              "identifier parameter whose type is a channel is pushed (no other guard)",
              "a channel that is both a value key and a channel key (or neither) gives invoke the wrong key set")
    # the channel extractor's own predicate, read from the type-checked body: is_channel_segment where it exists as a function, otherwise the
    # accepting (Some-returning) paths of extract_channel_message_type with whatever was folded into it
    from predtable import accept_paths, len_range, positive
    cands = [(f_, "true") for f_ in P.find("ChannelParser::is_channel_segment") if f_.id.endswith("is_channel_segment")] or [(f_, "some") for f_ in P.find("ChannelParser::extract_channel_message_type")]
    if not cands:
        r2.bad(V(r2.id, "<anchor>", "missing:is_channel_segment", "anchor not found"))
    for (cf, mode) in cands[:1]:
        aps = accept_paths(P, cf, mode) or []
        aps = [a_ for a_ in aps if not a_.get("opaque_value")]
        named = []
        bare_ok = tauri_ok = False
        for a_ in aps:
            segs = {k_: positive(v_) for k_, v_ in a_["seg"].items()}
            is_channel = any(v_ == "Channel" for k_, v_ in segs.items() if k_ == "last" or (isinstance(k_, str) and k_.startswith("param:")) or isinstance(k_, int))
            named.append(is_channel)
            lo, hi = len_range(a_["len"])
            if is_channel and (lo, hi) == (1, 1):
                bare_ok = True
            # (`len >= 2`, or — a first segment exists and — `len != 1`)
            if is_channel and (lo >= 2 or ("Ne", 1) in a_["len"]) and any(v_ == "tauri" for k_, v_ in segs.items() if k_ in (0, "first")):
                tauri_ok = True
        name_ok = bool(named) and all(named)
        if name_ok:
            r2.ok("channel extractor keys on the segment name Channel")
        else:
            r2.bad(V(r2.id, short_path(cf.id), "name-test", "the channel extractor does not test for the name Channel"))
        if bare_ok and tauri_ok:
            r2.ok("channel extractor accepts bare Channel and tauri::..::Channel")
        else:
            r2.bad(V(r2.id, short_path(cf.id), "spellings:bare=%s,tauri=%s" % (bare_ok, tauri_ok), "channel extractor spellings: bare=%s tauri-qualified=%s" % (bare_ok, tauri_ok)))
    if "Channel" in table.get("tauri::ipc::X", set()) and "Channel" in table.get("bare+generics", set()):
        r2.ok("the value-parameter filter drops Channel<T> and tauri::ipc::Channel<T>")
    else:
        r2.bad(V(r2.id, "CommandParser::is_tauri_parameter_type", "channel-not-filtered", "Channel parameters are not removed from the value parameters: they would appear twice"))
    # the extractor is applied to every discovered command: in each caller, the call sits in the loop over the commands under no other guard than
    # "the function was found again in the AST"
    reach = P.reachable(ENTRY_POINTS)
    callers = [(fid, f, c) for fid, f in P.fns.items() if fid in reach for c in f.calls
               if short_path(c.best) == "ChannelParser::extract_channels_from_command" and c.bb in f.reach_blocks]
    for fid, f, c in callers:
        extra = []
        for (bb, keep, lose) in f.filters_in_iteration(c.bb):
            o, _ = f.cond_struct(bb, keep[0])
            if o[0] == "call" and (o[1].name in ("next", "branch") or short_path(o[1].best) in ("CommandAnalyzer::find_function_in_ast",)):
                continue
            if o[0] in ("proj", "arg", "multi"):
                continue
            extra.append(short_path(o[1].best) if o[0] == "call" else (o[1] if o[0] == "bin" else o[0]))
        if extra:
            r2.bad(V(r2.id, fid, "channel-attach-filters:%s" % ",".join(sorted(extra)), "channels are not extracted for every command: branches on %s skip some (a command whose only frontend parameters are channels loses them)" % extra, c.file, c.line))
        else:
            r2.ok("%s: channels extracted for every command found in the file" % short_path(fid))
    if not callers:
        r2.bad(V(r2.id, "<anchor>", "missing:extract_channels_from_command-callers", "nobody calls the channel extractor"))
    ec = P.find("ChannelParser::extract_channels_from_command")
    for f in ec:
        pushes = [c for c in f.calls if short_path(c.path) == "Vec::push"]
        for c in pushes:
            extra = []
            for (bb, keep, lose) in f.filters_in_iteration(c.bb):
                o, _ = f.cond_struct(bb, keep[0])
                t = f.describe_origin(o, deep=1)
                if o[0] == "call" and (o[1].name == "next" or short_path(o[1].best) == "ChannelParser::extract_channel_message_type"):
                    continue
                if o[0] in ("proj", "arg", "multi"):
                    continue  # discriminant of the iterated argument / its pattern; bool temporaries
                extra.append(short_path(o[1].best) if o[0] == "call" else (o[1] if o[0] == "bin" else o[0]))
            if extra:
                r2.bad(V(r2.id, f.id, "channel-filters:%s" % ",".join(sorted(extra)), "branches on %s can drop a channel parameter" % extra, c.file, c.line))
            else:
                r2.ok("every channel-typed identifier parameter is pushed")
            # ... and the loop over the parameters is not left before the last one (a `break` on a receiver / destructured parameter loses every
            # channel declared after it)
            from rulelib import loop_exits
            drv, exits = loop_exits(f, c.bb)
            for (b_, to_, cond_, kind_) in exits:
                r2.bad(V(r2.id, f.id, "parameter-loop-left-early:%s" % kind_, "the loop over the command's parameters is left by `%s` under `%s`: channel "
                         "parameters declared after that point are not extracted" % (kind_, cond_), c.file, c.line))
            if drv is not None and not exits:
                r2.ok("the parameter loop of the channel extractor runs over all inputs")
    r2.require_floor(4, "channel facts")
    rules.append(r2)

    # ---------------------------------------------------------------- D3
    r3 = Rule("C04-D3-key-naming", "D3",
              "default_parameter_case() == \"camelCase\"; compute_parameter_name = rename ▷ command rename_all ▷ default; every key hole of the "
              "parameter objects is param.serializedName / channel.serializedParameterName in both modes",
              "Tauri's command macro expects camelCase keys by default: a snake_case key is silently ignored by the backend")
    dpc = S.fn(None, "default_parameter_case")
    val = render(ev.fn_paths(dpc)[0][1]) if dpc is not None and ev.fn_paths(dpc) else "?"
    if val == "camelCase":
        r3.ok("default_parameter_case() == \"camelCase\"")
    else:
        r3.bad(V(r3.id, "default_parameter_case", "default:%s" % val, "the default parameter case is %s" % val))
    cpn = S.fn("NamingContext", "compute_parameter_name")
    if cpn is None:
        r3.bad(V(r3.id, "<anchor>", "missing:compute_parameter_name", "anchor not found"))
    else:
        paths = ev.fn_paths(cpn, None, lambda n: None)
        from svlib import select_path
        from srclib import pat_bindings as _pb
        prm = [b_ for p_ in cpn.sig["params"] if not p_.get("self") for b_ in _pb(p_["pat"])]
        okp = len(prm) >= 3
        if okp:
            tb = {(rn, al): select_path(paths, {prm[1]: rn, prm[2]: al}) for rn in ("Some", "None") for al in ("Some", "None")}
            okp = all(tb[k_] is not None for k_ in tb) \
                and all(tb[("Some", al)][1][0] in ("var", "maphit") for al in ("Some", "None")) \
                and all(tb[("None", al)][1][0] == "call" and tb[("None", al)][1][1] == "apply_naming_convention" for al in ("Some", "None")) \
                and tb[("None", "Some")][1] != tb[("None", "None")][1]
        if okp:
            r3.ok("rename ▷ rename_all ▷ default")
        else:
            r3.bad(V(r3.id, "NamingContext::compute_parameter_name", "order", "alternatives are not rename ▷ rename_all ▷ default: %s" % [(c, render(v)) for c, v in paths]))
        # the default branch reads default_parameter_case
        if paths and "default_parameter_case" in " ".join(expr_text(e) for e in walk_block(cpn.body) if e.get("k") == "field"):
            r3.ok("the default branch reads config.default_parameter_case")
        else:
            r3.bad(V(r3.id, "NamingContext::compute_parameter_name", "default-source", "the default branch does not read default_parameter_case"))
    def keyholes(name):
        out = set()
        for p in T.paths(name) or []:
            if not consistent(p.conds):
                continue
            flat = p.flat(loop=lambda it: "".join(bp.flat() for bp in it[3][:4]))
            for m in re.finditer(r"⟦((?:param|channel)\.[^⟧|]+)(?:\|[^⟧]*)?⟧\??\s*:", flat):
                out.add(m.group(1))
        return out
    for name in ("typescript/partials/param_interface.ts.tera", "zod/partials/param_schemas.ts.tera", "zod/partials/type_aliases.ts.tera", "zod/partials/command_function.ts.tera"):
        ks = keyholes(name)
        bad = {k for k in ks if k not in ("param.serializedName", "channel.serializedParameterName")}
        if ks and not bad:
            r3.ok("%s: key holes %s" % (name, sorted(ks)))
        elif bad:
            r3.bad(V(r3.id, name, "key-binding:%s" % ",".join(sorted(bad)), "parameter keys are bound to %s" % sorted(bad)))
    # a key is the serde rule applied to the Rust name and nothing else: apply_naming_convention appends/prepends no literal text
    check_naming_adds_no_literal(S, r3)
    # the configured default is camelCase whichever way the configuration is obtained (no file / file without the key): rule shared with C19-D3
    from c19 import check_default_sources
    vals = check_default_sources(S, r3, only={"default_parameter_case"})
    for v_ in r3.violations:
        v_.rule = r3.id
    if vals.get("default_parameter_case") == "camelCase":
        r3.ok("default_parameter_case defaults to camelCase (Tauri's convention)")
    else:
        r3.bad(V(r3.id, "GenerateConfig", "parameter-case-default:%s" % vals.get("default_parameter_case"), "default_parameter_case defaults to %r, Tauri's command macro uses camelCase" % vals.get("default_parameter_case")))
    r3.require_floor(8, "naming facts")
    rules.append(r3)

    # ---------------------------------------------------------------- D4
    r4 = Rule("C04-D4-optional-iff-option", "D4",
              "is_optional_type tests the last path segment against \"Option\"; the `?` marker (plain) and `.optional()` (Zod) of a parameter key are "
              "guarded by exactly param.isOptional",
              "a required key marked optional (or vice versa) lets callers omit what Rust needs / forces what Rust does not")
    check_optional_predicate(S, "CommandParser", r4)
    for name, marker in (("typescript/partials/param_interface.ts.tera", "?"), ("zod/partials/param_schemas.ts.tera", ".optional()")):
        ast = T.ast_of(name)
        found = []
        from srclib import tera_walk
        from tplpaths import expr_text as tx
        for n in tera_walk(ast or []):
            if n.get("k") == "if":
                for c in n["conds"]:
                    body_txt = "".join(x.get("v", "") for x in c["body"] if x.get("k") == "text")
                    if body_txt.strip() == marker:
                        found.append(tx(c["cond"]))
        if found == ["param.isOptional"]:
            r4.ok("%s: `%s` under exactly param.isOptional" % (name, marker))
        else:
            r4.bad(V(r4.id, name, "optional-marker-guard:%s" % ",".join(found), "the optional marker `%s` is guarded by %s" % (marker, found)))
        # unconditional markers
        for p in T.paths(name) or []:
            flat = p.flat(loop=lambda it: "".join(bp.flat() for bp in it[3][:1]))
    r4.require_floor(3, "optionality facts")
    rules.append(r4)

    # ---------------------------------------------------------------- D5
    r5 = Rule("C04-D5-same-keys-both-modes", "D5",
              "per (has parameters, has channels) combination: plain passes `params` (or nothing); Zod passes result.data / { ...result.data, k: params.k.. } "
              "with one pair per channel and the same hole on both sides / params / nothing",
              "dropping the channel merge (or validating channels) delivers a different key set in Zod mode")
    want_zod = {
        (True, True): r"^\{ \.\.\.result\.data, (?:⟦channel\.serializedParameterName(?:\|property_key)?⟧: params(?:\.⟦channel\.serializedParameterName⟧|⟦channel\.serializedParameterName\|property_access⟧)(?:, )?)+\s*\}$",
        (True, False): r"^result\.data$",
        (False, True): r"^params$",
        (False, False): r"^$",
    }
    want_ts = {(True, True): "params", (True, False): "params", (False, True): "params", (False, False): ""}
    for mode, name in (("zod", "zod/partials/command_function.ts.tera"), ("typescript", "typescript/partials/command_function.ts.tera")):
        seen = set()
        for p in T.paths(name) or []:
            if not consistent(p.conds):
                continue
            cd = dict(p.conds)
            hp = cd.get("command.parameters|length > 0")
            hc = cd.get("command.channels|length > 0")
            either = False if (hp is False and hc is False) else None
            if either is False:
                combos = [(False, False)]
            elif mode == "typescript":
                combos = [(True, True), (True, False), (False, True)]
            elif hp is True:
                combos = [(True, bool(hc))]
            else:
                combos = [(False, True)]
            flat = p.flat(loop=lambda it: "".join(bp.flat() for bp in it[3][:1]))
            m = re.search(r"\binvoke(?:<[^(]*>)?\(\s*'⟦command\.name⟧'\s*(?:,\s*(.*?))?\);", flat, re.S)
            arg = (m.group(1) or "").strip() if m else None
            for combo in combos:
                seen.add(combo)
                if arg is None:
                    r5.bad(V(r5.id, name, "no-invoke:%s" % (combo,), "no invoke call on the path %s" % p.cond_text()))
                    continue
                if mode == "zod":
                    okk = re.match(want_zod[combo], arg) is not None
                else:
                    okk = arg == want_ts[combo]
                if okk:
                    r5.ok("%s params=%s channels=%s → invoke(.., %s)" % (mode, combo[0], combo[1], arg or "∅"))
                else:
                    r5.bad(V(r5.id, name, "invoke-argument:%s:%s" % ("p" if combo[0] else "-") + ("c" if combo[1] else "-") + ":" + arg[:70] if False else "invoke-argument:%s%s:%s" % ("p" if combo[0] else "-", "c" if combo[1] else "-", arg[:70]),
                             "%s mode, parameters=%s channels=%s: invoke receives `%s`" % (mode, combo[0], combo[1], arg)))
        for combo in want_zod:
            if combo not in seen:
                r5.bad(V(r5.id, name, "missing-combination:%s%s" % ("p" if combo[0] else "-", "c" if combo[1] else "-"), "no template path for parameters=%s channels=%s" % combo))
    # schema keys are exactly the parameter loop
    ps = T.paths("zod/partials/param_schemas.ts.tera") or []
    okl = False
    for p in ps:
        for it in p.items:
            if it[0] == "loop" and it[2] == "commands":
                for bp in it[3]:
                    inner = [x for x in bp.items if x[0] == "loop"]
                    if any(x[2] == "command.parameters" for x in inner) and not any(x[2] == "command.channels" for x in inner):
                        okl = True
    if okl:
        r5.ok("ParamsSchema keys = loop over command.parameters (channels are not validated)")
    else:
        r5.bad(V(r5.id, "zod/partials/param_schemas.ts.tera", "schema-keys", "the parameter schema is not exactly one key per value parameter"))
    r5.require_floor(8, "mode/combination pairs")
    rules.append(r5)

    return finish(
        PROP, ctx, rules,
        "Literal tables of the injected-type filter per spelling class, divert-branch enumeration around ParameterInfo/ChannelInfo construction, "
        "naming order (SV), key-hole bindings and per-combination invoke arguments from the template control paths.",
        ["that serde-style camelCase equals Tauri's (heck) conversion for every identifier (equivalence of two algorithms)",
         "bare `Window` / `State` without generic arguments are deliberately not filtered (pinned by unit tests; the statement lists Window<..>/State<..>)",
         "bare `Request<'_>` imported from tauri::ipc is not in the statement's list"],
        ["the statement's list of injected types and spellings is the oracle"])

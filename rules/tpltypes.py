"""tpltypes — typing of Tera variable paths against the Rust values inserted into the render context (TPLTYPE).

For every `x.render("template", &context)` call the keys inserted into that context (block scoped, syntactic) and the Rust
type of each inserted value (generic argument of tera::Context::insert in MIR) are collected; loop variables are typed by
the element type of the container they iterate, `set` variables by the path they alias.  Includes see the including scope.
"""
import re

from mirlib import short_path
from rulelib import strip_generics
from srclib import children, expr_text, lit_str, stmt_exprs


def walk_shallow(e):
    """walk an expression without descending into nested block expressions (they are separate scopes)"""
    stack = [e]
    first = True
    while stack:
        x = stack.pop()
        if not isinstance(x, dict):
            continue
        yield x
        if x.get("k") == "block" and not first:
            continue
        first = False
        if x.get("k") == "block":
            continue
        stack.extend(children(x))


class KeyVal(str):
    """value expression text of an inserted key, with the expression AST attached"""
    ast = None
    fn = None


ctxvars = {"context"}   # variables initialised from tera::Context::new() (collected while walking); the conventional name is the seed


def _nested_stmt_lists(x):
    """statement lists that are scopes of their own inside an expression node: block bodies, the branches of an `if`, loop bodies"""
    k = x.get("k")
    out = []
    if k == "block":
        out.append(x["stmts"])
    if k == "if":
        out.append(x["then"])
        if isinstance(x.get("else"), list):
            out.append(x["else"])
    if k in ("for", "while", "loop") and isinstance(x.get("body"), list):
        out.append(x["body"])
    return out


def _ordered(e):
    """sub-expressions in source order, not descending into nested statement lists (yielded as ("stmts", list) instead)"""
    if not isinstance(e, dict):
        return
    nested = _nested_stmt_lists(e)
    if nested:
        for key in ("cond", "iter", "expr"):
            if isinstance(e.get(key), dict):
                yield from _ordered(e[key])
        for lst in nested:
            yield ("stmts", lst)
        if e.get("k") == "if" and isinstance(e.get("else"), dict):
            yield from _ordered(e["else"])
        return
    # receiver and arguments are evaluated before the call itself
    for c in children(e):
        yield from _ordered(c)
    yield e


def collect_renders(fn, stmts, inherited, out):
    """(fn, template name, {key: value expression text (KeyVal)}) for each render call, in source order; a nested scope (block, branch, loop body)
    starts from the keys inserted so far and keeps its own insertions to itself"""
    keys = dict(inherited)
    for st in stmts:
        if st.get("k") == "let" and st.get("init") is not None and re.search(r"(^|::)Context::(new|default)\(", expr_text(st["init"])):
            from srclib import pat_bindings as _pb
            ctxvars.update(_pb(st["pat"]))
            keys = {}
        elif st.get("k") == "let" and st.get("init") is not None and st["init"].get("k") in ("call", "mcall"):
            # `let mut context = self.context_with_header();`: a new private helper that returns a Context it already filled
            import srclib as _sl
            from srclib import pat_bindings as _pb
            i_ = st["init"]
            nm_ = i_["method"] if i_["k"] == "mcall" else expr_text(i_["func"]).split("::")[-1].strip()
            h_ = _sl._NEW_HELPERS.get(nm_)
            if h_ is not None and h_.body is not None and re.sub(r"\s+", "", h_.sig.get("ret") or "").split("::")[-1] == "Context" and h_ is not fn:
                ctxvars.update(_pb(st["pat"]))
                keys = dict(collect_renders(h_, h_.body, {}, []))
        for e in stmt_exprs(st):
            for x in _ordered(e):
                if isinstance(x, tuple):
                    # a nested scope that builds its own Context keeps it to itself; one that only inserts into the enclosing context
                    # (`if let Types { structs } = file { context.insert("structs", ..) }`) adds to it
                    own = any(isinstance(s_, dict) and s_.get("k") == "let" and s_.get("init") is not None and re.search(r"(^|::)Context::(new|default)\(", expr_text(s_["init"])) for s_ in x[1])
                    if own:
                        collect_renders(fn, x[1], keys, out)
                    else:
                        keys.update(collect_renders(fn, x[1], keys, out))
                    continue
                if x.get("k") == "mcall" and x["method"] == "insert" and expr_text(x["recv"]) in ctxvars and x["args"] and lit_str(x["args"][0]):
                    kv = KeyVal(expr_text(x["args"][1]) if len(x["args"]) > 1 else "")
                    kv.ast = x["args"][1] if len(x["args"]) > 1 else None
                    kv.fn = fn          # the function whose locals the value expression speaks about (a Context-returning helper, maybe)
                    keys[lit_str(x["args"][0])] = kv
                if x.get("k") == "mcall" and x["method"] == "render" and x["args"] and lit_str(x["args"][0]):
                    out.append((fn, lit_str(x["args"][0]), dict(keys)))
                elif x.get("k") == "mcall" and x["method"] == "render" and x["args"] and x["args"][0].get("k") in ("mcall", "call"):
                    # the template name looked up by a new private helper (`file.template_name()`: one literal per variant): a render site per name
                    import srclib as _sl
                    a0 = x["args"][0]
                    nm0 = a0["method"] if a0["k"] == "mcall" else expr_text(a0["func"]).split("::")[-1].strip()
                    h0 = _sl._NEW_HELPERS.get(nm0)
                    if h0 is not None and h0.body is not None:
                        from srclib import walk_block as _wb
                        for tn in sorted({lit_str(y) for y in _wb(h0.body) if lit_str(y) and lit_str(y).endswith(".tera")}):
                            out.append((fn, tn, dict(keys)))
                elif x.get("k") in ("mcall", "call") and x.get("args") and x.get("method") != "insert":
                    # a render routed through a private wrapper (`self.render_or_empty("x.tera", label, &context)`): a call that is handed a
                    # template name literal together with the context variable
                    names = [lit_str(a) for a in x["args"] if lit_str(a) and lit_str(a).endswith(".tera")]
                    if len(names) == 1 and any(expr_text(a).lstrip("&").replace("mut ", "").strip() in ctxvars for a in x["args"]):
                        out.append((fn, names[0], dict(keys)))
    return keys


def render_sites(S):
    out = []
    for f in S.fns:
        if f.body is not None:
            collect_renders(f, f.body, {}, out)
    return out


def key_types(P, fn):
    kt = {}
    if not fn.owner:
        return kt
    for mf in P.find("%s::%s" % (fn.owner, fn.name)):
        for c in mf.calls:
            if strip_generics(c.path).endswith("tera::context::Context::insert") or short_path(c.path) == "Context::insert":
                k = c.arg_str(1)
                if k and c.generics:
                    kt[k] = c.generics[0]
    return kt


def ser_fields(S, sname):
    """serialised field name -> (Rust field name, type text) of a context struct, honouring rename_all / rename / skip"""
    st = S.structs.get(sname)
    if not st:
        return None
    camel = any(a["path"] == ["serde"] and "camelCase" in a["tokens"] for a in st["attrs"])
    out = {}
    for fld in st["fields"]:
        if any(a["path"] == ["serde"] and re.search(r"\bskip\b|skip_serializing\b", a["tokens"]) for a in fld["attrs"]):
            continue
        nm = fld["name"]
        ren = [re.search(r'\brename\s*=\s*"([^"]*)"', a["tokens"]) for a in fld["attrs"] if a["path"] == ["serde"]]
        ren = [m.group(1) for m in ren if m]
        if ren:
            out[ren[0]] = (fld["name"], fld["ty"])
            continue
        if camel:
            parts = nm.split("_")
            nm = parts[0] + "".join(x[:1].upper() + x[1:] for x in parts[1:])
        out[nm] = (fld["name"], fld["ty"])
    return out


def elem_struct(ty):
    m = re.findall(r"\b([A-Z]\w*(?:Context|Attributes|Constraint))\b", ty or "")
    return m[-1] if m else None


class Typing:
    """resolve(template-variable path, scope) over all render sites"""

    def __init__(self, S, P, T):
        self.S, self.P, self.T = S, P, T
        self.sites = render_sites(S)
        self.var_struct = {}     # loop / set variable name -> set of struct names (None for untyped)
        self.key_ast = {}
        self.key_info = {}       # context key -> set of (producer fn qname, value expr text, rust type)
        self.conflicts = []
        for (fn, tpl, keys) in self.sites:
            kt = key_types(P, fn)
            for k, v in keys.items():
                self.key_info.setdefault(k, set()).add((fn.qname, v, kt.get(k, "")))
                self.key_ast[(fn.qname, k)] = (getattr(v, "fn", None) or fn, v.ast)
            ast = T.ast_of(tpl)
            if ast is not None:
                self._walk(ast, {}, keys, kt, 0)

    def resolve(self, path, scope, keys, kt):
        parts = path.split(".")
        root = parts[0]
        if root == "loop":
            return ("loop", None, None)
        if root in scope:
            sname = scope[root]
        elif root in keys:
            sname = elem_struct(kt.get(root, ""))
        else:
            return None
        owner, fld = None, None
        for p in parts[1:]:
            if sname is None:
                return ("untyped", None, None)
            flds = ser_fields(self.S, sname)
            if flds is None or p not in flds:
                return ("untyped", None, None)
            owner, fld = sname, flds[p][0]
            sname = elem_struct(flds[p][1])
        return ("ok", sname, (owner, fld))

    def _walk(self, nodes, scope, keys, kt, depth):
        from srclib import tera_expr_idents
        scope = dict(scope)
        for node in nodes:
            k = node.get("k")
            if k == "set":
                ids = tera_expr_idents(node["value"])
                t = None
                if len(ids) == 1 and not node["value"].get("filters") and node["value"]["val"]["k"] == "ident":
                    r = self.resolve(ids[0], scope, keys, kt)
                    t = r[1] if r else None
                scope[node["key"]] = t
                self.var_struct.setdefault(node["key"], set()).add(t)
            elif k == "for":
                ids = tera_expr_idents(node["container"])
                t = None
                if ids:
                    r = self.resolve(ids[0], scope, keys, kt)
                    t = r[1] if r else None
                inner = dict(scope)
                inner[node["value"]] = t
                self.var_struct.setdefault(node["value"], set()).add(t)
                self._walk(node["body"], inner, keys, kt, depth)
            elif k == "if":
                for c in node["conds"]:
                    self._walk(c["body"], scope, keys, kt, depth)
                if node.get("else"):
                    self._walk(node["else"], scope, keys, kt, depth)
            elif k == "include" and depth < 6:
                for nm in node["names"]:
                    sub = self.T.ast_of(nm)
                    if sub is not None:
                        self._walk(sub, scope, keys, kt, depth + 1)
                        break

    def field_of(self, path):
        """(struct, rust field) a dotted template path denotes, using the global variable typing; None when not a struct field"""
        parts = path.split(".")
        root = parts[0]
        cands = self.var_struct.get(root)
        if cands is None:
            # a context key holding a struct / list of structs
            infos = self.key_info.get(root)
            if not infos:
                return None
            cands = {elem_struct(t) for (_, _, t) in infos}
        cands = {c for c in cands if c}
        if len(cands) != 1:
            return None if not cands else ("ambiguous", sorted(cands))
        sname = next(iter(cands))
        owner = fld = None
        for p in parts[1:]:
            flds = ser_fields(self.S, sname) if sname else None
            if flds is None or p not in flds:
                return None
            owner, fld = sname, flds[p][0]
            sname = elem_struct(flds[p][1])
        if owner is None:
            return None
        return (owner, fld)

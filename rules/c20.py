"""C20 — dependency ordering routines are correct on every graph.

Correctness of a graph algorithm over all graphs is not a shape property; only its structural
necessary conditions are decided (DFS finishing-time lemma: D1–D3 give "direct dependency before
dependent unless the edge closes a cycle"; Kahn: D5):
  D1  recursion in topological_visit is guarded by `visiting` and `visited`, and the node enters `visiting` first
  D2  exactly-once: `sorted.push` under the `visited` test, with `visited.insert` on the same path; `push` is the
      only mutation of the result, which is returned unmodified
  D3  post-order: no recursive call is reachable from the push
  D4  every requested type is visited under the sole guard `!visited.contains`
  D5  Kahn: every node gets in-degree and adjacency entries; each edge increments `from` and is stored under `to`;
      a node is queued only at degree 0; Ok only if all nodes were emitted, else CircularDependency
"""
import re

from common import Rule, V, finish
from mirlib import short_path, op_const, op_place
from rulelib import strip_generics, blocks_reachable_from, all_loop_exits, loop_exits

PROP = "C20"
VISIT = "tauri_typegen::analysis::dependency_graph::TypeDependencyGraph::topological_visit"
SORT = "tauri_typegen::analysis::dependency_graph::TypeDependencyGraph::topological_sort_types"
KAHN = "tauri_typegen::build::dependency_resolver::DependencyResolver::resolve_build_order"


ROLES = {}   # function id -> {variable name: role}; roles are assigned by use, not by spelling (see assign_roles)


def recv_name(f, c, i=0):
    """role (or, failing that, name) of the variable/parameter behind argument i"""
    n = _raw_name(f, c, i)
    return ROLES.get(f.id, {}).get(n, n)


def _raw_name(f, c, i=0):
    """name of the variable/parameter behind argument i (through refs/derefs/reborrows)"""
    pl = op_place(c.args[i]) if i < len(c.args) else None
    seen = set()
    while pl is not None and pl["l"] not in seen:
        seen.add(pl["l"])
        l = pl["l"]
        if l in f.varnames:
            return f.varnames[l]
        ds = f.defs.get(l, [])
        if len(ds) != 1:
            break
        d = ds[0]
        if d[0] == "stmt" and d[3]["k"] in ("ref", "copy_for_deref", "rawptr"):
            pl = d[3]["place"]
        elif d[0] == "stmt" and d[3]["k"] in ("use", "cast"):
            pl = op_place(d[3]["op"])
        elif d[0] == "call" and short_path(d[2].path) in ("DerefMut::deref_mut", "Deref::deref", "Option::unwrap", "AsRef::as_ref"):
            pl = op_place(d[2].args[0])
        else:
            break
    t = f.describe_origin(f.origin(c.args[i]), deep=0) if i < len(c.args) else "?"
    m = re.search(r"(?:arg|var):(\w+)", t)
    return m.group(1) if m else t


def guard_calls(f, b):
    """[(callee short path, receiver name, outcome)] for the branch outcomes that dominate block b"""
    out = []
    for (a, lab) in f.edge_dominators(b):
        o, outcome = f.cond_struct(a, lab)
        if o[0] == "call":
            c = o[1]
            out.append((short_path(c.best), recv_name(f, c) if c.args else "", outcome))
        elif o[0] == "bin":
            out.append(("bin:" + o[1], f.describe_origin(o, deep=1), outcome))
        else:
            out.append((f.describe_origin(o, deep=1), "", outcome))
    return out


def assign_roles(P, v, s):
    """`visiting` = the set inserted into before the recursion, `visited` = the other set, `sorted` = the vector pushed to; the caller's
    variables get the role of the parameter they are passed for.  A rename of these variables therefore changes nothing."""
    ROLES.clear()
    if v is None:
        return
    rec = [c for c in v.calls if v.id in P.targets(c)]
    r = {}
    for c in v.calls:
        sp = short_path(c.path)
        if sp == "HashSet::insert" and c.args:
            n = _raw_name(v, c)
            if any(v.dominates(c.bb, x.bb) for x in rec):
                r[n] = "visiting"
            else:
                r.setdefault(n, "visited")
        elif sp == "Vec::push" and c.args:
            r[_raw_name(v, c)] = "sorted"
    ROLES[v.id] = r
    pidx = {}
    for i in range(1, v.arg_count + 1):
        if v.lname(i) in r:
            pidx[i] = r[v.lname(i)]
    if s is not None:
        rs = {}
        for c in s.calls:
            if v.id in P.targets(c):
                for j in range(len(c.args)):
                    if (j + 1) in pidx:
                        rs[_raw_name(s, c, j)] = pidx[j + 1]
        ROLES[s.id] = rs


def check(ctx):
    P = ctx.P
    rules = []
    v = P.fns.get(VISIT)
    s = P.fns.get(SORT)
    k = P.fns.get(KAHN)
    assign_roles(P, v, s)

    r1 = Rule("C20-D1-recursion-guard", "D1",
              "every recursive call of topological_visit is dominated by visiting.contains=false, visited.contains=false and by visiting.insert(node)",
              "without the guards the visit does not terminate on cyclic graphs")
    r2 = Rule("C20-D2-exactly-once", "D2",
              "sorted.push(node) is dominated by visited.contains=false and accompanied by visited.insert(node) on the same path; push is the "
              "only mutation of the result vector, which topological_sort_types returns unmodified",
              "a type emitted twice or a reordered result breaks 'each type exactly once, dependencies first'")
    r3 = Rule("C20-D3-post-order", "D3",
              "no recursive call is reachable from the push (dependencies are finished before the node is emitted); the dependency loop precedes the push",
              "pre-order emission puts a dependent before its dependencies")
    r4 = Rule("C20-D4-all-requested", "D4",
              "topological_sort_types calls topological_visit for every requested name under the sole guard !visited.contains(name)",
              "an extra filter drops requested types from the result")
    if v is None or s is None:
        r1.bad(V(r1.id, "<anchor>", "missing:topological_visit/sort", "anchor functions not found"))
    else:
        rec = [c for c in v.calls if v.id in P.targets(c)]
        pushes = [c for c in v.calls if short_path(c.path) == "Vec::push" and recv_name(v, c) == "sorted"]
        if not rec:
            r1.bad(V(r1.id, v.id, "no-recursion", "topological_visit does not recurse into dependencies"))
        for c in rec:
            g = guard_calls(v, c.bb)
            need = {("HashSet::contains", "visiting", "false"), ("HashSet::contains", "visited", "false")}
            have = set(x for x in g if x[0] == "HashSet::contains")
            miss = need - have
            if miss:
                r1.bad(V(r1.id, v.id, "unguarded-recursion:missing=%s" % ",".join(sorted(m[1] for m in miss)),
                         "recursive call is not guarded by %s (guards: %s)" % (sorted(miss), sorted(g)), c.file, c.line))
            else:
                r1.ok("recursive call guarded by !visiting.contains ∧ !visited.contains")
            ins = [i for i in v.calls if short_path(i.path) == "HashSet::insert" and recv_name(v, i) == "visiting"]
            if ins and all(v.dominates(i.bb, c.bb) for i in ins[:1]):
                r1.ok("visiting.insert(node) dominates the recursive call")
            else:
                r1.bad(V(r1.id, v.id, "visiting-insert-missing", "the node is not inserted into `visiting` before recursing", c.file, c.line))
        # the in-progress mark is released only by the activation that set it: every visiting.remove is dominated by this activation's
        # visiting.insert (an exit taken *because* the mark is set — the cycle branch — must leave it alone: the node is still on the stack)
        vins = [i for i in v.calls if short_path(i.path) == "HashSet::insert" and recv_name(v, i) == "visiting"]
        for rm in [c for c in v.calls if short_path(c.path) in ("HashSet::remove", "HashSet::clear", "HashSet::take", "HashSet::retain", "HashSet::drain") and recv_name(v, c) == "visiting"]:
            # ... and it releases this activation's mark only: emptying the set (or filtering it) also wipes the marks of the ancestors that are
            # still on the stack, so a back edge to one of them is no longer seen as a cycle and the ancestor is descended into again
            if rm.name in ("clear", "drain", "retain"):
                r1.bad(V(r1.id, v.id, "visiting-wiped:%s" % rm.name, "visiting.%s(..) removes the in-progress marks of every node on the stack, not just this "
                         "activation's: back edges to ancestors are not recognised afterwards" % rm.name, rm.file, rm.line))
            if vins and any(v.dominates(i.bb, rm.bb) for i in vins):
                r1.ok("visiting.%s is dominated by this activation's visiting.insert" % rm.name)
            else:
                r1.bad(V(r1.id, v.id, "foreign-mark-released:%s" % rm.name,
                         "visiting.%s(..) can run on a path that did not insert the mark (the cycle exit): the node on the stack loses its in-progress mark and a second cycle through it emits it twice" % rm.name,
                         rm.file, rm.line))
        for rm in [c for c in v.calls if short_path(c.path) in ("HashSet::remove", "HashSet::clear", "HashSet::retain", "HashSet::drain") and recv_name(v, c) == "visited"]:
            r2.bad(V(r2.id, v.id, "visited-shrinks:%s" % rm.name, "`visited` loses elements (%s): a finished type can be emitted again" % rm.name, rm.file, rm.line))
        # the loop over a node's dependencies is left only when the iterator is exhausted (or by returning): a `break` skips the remaining dependencies
        for c in rec:
            for H in v.enclosing_loop_heads(c.bb):
                body = {b for b in v.reach_blocks if v.dominates(H, b) and H in blocks_reachable_from(v, b, include_start=True)}
                body.add(H)
                for b in sorted(body):
                    t = v.blocks[b]["term"]
                    for (lab, succ) in v.succ_edges(b):
                        if succ in body or succ not in v.reach_blocks:
                            continue
                        if t["k"] in ("return",):
                            continue
                        if lab in ("unwind", "cleanup"):
                            continue
                        # exit edge: allowed only as the `None` outcome of the iterator's next()
                        try:
                            o, outcome = v.cond_struct(b, lab)
                        except Exception:
                            o, outcome = ("?",), "?"
                        if o[0] == "call" and o[1].name == "next":
                            r3.ok("dependency loop is left when the iterator is exhausted")
                            continue
                        # does the exit lead to a return without passing the push?  (an early `return` inside the loop is an abort of this activation, not a skip)
                        if not any(p_.bb in blocks_reachable_from(v, succ, include_start=True) for p_ in pushes):
                            continue
                        r3.bad(V(r3.id, v.id, "dependency-loop-left-early", "the loop over a node's dependencies can be left before the last dependency (edge bb%d -> bb%d on %s): the remaining dependencies are emitted after the node" % (b, succ, v.describe_origin(o, deep=1)[:60]),
                                 v.blocks[b]["term"].get("span", {}).get("file"), v.blocks[b]["term"].get("span", {}).get("line")))
        # an activation gives up before emitting its node only because the node is finished (visited) or on the stack (visiting): any other
        # reason to skip — a depth cap, a size test, a name test — leaves a requested type out or emits a dependent before its dependency
        for p_ in pushes:
            extra = []
            for (bb, keep, lose) in v.filter_branches(0, p_.bb):
                for lab in lose:
                    o, outcome = v.cond_struct(bb, lab)
                    if o[0] == "call" and short_path(o[1].best) == "HashSet::contains" and o[1].args and recv_name(v, o[1]) in ("visiting", "visited") and outcome == "true":
                        continue
                    extra.append("%s=%s" % (v.describe_origin(o, deep=1)[:60], outcome))
            if extra:
                r3.bad(V(r3.id, v.id, "emission-skipped-under:%s" % ";".join(sorted(set(extra)))[:120],
                         "an activation of topological_visit can return without emitting its node for another reason than visited/visiting membership (%s): on an acyclic graph "
                         "that node is then missing from the order or placed after a dependent" % "; ".join(sorted(set(extra)))[:160], p_.file, p_.line))
            else:
                r3.ok("the node is emitted unless it is visited or on the stack")
        # every dependency is descended into: inside the dependency loop the recursive call is guarded only by the iteration itself, the lookup of the
        # dependency list and membership tests on the visited/visiting sets — not by what an earlier dependency returned (`cyclic || visit(dep)`
        # short-circuits: the dependencies after the first cyclic one are skipped and emitted after the node)
        for rc in [c for c in v.calls if c.best == v.id and c.bb in v.reach_blocks]:
            odd = [x for x in v.must_conditions(rc.bb, sequencing=False)
                   if not re.search(r"Iterator>::next\(\)=Some|::next\(\)=Some|HashMap::get\(\)=Some|HashSet::contains\(\)=(false|true)|HashMap::contains_key\(\)=true|Option::\w+\(\)=Some|=Some$", x)]
            if odd:
                r3.bad(V(r3.id, v.id, "recursion-skipped-under:%s" % ";".join(sorted(odd))[:100],
                         "the descent into a dependency also depends on %s: a dependency that is not descended into is emitted after the node that needs it" % "; ".join(sorted(odd))[:160], rc.file, rc.line))
            else:
                r3.ok("every listed dependency is descended into (guards: iteration, lookup, visited/visiting membership)")
        # D2
        if len(pushes) != 1:
            r2.bad(V(r2.id, v.id, "push-sites:%d" % len(pushes), "expected exactly one sorted.push in topological_visit, found %d" % len(pushes)))
        for p in pushes:
            g = guard_calls(v, p.bb)
            if ("HashSet::contains", "visited", "false") in g:
                r2.ok("sorted.push dominated by !visited.contains")
            else:
                r2.bad(V(r2.id, v.id, "push-unguarded", "sorted.push is not dominated by the visited test (guards %s)" % sorted(g), p.file, p.line))
            ins = [i for i in v.calls if short_path(i.path) == "HashSet::insert" and recv_name(v, i) == "visited"]
            if ins and any(v.dominates(i.bb, p.bb) or v.dominates(p.bb, i.bb) for i in ins):
                r2.ok("visited.insert(node) lies on the same path as the push")
            else:
                r2.bad(V(r2.id, v.id, "visited-insert-missing", "visited.insert(node) does not accompany sorted.push", p.file, p.line))
            # D3
            after = blocks_reachable_from(v, p.bb)
            if any(c.bb in after for c in rec):
                r3.bad(V(r3.id, v.id, "recursion-after-push", "a recursive call is reachable after sorted.push (pre-order emission)", p.file, p.line))
            else:
                r3.ok("no recursive call reachable from sorted.push")
            # all recursion happens before the push on every path: push not reachable without passing the dependency lookup
            look = [c for c in v.calls if short_path(c.path) == "HashMap::get" and "dependencies" in v.describe_origin(v.origin(c.args[0]), deep=1)]
            if look and all(v.dominates(l.bb, p.bb) for l in look):
                r3.ok("dependency lookup dominates the push")
            else:
                r3.bad(V(r3.id, v.id, "push-before-dependencies", "sorted.push is not dominated by the dependency lookup", p.file, p.line))
        # other mutations of sorted in visit: calls receiving `sorted` mutably other than push/recursion
        for c in v.calls:
            for i, a in enumerate(c.args):
                if recv_name(v, c, i) == "sorted" and c not in pushes and c not in rec:
                    if short_path(c.path) in ("DerefMut::deref_mut", "Deref::deref"):
                        continue
                    r2.bad(V(r2.id, v.id, "other-mutation:%s" % short_path(c.path), "`sorted` is also passed to %s" % c.path, c.file, c.line))
        # sort_types: returned vector is the one filled
        ret = s.describe_origin(s.origin({"move": {"l": 0}}), deep=1) if False else None
        muts = []
        for c in s.calls:
            for i, a in enumerate(c.args):
                if recv_name(s, c, i) == "sorted":
                    muts.append(c)
        REORDER = {"reverse", "sort", "sort_by", "sort_by_key", "sort_unstable", "sort_unstable_by", "sort_unstable_by_key", "sort_by_cached_key",
                   "swap", "rotate_left", "rotate_right", "retain", "retain_mut", "dedup", "dedup_by", "dedup_by_key", "truncate", "remove",
                   "insert", "drain", "clear", "pop", "swap_remove", "push", "extend", "append", "split_off", "fill", "select_nth_unstable"}
        bad = [c for c in muts if VISIT not in P.targets(c) and (c.name in REORDER)]
        for c in bad:
            r2.bad(V(r2.id, s.id, "result-modified:%s" % short_path(c.path), "topological_sort_types modifies the result after sorting via %s" % c.path, c.file, c.line))
        # _0 assigned from `sorted`
        okret = False
        for d in s.defs.get(0, []):
            if d[0] == "stmt" and d[3]["k"] == "use":
                pl = op_place(d[3]["op"])
                if pl and s.lname(pl["l"]) == "sorted" and not pl.get("p"):
                    okret = True
        if okret and not bad:
            r2.ok("topological_sort_types returns `sorted` unmodified")
        elif not okret:
            r2.bad(V(r2.id, s.id, "return-not-sorted", "topological_sort_types does not return the filled vector itself"))
        # D4
        vc = [c for c in s.calls if VISIT in P.targets(c)]
        if len(vc) != 1:
            r4.bad(V(r4.id, s.id, "visit-calls:%d" % len(vc), "expected one call of topological_visit, found %d" % len(vc)))
        for c in vc:
            g = guard_calls(s, c.bb)
            extra = [x for x in g if not ((x[0].endswith("Iterator>::next") or "next" in x[0]) and x[2] == "Some") and x != ("HashSet::contains", "visited", "false")]
            has = ("HashSet::contains", "visited", "false") in g
            if has and not extra:
                r4.ok("visit of each requested name under the sole guard !visited.contains")
            else:
                r4.bad(V(r4.id, s.id, "visit-guards:%s" % ",".join("%s(%s)=%s" % x for x in sorted(extra)) + ("" if has else ":no-visited-test"),
                         "topological_visit is called under guards %s" % sorted(g), c.file, c.line))
        # the loop iterates the requested set (possibly via a sorted Vec of its names)
        it = [c for c in s.calls if c.name in ("iter", "into_iter") and "arg:types" in s.describe_origin(s.origin(c.args[0]), deep=2)]
        if it:
            r4.ok("the loop is fed from the `types` argument")
        else:
            r4.bad(V(r4.id, s.id, "loop-source", "the visiting loop is not fed from the requested set"))
        # ... from all of it: nothing between the `types` argument and the visiting loop drops names ("start at the roots only" loses every type
        # that sits on a cycle no root reaches)
        DROP = {"filter", "filter_map", "take", "skip", "take_while", "skip_while", "step_by", "retain", "dedup", "truncate", "pop", "remove", "nth", "first", "last", "find"}
        for c in vc[:1]:
            heads = s.enclosing_loop_heads(c.bb)
            hc = s.call_at(max(heads, key=lambda h: len(s.dom[h]))) if heads else None
            if hc is None or not hc.args:
                r4.bad(V(r4.id, s.id, "visit-not-in-loop", "topological_visit is not called from a loop over the requested names"))
                continue
            fed = {x.split("::")[-1] for x in s.feeding_calls(hc.args[0], depth=10)}
            # a Vec assigned on several paths: every assignment counts
            dropped = sorted(fed & DROP)
            if dropped:
                r4.bad(V(r4.id, s.id, "requested-names-dropped:%s" % ",".join(dropped),
                         "the names the visiting loop runs over are the requested set passed through %s: a requested type that is filtered out and not reached from another one is missing from the order"
                         % ", ".join(dropped), hc.file, hc.line))
            else:
                r4.ok("the visiting loop runs over every requested name")
    r1.require_floor(2, "recursion guards")
    r2.require_floor(3, "exactly-once facts")
    r3.require_floor(2, "post-order facts")
    r4.require_floor(2, "coverage facts")
    rules += [r1, r2, r3, r4]

    r5 = Rule("C20-D5-kahn", "D5",
              "resolve_build_order: in-degree and adjacency entries for every node; per dependency the adjacency list of `to` gains `from` and the "
              "in-degree of `from` grows by one; nodes are queued only at degree 0; Ok(result) only under result.len() == nodes.len(), otherwise CircularDependency",
              "dropping the length test returns a partial order for cyclic graphs; swapped from/to reverses the order")
    if k is None:
        r5.bad(V(r5.id, "<anchor>", "missing:resolve_build_order", "anchor not found"))
    else:
        ins = [c for c in k.calls if short_path(c.path) == "HashMap::insert"]
        names = sorted(recv_name(k, c) for c in ins)
        if names == ["adjacency", "in_degree"]:
            for c in ins:
                g = guard_calls(k, c.bb)
                if any("next" in x[0] and x[2] == "Some" for x in g) and len(g) == 1:
                    r5.ok("%s.insert(node, ..) for every node" % recv_name(k, c))
                else:
                    r5.bad(V(r5.id, k.id, "init-guard:%s" % recv_name(k, c), "initialisation of %s is conditional: %s" % (recv_name(k, c), g), c.file, c.line))
        else:
            r5.bad(V(r5.id, k.id, "init-inserts:%s" % ",".join(names), "expected one insert each into in_degree and adjacency, found %s" % names))
        gm = [c for c in k.calls if short_path(c.path) == "HashMap::get_mut"]
        seen = {}
        for c in gm:
            key = k.describe_origin(k.origin(c.args[1]), deep=1)
            m = re.search(r"Dependency\.(from|to)", key)
            seen.setdefault(recv_name(k, c), set()).add(m.group(1) if m else key)
        if "to" in seen.get("adjacency", set()) and "from" not in seen.get("adjacency", set()):
            r5.ok("adjacency[dep.to] receives the dependent")
        else:
            r5.bad(V(r5.id, k.id, "adjacency-key:%s" % ",".join(sorted(seen.get("adjacency", []))), "adjacency is indexed by %s (expected dep.to)" % sorted(seen.get("adjacency", []))))
        if "from" in seen.get("in_degree", set()):
            r5.ok("in_degree[dep.from] is incremented")
        else:
            r5.bad(V(r5.id, k.id, "in-degree-key:%s" % ",".join(sorted(seen.get("in_degree", []))), "in_degree is indexed by %s (expected dep.from)" % sorted(seen.get("in_degree", []))))
        # the in-degree is a *count*: every store through in_degree.get_mut(..) is the old value plus / minus something, never a fresh constant
        # (`= 1` releases a node as soon as the first of its dependencies is emitted)
        n_st = 0
        for b in sorted(k.reach_blocks):
            for st in k.blocks[b]["stmts"]:
                lhs = st.get("lhs")
                if not (lhs and len(lhs.get("p", [])) == 1 and lhs["p"][0].get("k") == "deref" and st.get("rv", {}).get("k") == "use"):
                    continue
                po = k.origin({"copy": {"l": lhs["l"], "p": []}})
                while po[0] == "call" and po[1].name in ("unwrap", "expect", "unwrap_unchecked") and po[1].args:
                    po = k.origin(po[1].args[0])
                if not (po[0] == "call" and short_path(po[1].path) in ("HashMap::get_mut", "HashMap::entry", "BTreeMap::get_mut") and recv_name(k, po[1]) == "in_degree"):
                    continue
                n_st += 1
                vo = k.origin(st["rv"]["op"])
                while vo[0] == "proj" and isinstance(vo[1], tuple):
                    vo = vo[1]          # (the `.0` of a checked-arithmetic pair)
                if vo[0] == "bin" and re.match(r"(Add|Sub)", str(vo[1])):
                    r5.ok("in_degree is updated by %s of its old value" % vo[1])
                else:
                    r5.bad(V(r5.id, k.id, "in-degree-overwritten:%s" % (k.describe_origin(vo, deep=1)[:30]), "an in-degree is overwritten with `%s` instead of being "
                             "counted up/down: a node with several dependencies is released after the first one" % k.describe_origin(vo, deep=1)[:40],
                             st.get("file"), st.get("line")))
        if gm and not n_st:
            r5.notes.append("no store through in_degree.get_mut(..) recognised (the count may be kept another way)")
        # every dependency counts: the edge-building steps run for each element of the dependency list (no `continue`/filter in that loop)
        for c in gm:
            flt = []
            for (bb, keep, lose) in k.filters_in_iteration(c.bb):
                o, _ = k.cond_struct(bb, keep[0])
                if o[0] == "call" and o[1].name in ("next",):
                    continue
                flt.append(k.describe_origin(o, deep=1)[:60])
            if flt:
                r5.bad(V(r5.id, k.id, "edge-loop-filtered:%s" % recv_name(k, c), "some dependencies are skipped while building %s (%s): an edge that is not counted cannot keep its node out of the order (self-loops, cycles)" % (recv_name(k, c), "; ".join(flt)), c.file, c.line))
            else:
                r5.ok("%s is updated for every dependency" % recv_name(k, c))
        # every loop of the algorithm runs to exhaustion: a `break` out of the dequeue loop, or out of the loop over a node's dependents, leaves
        # nodes with a stale in-degree (never queued: the result is short and acyclic graphs are reported as cyclic) — `?` and the length test
        # after the loops are not loop exits
        n_loops = 0
        for (drv, exits) in all_loop_exits(k):
            n_loops += 1
            for (b_, to_, cond_, kind_) in exits:
                r5.bad(V(r5.id, k.id, "loop-left-early:%s:%s" % (drv.name if drv is not None else "?", kind_),
                         "a loop of the topological sort (driven by `%s`) is left by `%s` under `%s` before its source is exhausted: dependents whose "
                         "in-degree was not yet decremented are never queued" % (drv.name if drv is not None else "?", kind_, cond_),
                         k.blocks[b_]["term"].get("file"), k.blocks[b_]["term"].get("line")))
        if n_loops:
            r5.ok("%d loops of resolve_build_order run until their iterator / queue is exhausted" % n_loops)
        # what is pushed under dep.to is dep.from
        pushed = [c for c in k.calls if short_path(c.path) == "Vec::push"]
        okp = any("Dependency.from" in k.describe_origin(k.origin(c.args[1]), deep=2) for c in pushed)
        if okp:
            r5.ok("adjacency list stores dep.from")
        else:
            r5.bad(V(r5.id, k.id, "adjacency-value", "the adjacency list does not store dep.from"))
        # queue.push_back only when degree == 0
        pb = [c for c in k.calls if short_path(c.path) == "VecDeque::push_back"]
        for c in pb:
            g = guard_calls(k, c.bb)
            if any(x[0] == "bin:Eq" and x[2] == "true" and "0" in x[1] for x in g):
                r5.ok("queue.push_back under degree == 0")
            else:
                r5.bad(V(r5.id, k.id, "queue-guard", "a node is queued without its in-degree having reached 0 (guards %s)" % g, c.file, c.line))
        if not pb:
            r5.bad(V(r5.id, k.id, "no-requeue", "nodes are never queued when their in-degree reaches 0"))
        # Ok only if lengths agree
        oks = []
        errs = []
        for b in sorted(k.reach_blocks):
            for st in k.blocks[b]["stmts"]:
                rv = st.get("rv")
                if rv and st["lhs"]["l"] == 0 and rv["k"] == "aggr":
                    (oks if rv.get("variant") == "Ok" else errs).append(b)
        for b in oks:
            g = guard_calls(k, b)
            lens = [x for x in g if x[0].startswith("bin:") and "len" in x[1]]
            if any((x[0] == "bin:Ne" and x[2] == "false") or (x[0] == "bin:Eq" and x[2] == "true") for x in lens):
                r5.ok("Ok(result) only when result.len() == nodes.len()")
            else:
                r5.bad(V(r5.id, k.id, "ok-without-length-test", "Ok(result) is returned without comparing the number of emitted nodes with the node count (guards %s)" % g))
        # the order Kahn's loop produced is the order returned: the vector wrapped in Ok(..) is the one the dequeue loop pushes to, and nothing but
        # that push ever borrows it mutably (a later sort / reverse / dedup / swap re-arranges a valid order into one that need not be valid)
        from unord import Unord
        base = lambda op: Unord._base_local(None, k, op)
        res_locals = set()
        for b in oks:
            for st in k.blocks[b]["stmts"]:
                rv = st.get("rv")
                if rv and st["lhs"]["l"] == 0 and rv["k"] == "aggr" and rv.get("variant") == "Ok" and rv.get("ops"):
                    res_locals.add(base(rv["ops"][0]))
        pushed_node = [c for c in k.calls if short_path(c.path) == "Vec::push" and c.args and base(c.args[0]) in res_locals]
        if not res_locals or not pushed_node:
            r5.bad(V(r5.id, k.id, "result-provenance", "the vector returned in Ok(..) is not the one the dequeue loop pushes to"))
        else:
            other = []
            for c in k.calls:
                if c.bb not in k.reach_blocks or c in pushed_node or not c.args:
                    continue
                for a_ in c.args:
                    pl = a_.get("move") or a_.get("copy") if isinstance(a_, dict) else None
                    if pl is None:
                        continue
                    ds = k.defs.get(pl["l"], [])
                    if len(ds) == 1 and ds[0][0] == "stmt" and ds[0][3]["k"] == "ref" and ds[0][3].get("mut") and base(a_) in res_locals:
                        other.append(c)
            # a deref_mut to a slice followed by a slice method is the usual form: report the final callee
            names = sorted(set(short_path(c.path) for c in other if short_path(c.path) not in ("Vec::push",)))
            real = [n for n in names if not n.endswith(("deref_mut", "as_mut_slice"))]
            if names:
                r5.bad(V(r5.id, k.id, "result-rearranged:%s" % ",".join(real or names), "the computed order is modified after Kahn's loop (%s): a topological order re-arranged by any other key "
                         "need not be topological" % ", ".join(real or names)))
            else:
                r5.ok("the returned vector is only ever pushed to by the dequeue loop")
        if not errs:
            r5.bad(V(r5.id, k.id, "no-cycle-error", "resolve_build_order never returns CircularDependency"))
        else:
            r5.ok("Err(CircularDependency) on the other edge")
    r5.require_floor(8, "Kahn facts")
    rules.append(r5)

    return finish(
        PROP, ctx, rules,
        "Dominance/guard/ordering facts on the MIR of topological_visit, topological_sort_types and resolve_build_order: the textbook "
        "structural invariants of DFS post-order and of Kahn's algorithm (necessary conditions only).",
        ["the behavioural statement itself on all graphs (needs proof or exhaustive enumeration: other technique families)",
         "interpretation note: a transitive dependency of a node on a cycle may be emitted after that node (w→{u,v}, u→w gives u, v, w); the statement orders pairs not on a common cycle"],
        ["by the DFS finishing-time lemma D1–D3 imply dependency-before-dependent for edges that do not close a cycle"])

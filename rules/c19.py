"""C19 — configuration is preserved, round-trips, and obeys flag > file > default.

Decided clauses:
  D1  FLOW/CTRL  save_to_tauri_config is a read-modify-write of the same document: only the documented inserts,
                 each under its documented guard; no removal; same path read and written
  D2  SIBLING    writer and reader agree on section and key ↔ field table
  D3  ORDER/CTRL every CLI override is applied under exactly that flag's presence, after the configuration was
                 loaded, never overwritten, and before validation; defaults only without a file
  D4  ORDER      on the CLI paths validation succeeds before anything is written; validate rejects the
                 documented cases
"""
import re

from common import Rule, V, finish
from mirlib import ENTRY_POINTS, short_path, op_const, op_place
from rulelib import is_fs_mut, strip_generics, blocks_reachable_from, continue_edge_of_try, try_propagated
from srclib import walk_block, walk, lit_str, expr_text

PROP = "C19"
CFG = "tauri_typegen::interface::config::GenerateConfig"
SAVE_TC = CFG + "::save_to_tauri_config"
FROM_TC = CFG + "::from_tauri_config"
VALIDATE = CFG + "::validate"

JSON_MUTATORS_FORBIDDEN = re.compile(r"serde_json::(map::Map|value::Value).*::(remove|remove_entry|clear|retain|shift_remove|swap_remove|take|append|shift_insert)\b")
OVERRIDES = ["project_path", "output_path", "validation_library", "verbose", "visualize_deps", "force"]


def check_validation_dispatch_agreement(S, rule):
    """every `match` that decides on the validation library compares the same text (no case folding in one place only) with the same literals:
    what validate() accepts is exactly what the generator dispatch understands"""
    sites = []
    for f in S.fns:
        if f.body is None:
            continue
        for e in walk_block(f.body):
            if e.get("k") != "match":
                continue
            lits = set()
            for arm in e["arms"]:
                for p_ in (arm["pat"]["cases"] if arm["pat"].get("k") == "or" else [arm["pat"]]):
                    if p_.get("k") == "lit" and isinstance(p_["lit"].get("v"), str):
                        lits.add(p_["lit"]["v"])
            if {"zod", "none"} <= lits:
                scr = expr_text(e["expr"])
                m = re.search(r"validation_library(.*)$", scr)
                sites.append((f.qname, m.group(1) if m else scr, frozenset(lits)))
    if len(sites) < 2:
        rule.bad(V(rule.id, "<anchor>", "validation-dispatch-sites:%d" % len(sites), "expected validate() and at least one generator dispatch to match on the validation library"))
        return
    norms = {s_[1] for s_ in sites}
    litsets = {s_[2] for s_ in sites}
    if len(norms) == 1 and len(litsets) == 1:
        rule.ok("%d sites match validation_library%s against %s" % (len(sites), next(iter(norms)), sorted(next(iter(litsets)))))
    else:
        rule.bad(V(rule.id, "GenerateConfig::validate", "validation-dispatch-disagree:%s" % "|".join(sorted("%s:%s" % (a, b) for a, b, _ in sites)),
                   "the places that decide on the validation library do not compare the same text/literals (%s): a value validate() accepts is rejected later, after the configuration was written"
                   % "; ".join("%s matches validation_library%s on %s" % (a, b, sorted(c)) for a, b, c in sites)))


def check_typegen_inserted_on_all_paths(P, rule):
    """save_to_tauri_config: every path from reading the document to writing it back passes through plugins.insert("typegen", <new entry>)"""
    fs_ = P.find("GenerateConfig::save_to_tauri_config")
    if not fs_:
        rule.bad(V(rule.id, "<anchor>", "missing:save_to_tauri_config", "anchor not found"))
        return
    f = fs_[0]
    ins = [c for c in f.calls if c.name == "insert" and "Map" in (c.self_ty or c.path) and len(c.args) > 1 and c.bb in f.reach_blocks
           and '"typegen"' in f.describe_origin(f.origin(c.args[1]), deep=3)]
    wr = [c for c in f.calls if strip_generics(c.path) == "std::fs::write" and c.bb in f.reach_blocks]
    if not ins or not wr:
        rule.bad(V(rule.id, f.id, "typegen-insert-or-write-missing:%d:%d" % (len(ins), len(wr)), "save_to_tauri_config: found %d insert(\"typegen\") and %d fs::write" % (len(ins), len(wr))))
        return
    blocked = {c.bb for c in ins}
    seen = {0}
    work = [0]
    while work:
        b = work.pop()
        if b in blocked:
            continue
        for (lab, t) in f.succ_edges(b):
            # shape tests on the existing document (`plugins` missing / not an object) may bypass the insertion: that is the "cannot be stored here" case
            try:
                o, outcome = f.cond_struct(b, lab)
            except Exception:
                o, outcome = ("?",), "?"
            if o[0] == "call" and outcome == "None" and (o[1].name in ("get_mut", "as_object_mut", "as_object", "get")
                                                     or (o[1].name in ("and_then", "map", "as_mut", "filter_map")
                                                         and re.search(r"get_mut\(|as_object_mut\(|as_object\(", f.describe_origin(o, short=True, deep=5)))):
                continue
            # the same shape test as one nested pattern (`if let Some(Value::Object(plugins)) = root.get_mut("plugins")`): the value found is
            # not an object
            ro = o
            while ro[0] in ("proj", "ref") and isinstance(ro[1], tuple):
                ro = ro[1]
            if o[0] == "proj" and ro[0] == "call" and ro[1].name in ("get_mut", "get") and isinstance(outcome, str) and "Object" not in outcome.split("|") \
                    and re.fullmatch(r"(Null|Bool|Number|String|Array)(\|(Null|Bool|Number|String|Array))*", outcome):
                continue
            if t not in seen:
                seen.add(t)
                work.append(t)
    if any(w.bb in seen and w.bb not in blocked for w in wr):
        rule.bad(V(rule.id, f.id, "typegen-not-inserted-on-all-paths", "the document can be written back without plugins.insert(\"typegen\", ..) having run (an existing entry is only patched): keys the old entry lacks are lost", wr[0].file, wr[0].line))
    else:
        rule.ok("every path to fs::write passes through plugins.insert(\"typegen\", <entry>)")


def check_no_early_reads(P, rule, fields=None):
    """flag > file > default is established by assignments `config.<field> = <flag value>` in run_generate; a read of such a field that an
    override assignment can still follow sees the file/default value although a flag was given (stale value).  Shared by C19-D3 and C16-D2."""
    from rulelib import blocks_reachable_from
    rg = P.fns.get("cargo_tauri_typegen::run_generate")
    if rg is None:
        rule.bad(V(rule.id, "<anchor>", "missing:run_generate", "anchor not found"))
        return
    writes = {}
    reads = {}

    def fld(pl):
        for x in (pl or {}).get("p", []):
            if x["k"] == "field" and x.get("adt") == CFG and x.get("name") in OVERRIDES:
                return x["name"]
        return None
    for b, blk in enumerate(rg.blocks):
        if b not in rg.reach_blocks:
            continue
        for i, st in enumerate(blk["stmts"]):
            lhs = st.get("lhs") or {}
            pj = lhs.get("p", [])
            if pj and pj[-1]["k"] == "field" and pj[-1].get("adt") == CFG and pj[-1].get("name") in OVERRIDES:
                writes.setdefault(pj[-1]["name"], []).append((b, i))
            rv = st.get("rv")
            if rv:
                for key in ("place",):
                    n = fld(rv.get(key))
                    if n:
                        reads.setdefault(n, []).append((b, i, st.get("line")))
                for key in ("op", "a", "b"):
                    o = rv.get(key)
                    if isinstance(o, dict):
                        n = fld(op_place(o))
                        if n:
                            reads.setdefault(n, []).append((b, i, st.get("line")))
        t = blk["term"]
        if t["k"] == "call":
            pj = t["dest"].get("p", [])
            if pj and pj[-1]["k"] == "field" and pj[-1].get("adt") == CFG and pj[-1].get("name") in OVERRIDES:
                writes.setdefault(pj[-1]["name"], []).append((b, 10 ** 6))
            for a in t["args"]:
                n = fld(op_place(a))
                if n:
                    reads.setdefault(n, []).append((b, 10 ** 6, t["span"]["line"]))
    for name in sorted(fields or OVERRIDES):
        ws = writes.get(name, [])
        n_ok = 0
        for (rb, ri, line) in reads.get(name, []):
            after = blocks_reachable_from(rg, rb)
            stale = [w for w in ws if (w[0] in after and w[0] != rb) or (w[0] == rb and w[1] > ri)]
            if stale:
                rule.bad(V(rule.id, rg.id, "read-before-override:%s" % name, "config.%s is read (line %s) before the command-line override that may still follow: the value used is the file/default one although the flag was given" % (name, line), rg.file, line))
            else:
                n_ok += 1
        if n_ok:
            rule.ok("config.%s: %d read(s), all after its override" % (name, n_ok))


def check_default_sources(S, rule, only=None):
    """GenerateConfig has two sources of defaults — `impl Default` (no configuration file) and `#[serde(default = "f")]` (file that omits the key).
    They must agree field by field: the Default initialiser is the call f() (or both are the same literal).  Shared by C19-D3 and C04-D3."""
    st = S.structs.get("GenerateConfig")
    dflt = [f for f in S.fns if f.owner == "GenerateConfig" and f.name == "default" and f.body is not None and (f.trait or "").endswith("Default")]
    if st is None or not dflt:
        rule.bad(V(rule.id, "<anchor>", "missing:GenerateConfig-defaults", "GenerateConfig or its Default impl not found"))
        return {}
    init = {}
    for e in walk_block(dflt[0].body):
        if e.get("k") == "struct" and e["path"][-1] in ("Self", "GenerateConfig"):
            for fe in e["fields"]:
                init[fe["member"]] = expr_text(fe["expr"])
    values = {}
    for fld in st["fields"]:
        if only and fld["name"] not in only:
            continue
        toks = " ".join(a["tokens"] for a in fld["attrs"] if a["path"] == ["serde"])
        m = re.search(r'default\s*=\s*"(\w+)"', toks)
        have = init.get(fld["name"])
        if m:
            fname = m.group(1)
            g = S.fn(None, fname)
            lit = None
            if g is not None:
                for x in walk_block(g.body):
                    if x.get("k") == "lit" and x["lit"]["t"] == "str":
                        lit = x["lit"]["v"]
            values[fld["name"]] = lit
            if have == "%s()" % fname:
                rule.ok("GenerateConfig.%s: Default and serde default both use %s() = %r" % (fld["name"], fname, lit))
            else:
                rule.bad(V(rule.id, "GenerateConfig", "default-sources-disagree:%s" % fld["name"],
                           "GenerateConfig.%s defaults to %s without a configuration file but to %s() when a file omits the key" % (fld["name"], have, fname)))
        elif re.search(r"\bdefault\b", toks):
            # plain #[serde(default)] = Default of the field type (None / false): the Default impl may say Some(false)/None — both mean "not set"
            if have is None or re.match(r"^(None|Some\(false\)|false|Default::default\(\)|String::new\(\))$", have):
                rule.ok("GenerateConfig.%s: unset in both sources" % fld["name"])
            else:
                rule.bad(V(rule.id, "GenerateConfig", "default-sources-disagree:%s" % fld["name"],
                           "GenerateConfig.%s defaults to %s without a configuration file but to the type's Default when a file omits the key" % (fld["name"], have)))
    return values


def check_first_config_wins(P, rule):
    """configuration discovery stops at the first file that carries a configuration: the statement that stores a discovered configuration into
    the variable the run continues with is executed at most once — it is not part of the loop over the candidate paths (the loop is left right
    after it).  Without that exit a later candidate (../tauri.conf.json) overrides the nearer one, its outputPath included.  Shared by C19-D3
    (precedence) and C16-D2 (which directory is the configured output directory)."""
    n = 0
    for fid, f in sorted(P.fns.items()):
        if "{closure" in fid or "{promoted" in fid or not fid.startswith(("tauri_typegen", "cargo_tauri_typegen")):
            continue
        for c in f.calls:
            if c.bb not in f.reach_blocks or short_path(c.best) != "GenerateConfig::from_tauri_config":
                continue
            loops = [(h, body) for (h, body) in f._natural_loops() if c.bb in body]
            if not loops:
                continue
            h, body = min(loops, key=lambda hb: len(hb[1]))
            seedl = c.dest["l"]
            T, _calls = f.forward_taint(lambda pl: pl.get("l") == seedl)
            n += 1
            hit = False
            for b in sorted(body):
                for st in f.blocks[b]["stmts"]:
                    lhs = st.get("lhs")
                    if not lhs or lhs.get("p") or lhs["l"] not in T or lhs["l"] == seedl or not f.varnames.get(lhs["l"]):
                        continue
                    rv = st.get("rv") or {}
                    src = (rv.get("op") or {}).get("move") or (rv.get("op") or {}).get("copy") if rv.get("k") == "use" else None
                    if not src or src.get("l") not in T:
                        continue
                    outside = [d for d in f.defs.get(lhs["l"], []) if d[0] in ("stmt", "call") and d[1] not in body and d[1] in f.reach_blocks]
                    if outside:
                        hit = True
                        rule.bad(V(rule.id, fid, "discovery-continues-after-first-config:%s" % f.varnames[lhs["l"]],
                                   "%s: `%s` receives the discovered configuration inside the loop over the candidate files and the loop goes on: a later "
                                   "candidate overrides the first one found" % (short_path(fid), f.varnames[lhs["l"]]), c.file, c.line))
            if not hit:
                rule.ok("%s: discovery stops at the first configuration found" % short_path(fid))
    return n


def check(ctx):
    P = ctx.P
    S = ctx.S
    reach = P.reachable(ENTRY_POINTS)
    memo = {}
    fsreach = lambda fid: P.reaches(fid, is_fs_mut, memo)  # noqa: E731
    rules = []

    # ---------------------------------------------------------------- D1
    r1 = Rule("C19-D1-read-modify-write", "D1",
              "save_to_tauri_config serialises the very document it parsed from the same path; it replaces it only when it is not an object, "
              "inserts \"plugins\" only when absent and \"typegen\" into it; it never removes or clears anything",
              "any other mutation drops or rewrites keys of the user's tauri.conf.json")
    f = P.fns.get(SAVE_TC)
    if f is None:
        r1.bad(V(r1.id, "<anchor>", "missing:save_to_tauri_config", "anchor not found"))
    else:
        writes = [c for c in f.calls if strip_generics(c.path) == "std::fs::write"]
        reads = [c for c in f.calls if strip_generics(c.path) == "std::fs::read_to_string"]
        sers = [c for c in f.calls if strip_generics(c.path) in ("serde_json::ser::to_string_pretty", "serde_json::ser::to_string")]
        parses = [c for c in f.calls if strip_generics(c.path) == "serde_json::de::from_str"]
        if len(writes) != 1 or len(reads) != 1 or not sers or len(parses) != 1:
            r1.bad(V(r1.id, f.id, "shape:%d-%d-%d-%d" % (len(reads), len(parses), len(sers), len(writes)),
                     "expected one read, one parse, a serialisation and one write; found %d/%d/%d/%d" % (len(reads), len(parses), len(sers), len(writes))))
        else:
            w, rd, pz = writes[0], reads[0], parses[0]
            pa = f.describe_origin(f.origin(w.args[0]), deep=3)
            pb = f.describe_origin(f.origin(rd.args[0]), deep=3)
            na = re.sub(r"\b(asref|deref|clone|path)\(|\)|\.deref", "", pa)
            nb = re.sub(r"\b(asref|deref|clone|path)\(|\)|\.deref", "", pb)
            if na == nb and na.startswith("arg:"):
                r1.ok("reads and writes the same path (%s)" % na)
            else:
                r1.bad(V(r1.id, f.id, "paths-differ", "document is read from `%s` but written to `%s`" % (pb, pa), w.file, w.line))
            # content written = serialisation of the parsed document local
            co = f.describe_origin(f.origin(w.args[1]), deep=4)
            ser = [s for s in sers if s.bb in f.dom[w.bb]]
            doc_local = None
            if ser:
                so = f.origin(ser[-1].args[0])
                base = so
                while base[0] == "proj":
                    base = base[1]
                if base[0] == "multi":
                    doc_local = base[1]
                elif base[0] == "call":
                    doc_local = "<direct>"
            if "to_string" in co and ser:
                r1.ok("written content is the serialisation of `%s`" % (doc_local or "?"))
            else:
                r1.bad(V(r1.id, f.id, "written-content", "the written content is not the serialised document: %s" % co, w.file, w.line))
            # definitions of the document variable: the parse, and replacements guarded by !is_object
            if ser:
                base_l = None
                pl = op_place(ser[-1].args[0])
                seen_l = set()
                while pl is not None and pl["l"] not in seen_l:
                    seen_l.add(pl["l"])
                    if pl["l"] in f.varnames and len(f.defs.get(pl["l"], [])) >= 1 and f.varnames[pl["l"]] not in ("self", "path"):
                        base_l = pl["l"]
                        break
                    ds = f.defs.get(pl["l"], [])
                    if len(ds) == 1 and ds[0][0] == "stmt" and ds[0][3]["k"] in ("ref", "copy_for_deref"):
                        pl = ds[0][3]["place"]
                    elif len(ds) == 1 and ds[0][0] == "stmt" and ds[0][3]["k"] == "use":
                        pl = op_place(ds[0][3]["op"])
                    elif len(ds) == 1 and ds[0][0] == "stmt" and ds[0][3]["k"] == "aggr" and ds[0][3].get("variant") == "Object" and len(ds[0][3].get("ops", [])) == 1:
                        pl = op_place(ds[0][3]["ops"][0])       # `Value::Object(root)`: the document kept as its member map
                    else:
                        break
                if base_l is None:
                    r1.bad(V(r1.id, f.id, "document-variable", "cannot identify the variable that is serialised"))
                else:
                    ds = [d for d in f.defs[base_l] if d[0] == "arg" or d[1] in f.reach_blocks]
                    parsed = False
                    for d in ds:
                        if d[0] == "call":
                            txt = f.describe_origin(("call", d[2]), deep=3)
                        elif d[0] == "stmt" and d[3]["k"] == "use":
                            txt = f.describe_origin(f.origin(d[3]["op"]), deep=3)
                        else:
                            txt = "?"
                        if "from_str" in txt and "read_to_string" in f.describe_origin(f.origin(pz.args[0]), deep=4):
                            parsed = True
                            r1.ok("document `%s` = parse(read(path))" % f.varnames[base_l])
                            continue
                        blk_of = d[1]
                        conds = f.must_conditions(blk_of)
                        # (the same test as a match on the parsed value: every variant but Object)
                        not_object = any(re.match(r"call Value::is_object\(\)=false", x) for x in conds) or \
                            any(re.search(r"=(?!.*\bObject\b)(Null|Bool|Number|String|Array)(\|(Null|Bool|Number|String|Array))*$", x) for x in conds)
                        if not_object:
                            r1.ok("document replaced by a fresh value only under is_object()=false")
                        else:
                            r1.bad(V(r1.id, f.id, "document-replaced:%s" % ",".join(conds),
                                     "the parsed document is replaced under %s (expected only when it is not an object)" % conds, f.file, None))
                    if not parsed:
                        r1.bad(V(r1.id, f.id, "serialises-other-value", "the serialised variable `%s` is not the document parsed from the file" % f.varnames[base_l]))
        def fresh_map(g, op):
            o_ = g.origin(op)
            while o_[0] in ("proj", "ref") and isinstance(o_[1], tuple):
                o_ = o_[1]
            if o_[0] == "multi":
                return False
            return o_[0] == "call" and re.search(r"serde_json::map::Map.*::new$", strip_generics(o_[1].path)) is not None
        # mutating JSON calls
        scope = P.reachable([SAVE_TC])
        for fid in sorted(scope):
            g = P.fns[fid]
            for c in g.calls:
                if JSON_MUTATORS_FORBIDDEN.search(c.path):
                    r1.bad(V(r1.id, fid, "json-removal:%s" % short_path(c.path), "the document is mutated by %s" % c.path, c.file, c.line))
                if re.search(r"serde_json::map::Map.*::insert$", strip_generics(c.path)):
                    key_o = g.origin(c.args[1])
                    key = g.describe_origin(key_o, deep=3)
                    conds = g.must_conditions(c.bb)
                    if '"plugins"' in key:
                        if any(re.match(r'call Map::contains_key\("plugins"\)=false', x) for x in conds):
                            r1.ok('insert("plugins") only under contains_key("plugins")=false')
                        else:
                            r1.bad(V(r1.id, fid, "plugins-insert-unguarded", 'insert("plugins", ..) is not guarded by !contains_key("plugins"): an existing plugins section would be replaced (guards: %s)' % conds, c.file, c.line))
                    elif '"typegen"' in key:
                        recv = g.describe_origin(g.origin(c.args[0]), deep=4)
                        if '"plugins"' in recv:
                            r1.ok('insert("typegen") into the object obtained from get_mut("plugins")')
                        else:
                            r1.bad(V(r1.id, fid, "typegen-insert-receiver", 'insert("typegen") is not applied to the plugins object: %s' % recv, c.file, c.line))
                    elif c.exp:
                        # json! macro building the fresh typegen object
                        r1.ok(None)
                    elif fresh_map(g, c.args[0]):
                        # the same object built by hand: inserts into a map this function created empty (`Map::new()`), not into the document
                        r1.ok(None)
                    else:
                        r1.bad(V(r1.id, fid, "unexpected-insert:%s" % key, "unexpected insertion of key %s into the document" % key, c.file, c.line))
            for c in g.calls:
                if strip_generics(c.path) in ("std::mem::take", "std::mem::replace", "std::mem::swap"):
                    r1.bad(V(r1.id, fid, "mem-replace", "the document is swapped/replaced via %s" % c.path, c.file, c.line))
    check_typegen_inserted_on_all_paths(P, r1)
    r1.require_floor(7, "read-modify-write facts")
    rules.append(r1)

    # ---------------------------------------------------------------- D2 (syntax level)
    r2 = Rule("C19-D2-writer-reader-table", "D2",
              "the keys written under plugins.typegen by save_to_tauri_config and the keys read by from_tauri_config are the same set, "
              "each bound to the same GenerateConfig field",
              "a key written under one spelling and read under another (or bound to another field) does not round-trip")
    wf = S.fn("GenerateConfig", "save_to_tauri_config")
    rf = S.fn("GenerateConfig", "from_tauri_config")
    writer = {}
    reader = {}
    if wf is None or rf is None:
        r2.bad(V(r2.id, "<anchor>", "missing:writer-or-reader", "cannot find save_to_tauri_config/from_tauri_config in the sources"))
    else:
        from srclib import walk_block_deep
        for e in walk_block_deep(S, wf):
            if e.get("k") == "macro" and e["name"] == "json" and "self" in e["tokens"]:
                for m in re.finditer(r'"(\w+)"\s*:\s*self\s*\.\s*(\w+)', e["tokens"]):
                    writer[m.group(1)] = m.group(2)
            # the same object built entry by entry: `section.insert("projectPath".to_string(), Value::String(self.project_path.clone()))`
            if e.get("k") == "mcall" and e["method"] == "insert" and len(e.get("args", [])) == 2:
                kt = lit_str(e["args"][0]) or re.sub(r'^"(\w+)"\s*\.\s*(to_string|to_owned|into)\(\)$', r"\1", expr_text(e["args"][0]))
                mf = re.search(r"\bself\s*\.\s*(\w+)", expr_text(e["args"][1]))
                if re.fullmatch(r"\w+", kt or "") and kt not in ("plugins", "typegen") and mf:
                    writer.setdefault(kt, mf.group(1))
        # reader: `if let Some(x) = typegen.get("key")... { config.field = .. }`
        # local typed views of the section (`let text = |key: &str| typegen.get(key).and_then(|v| v.as_str());`): a closure whose body looks its own
        # parameter up with `.get(..)`; `text("projectPath")` then reads that key
        from srclib import pat_bindings as _pb
        getters = set()
        def _lets(stmts):
            for s_ in stmts:
                if s_.get("k") == "let" and s_.get("init") is not None:
                    yield s_
                for x_ in ([s_.get("init")] if s_.get("k") == "let" else [s_.get("e")]):
                    if isinstance(x_, dict):
                        for y_ in walk(x_):
                            for key_ in ("then", "stmts", "body", "else"):
                                if isinstance(y_.get(key_), list):
                                    yield from _lets([z_ for z_ in y_[key_] if isinstance(z_, dict) and z_.get("k") in ("let", "expr")])
        for s_ in _lets(rf.body):
            init_ = s_["init"]
            if init_.get("k") == "closure" and s_["pat"].get("k") == "ident":
                params_ = {b_ for p_ in init_.get("params", []) for b_ in _pb(p_)}
                if any(x.get("k") == "mcall" and x["method"] == "get" and x["args"] and x["args"][0].get("k") == "path" and x["args"][0]["segs"][-1] in params_ for x in walk(init_["body"])):
                    getters.add(s_["pat"]["name"])
        for e in walk_block(rf.body):
            if e.get("k") != "if":
                continue
            keys = [lit_str(x["args"][0]) for x in walk(e["cond"]) if x.get("args") and lit_str(x["args"][0]) and (
                (x.get("k") == "mcall" and x["method"] == "get") or (x.get("k") == "call" and x["func"].get("k") == "path" and len(x["func"]["segs"]) == 1 and x["func"]["segs"][0] in getters))]
            if not keys:
                continue
            key = keys[0]
            if key in ("plugins", "typegen"):
                continue
            for s in e["then"]:
                for x in ([s["e"]] if s.get("k") == "expr" else []):
                    for y in walk(x):
                        if y.get("k") == "assign" and y["l"].get("k") == "field" and expr_text(y["l"]["base"]) == "config":
                            reader.setdefault(key, y["l"]["member"])
        for k in sorted(set(writer) | set(reader)):
            if k in writer and k in reader and writer[k] == reader[k]:
                r2.ok('"%s" ↔ GenerateConfig.%s on both sides' % (k, writer[k]))
            elif k in writer and k not in reader:
                r2.bad(V(r2.id, "GenerateConfig", "written-not-read:%s" % k, 'key "%s" (field %s) is written but never read back' % (k, writer[k])))
            elif k in reader and k not in writer:
                r2.bad(V(r2.id, "GenerateConfig", "read-not-written:%s" % k, 'key "%s" (field %s) is read but never written' % (k, reader[k])))
            else:
                r2.bad(V(r2.id, "GenerateConfig", "field-mismatch:%s" % k, 'key "%s" is written from field %s but read into field %s' % (k, writer[k], reader[k])))
        # section
        rsec = [lit_str(x["args"][0]) for x in walk_block(rf.body) if x.get("k") == "mcall" and x["method"] == "get" and x["args"] and lit_str(x["args"][0]) in ("plugins", "typegen")]
        def sec_of(a_):
            t_ = lit_str(a_) or re.sub(r'^"(\w+)"\.(to_string|to_owned|into)\(\)$', r"\1", expr_text(a_))
            return t_ if t_ in ("plugins", "typegen") else None
        wsec = [sec_of(x["args"][0]) for x in walk_block_deep(S, wf) if x.get("k") == "mcall" and x["method"] in ("get_mut", "insert", "contains_key", "entry", "get") and x["args"] and sec_of(x["args"][0])]
        if set(rsec) == {"plugins", "typegen"} and set(wsec) == {"plugins", "typegen"}:
            r2.ok("both sides use the section plugins.typegen")
        else:
            r2.bad(V(r2.id, "GenerateConfig", "section", "reader sections %s / writer sections %s" % (rsec, wsec)))
    r2.require_floor(8, "config keys")
    rules.append(r2)

    # ---------------------------------------------------------------- D3
    r3 = Rule("C19-D3-precedence", "D3",
              "run_generate assigns each of project_path/output_path/validation_library/verbose/visualize_deps/force from its CLI value under exactly "
              "that value's presence, after the configuration load, with no later overwrite, before validate(); GenerateConfig::default() is used "
              "only when no configuration file is given",
              "a flag applied before the file is loaded (or a default applied over a file value) breaks flag > file > default")
    # "presence" must mean "given on the command line": an Option-typed flag of the generate sub-command that clap fills with a default is
    # always Some(..) and overrides the file value although the user did not pass it
    tc = S.enums.get("TypegenCommands")
    if tc is None:
        r3.bad(V(r3.id, "<anchor>", "missing:TypegenCommands", "anchor not found"))
    else:
        for var in tc["variants"]:
            if var["name"] != "Generate":
                continue
            for fld in var.get("fields", []):
                toks = " ".join(a["tokens"] for a in fld.get("attrs", []) if a["path"] in (["arg"], ["clap"]))
                dflt = re.search(r"\b(default_value(_t|_os|_ifs?|s)?|default_missing_value)\b", toks)
                opt = re.sub(r"\s+", "", fld.get("ty", "")).startswith("Option<")
                if opt and dflt:
                    r3.bad(V(r3.id, "TypegenCommands::Generate", "flag-has-clap-default:%s" % fld["name"],
                             "--%s is an Option with a clap %s: it is Some(..) even when absent, so the default overrides the value from the configuration file" % (fld["name"], dflt.group(1))))
                elif opt:
                    r3.ok("generate flag %s: absent = None" % fld["name"])
                elif not opt and fld.get("ty", "").strip() != "bool" and dflt:
                    r3.bad(V(r3.id, "TypegenCommands::Generate", "flag-has-clap-default:%s" % fld["name"], "flag %s carries a clap default and cannot express absence" % fld["name"]))
    check_default_sources(S, r3)
    check_no_early_reads(P, r3)
    rg = P.fns.get("cargo_tauri_typegen::run_generate")
    if rg is None:
        r3.bad(V(r3.id, "<anchor>", "missing:run_generate", "anchor not found"))
    else:
        assigns = {}
        for b, blk in enumerate(rg.blocks):
            if b not in rg.reach_blocks:
                continue
            for st in blk["stmts"]:
                if "lhs" not in st:
                    continue
                pj = st["lhs"].get("p", [])
                if pj and pj[-1]["k"] == "field" and pj[-1].get("adt") == CFG and pj[-1].get("name") in OVERRIDES:
                    assigns.setdefault(pj[-1]["name"], []).append((b, st))
            t = blk["term"]
            if t["k"] == "call":
                pj = t["dest"].get("p", [])
                if pj and pj[-1]["k"] == "field" and pj[-1].get("adt") == CFG and pj[-1].get("name") in OVERRIDES:
                    assigns.setdefault(pj[-1]["name"], []).append((b, {"lhs": t["dest"], "call": True}))
        vcalls = [c for c in rg.calls if c.best == VALIDATE]
        for name in OVERRIDES:
            sites = assigns.get(name, [])
            if len(sites) != 1:
                r3.bad(V(r3.id, rg.id, "override-sites:%s:%d" % (name, len(sites)), "expected exactly one CLI override of config.%s, found %d" % (name, len(sites))))
                continue
            b, st = sites[0]
            conds = rg.must_conditions(b, sequencing=False)
            from rulelib import cli_value_cond
            # (the presence test may be spelled `flag.is_some()` instead of a pattern: the same single guard)
            via_is_some = False
            if len(conds) == 1 and re.fullmatch(r"call Option::is_some\(\)=true", conds[0]):
                for (a_, lab_) in rg.edge_dominators(b):
                    o_, out_ = rg.cond_struct(a_, lab_)
                    if o_[0] == "call" and o_[1].name == "is_some" and out_ == "true" and o_[1].args:
                        so_ = rg.origin(o_[1].args[0])
                        txt_ = rg.describe_origin(so_, deep=2)
                        if cli_value_cond(txt_ + "=Some", name) == "Some":
                            via_is_some = True
            if len(conds) == 1 and (cli_value_cond(conds[0], name) in ("Some", "true") or via_is_some):
                r3.ok("config.%s overridden under exactly %s" % (name, conds[0]))
            else:
                r3.bad(V(r3.id, rg.id, "override-guard:%s:%s" % (name, ",".join(conds)),
                         "config.%s is assigned under %s; expected exactly the presence of the --%s flag" % (name, conds, name.replace("_", "-"))))
            # no later overwrite of the variable/field
            L = st["lhs"]["l"]
            after = blocks_reachable_from(rg, b)
            for b2 in sorted(after):
                for st2 in rg.blocks[b2]["stmts"]:
                    if "lhs" in st2 and st2["lhs"]["l"] == L and st2 is not st:
                        pj2 = st2["lhs"].get("p", [])
                        fld = pj2[-1].get("name") if pj2 and pj2[-1]["k"] == "field" else None
                        if not pj2 or fld == name:
                            r3.bad(V(r3.id, rg.id, "overwritten-after-flag:%s" % name, "config.%s (or the whole configuration) is overwritten after the flag was applied" % name))
                t2 = rg.blocks[b2]["term"]
                if t2["k"] == "call" and t2["dest"]["l"] == L and not t2["dest"].get("p"):
                    r3.bad(V(r3.id, rg.id, "reloaded-after-flag:%s" % name, "the configuration is re-loaded after --%s was applied" % name))
            # decided before validate()
            for vc in vcalls:
                sw = [a for (a, lab) in rg.edge_dominators(b)]
                if sw and all(rg.dominates(a, vc.bb) for a in sw):
                    r3.ok(None)
                else:
                    r3.bad(V(r3.id, rg.id, "override-after-validate:%s" % name, "config.%s can be overridden after validate() ran" % name))
        if not vcalls:
            r3.bad(V(r3.id, rg.id, "no-validate", "run_generate does not validate the effective configuration"))
        for c in rg.calls:
            if c.best.endswith("GenerateConfig as core::default::Default>::default") or short_path(c.best).endswith("Default>::default") and "GenerateConfig" in c.best:
                conds = rg.must_conditions(c.bb)
                from rulelib import cli_value_cond
                if any(cli_value_cond(x_, "config_file") == "None" for x_ in conds):
                    r3.ok("default configuration only under config_file=None")
                else:
                    r3.bad(V(r3.id, rg.id, "default-with-file", "GenerateConfig::default() is used although a configuration file was given (guards %s)" % conds, c.file, c.line))
                # ... and only *because* no file is there: a default chosen because other command-line values are present ("everything is given
                # anyway") skips the discovered file, whose verbose / force / visualizeDeps / typeMappings no flag replaces
                others = []
                for (a_, lab_) in rg.edge_dominators(c.bb):
                    o_, out_ = rg.cond_struct(a_, lab_)
                    subj = None
                    if o_[0] == "call" and o_[1].name in ("is_some", "is_none", "is_some_and", "is_none_or") and o_[1].args:
                        subj = rg.origin(o_[1].args[0])
                    elif o_[0] in ("arg", "proj"):
                        subj = o_
                    fields_ = []
                    while subj is not None and subj[0] in ("proj", "ref") and isinstance(subj[1], tuple):
                        if subj[0] == "proj":
                            fields_ = [str(pj).split(".")[-1] for pj in subj[2] if isinstance(pj, str) and re.search(r"[A-Za-z_]\w*\.[a-z_]\w*$", pj) and not pj.startswith(("as:", "std::", "core::"))] + fields_
                        subj = subj[1]
                    # (the command-line values may arrive as fields of one parameter struct: `cli.config_file`)
                    name_ = fields_[-1] if fields_ else (subj[2] if subj is not None and subj[0] == "arg" and len(subj) > 2 else None)
                    if subj is not None and subj[0] == "arg" and name_ not in (None, "config_file") and rg.arg_count >= subj[1]:
                        others.append(str(name_))
                if others:
                    r3.bad(V(r3.id, rg.id, "default-because-flags-given:%s" % ",".join(sorted(set(others))), "GenerateConfig::default() is chosen under a test of the "
                             "command-line value(s) %s: a configuration file that discovery would find is skipped, and with it every setting no flag replaces" % sorted(set(others)), c.file, c.line))
    r3.require_floor(8, "override facts")
    check_first_config_wins(P, r3)
    rules.append(r3)

    # ---------------------------------------------------------------- D4
    r4 = Rule("C19-D4-validate-before-write", "D4",
              "in run_generate, run_init and generate_from_config every call that can reach a filesystem mutation is dominated by the success "
              "edge of GenerateConfig::validate (directly or via from_file/from_tauri_config of the same value); validate rejects libraries other than "
              "zod/none and non-existent project paths",
              "writing before validating leaves a half-initialised project behind when the settings are rejected")
    for fid in ("cargo_tauri_typegen::run_generate", "cargo_tauri_typegen::run_init", "tauri_typegen::interface::generate_from_config"):
        g = P.fns.get(fid)
        if g is None:
            r4.bad(V(r4.id, "<anchor>", "missing:" + fid, "anchor not found"))
            continue
        vs = [c for c in g.calls if c.best == VALIDATE]
        vedges = [continue_edge_of_try(g, v) for v in vs]
        vedges = [e for e in vedges if e]
        for c in g.calls:
            mut = is_fs_mut(c) or any(fsreach(t) for t in P.targets(c))
            if not mut:
                continue
            if fid.endswith("run_init") and c.best == "cargo_tauri_typegen::run_generate":
                r4.ok("run_init → run_generate validates on its own")
                continue
            ed = g.edge_dominators(c.bb)
            if any(e in ed for e in vedges):
                r4.ok("%s: %s dominated by validate()? success" % (short_path(fid), short_path(c.best)))
            else:
                r4.bad(V(r4.id, fid, "write-before-validate:%s" % short_path(c.best),
                         "%s can mutate the filesystem before the configuration was validated" % c.best, c.file, c.line))
    vf = P.fns.get(VALIDATE)
    if vf is None:
        r4.bad(V(r4.id, "<anchor>", "missing:validate", "anchor not found"))
    else:
        lits = set()
        for c in vf.calls:
            if c.exp:
                continue  # format!/error text
            for i in range(len(c.args)):
                s = c.arg_str(i)
                if s:
                    lits.add(s)
        # string patterns of a `match` on &str compile to eq calls with constants
        for blk in vf.blocks:
            for st in blk["stmts"]:
                rv = st.get("rv")
                if rv and rv["k"] == "use":
                    k = op_const(rv["op"])
                    if k and "str" in k:
                        lits.add(k["str"])
        # the accepted names kept in a constant table / a matches! guard (syntax tree: constants of other items are not part of this body's MIR)
        from srclib import literal_set_guard
        vsf = S.fn("GenerateConfig", "validate")
        if vsf is not None:
            for e in walk_block(vsf.body):
                conds_ = [e["cond"]] if e.get("k") == "if" and e["cond"].get("k") != "letcond" else []
                if e.get("k") == "unary" and e.get("op") == "!":
                    conds_.append(e["expr"])
                for c_ in conds_:
                    while c_.get("k") in ("paren",) or (c_.get("k") == "unary" and c_.get("op") == "!"):
                        c_ = c_["expr"]
                    g_ = literal_set_guard(S, c_)
                    if g_ is not None:
                        lits |= set(g_[1])
        if {"zod", "none"} <= lits and not (lits - {"zod", "none"} - {l for l in lits if " " in l or ":" in l}):
            r4.ok("validate accepts exactly {zod, none}")
        else:
            r4.bad(V(r4.id, VALIDATE, "accepted-libraries:%s" % ",".join(sorted(l for l in lits if " " not in l)), "validate accepts %s" % sorted(lits)))
        if any(strip_generics(c.path) == "std::path::Path::exists" for c in vf.calls):
            r4.ok("validate checks that the project path exists")
        else:
            r4.bad(V(r4.id, VALIDATE, "no-path-check", "validate does not check the project path"))
        errs = sum(1 for blk in vf.blocks for st in blk["stmts"] if st.get("rv", {}).get("k") == "aggr" and st["lhs"]["l"] == 0 and st["rv"].get("variant") == "Err")
        if errs >= 2:
            r4.ok("validate has %d Err returns" % errs)
        else:
            r4.bad(V(r4.id, VALIDATE, "err-returns:%d" % errs, "validate has %d Err returns (expected >= 2)" % errs))
    check_validation_dispatch_agreement(S, r4)
    r4.require_floor(9, "validation facts")
    rules.append(r4)

    # ---------------------------------------------------------------- D5: init really writes what it was given
    r5 = Rule("C19-D5-init-writes", "D5",
              "every path through run_init that returns Ok has passed GenerateConfig::save_to_tauri_config or save_to_file with the configuration built from the "
              "arguments; the write may be skipped only under an equality test of the whole stored configuration with the new one",
              "an init that skips the write because *some* settings already match drops the ones it did not compare (verbose, visualizeDeps): what the user "
              "asked for cannot be read back")
    SAVES = ("GenerateConfig::save_to_file", "GenerateConfig::save_to_tauri_config")
    for f in [g for fid, g in P.fns.items() if fid.endswith("::run_init") and fid in reach]:
        wr = {c.bb for c in f.calls if short_path(c.best) in SAVES and c.bb in f.reach_blocks}
        oks_ = []
        for b in sorted(f.reach_blocks):
            for st in f.blocks[b]["stmts"]:
                rv = st.get("rv")
                if rv and "lhs" in st and st["lhs"]["l"] == 0 and not st["lhs"].get("p") and rv["k"] == "aggr" and rv.get("variant") == "Ok":
                    oks_.append(b)
        if not wr or not oks_:
            r5.bad(V(r5.id, f.id, "init-write-shape:%d:%d" % (len(wr), len(oks_)), "run_init: %d configuration writes, %d Ok returns" % (len(wr), len(oks_))))
            continue

        def avoiding(start):
            """blocks reachable from `start` without passing a configuration write.  A Result that a spliced-in helper assigned as `Err(..)`
            (or `Ok(..)`) and that the caller then takes apart with `?` is followed along the matching edge only: the state carried with each
            block is which locals are known to hold which variant"""
            def step_state(b_, st0):
                st1 = dict(st0)
                for s_ in f.blocks[b_]["stmts"]:
                    lhs_ = s_.get("lhs")
                    if lhs_ is None:
                        continue
                    if lhs_.get("p"):
                        st1.pop(lhs_["l"], None)
                        continue
                    rv_ = s_.get("rv") or {}
                    if rv_.get("k") == "aggr" and rv_.get("variant") in ("Ok", "Err", "Continue", "Break") and rv_.get("agg") != "closure":
                        st1[lhs_["l"]] = rv_["variant"]
                    elif rv_.get("k") == "use":
                        q_ = op_place(rv_["op"])
                        if q_ is not None and not q_.get("p") and q_["l"] in st1:
                            st1[lhs_["l"]] = st1[q_["l"]]
                        else:
                            st1.pop(lhs_["l"], None)
                    elif rv_.get("k") == "discr" and not rv_["place"].get("p") and rv_["place"]["l"] in st1:
                        st1[lhs_["l"]] = "discr:" + st1[rv_["place"]["l"]]
                    else:
                        st1.pop(lhs_["l"], None)
                t0 = f.blocks[b_]["term"]
                if t0["k"] == "call" and not t0["dest"].get("p"):
                    c0 = f.call_at(b_)
                    a0 = op_place(t0["args"][0]) if t0["args"] else None
                    if c0 is not None and c0.name == "branch" and a0 is not None and not a0.get("p") and st1.get(a0["l"]) in ("Ok", "Err"):
                        st1[t0["dest"]["l"]] = "Continue" if st1[a0["l"]] == "Ok" else "Break"
                    else:
                        st1.pop(t0["dest"]["l"], None)
                return st1
            seen_ = {(start, ())}
            work_ = [(start, {})]
            out_ = {start}
            while work_:
                b_, st0 = work_.pop()
                if b_ in wr:
                    continue
                st1 = step_state(b_, st0)
                t0 = f.blocks[b_]["term"]
                for (lab_, t_) in f.succ_edges(b_):
                    if t0["k"] == "switch":
                        d_ = op_place(t0["discr"])
                        known = st1.get(d_["l"]) if d_ is not None and not d_.get("p") else None
                        if isinstance(known, str) and known.startswith("discr:"):
                            outcome_ = f.cond_struct(b_, lab_)[1]
                            if known[6:] not in str(outcome_).split("|"):
                                continue            # this edge contradicts the variant assigned on the way here
                    key_ = (t_, tuple(sorted(st1.items())))
                    if key_ not in seen_ and len(seen_) < 20000:
                        seen_.add(key_)
                        out_.add(t_)
                        work_.append((t_, st1))
            return out_
        if not any(b in avoiding(0) for b in oks_):
            r5.ok("run_init: every Ok return is preceded by the configuration write")
            continue
        why = []
        justified = True
        for wb in sorted(wr):
            for (bb, keep, lose) in f.filter_branches(0, wb):
                for lab in lose:
                    tgt_ = dict(f.succ_edges(bb))[lab]
                    if not any(b in avoiding(tgt_) for b in oks_):
                        continue
                    o, outcome = f.cond_struct(bb, lab)
                    neg = False
                    while o[0] == "un" and o[1] == "Not":
                        o = o[2]
                        neg = not neg
                    want = (outcome == "true") != neg
                    if o[0] == "call" and o[1].name in ("eq", "ne") and "GenerateConfig" in (o[1].self_ty or "") + " ".join(o[1].generics) and want == (o[1].name == "eq"):
                        why.append("whole-config equality")
                    else:
                        justified = False
                        why.append("%s=%s" % (f.describe_origin(o)[:60], outcome))
        if justified and why:
            r5.ok("run_init skips the write only under %s" % ", ".join(sorted(set(why))))
        else:
            r5.bad(V(r5.id, f.id, "init-ok-without-write", "run_init can return Ok without having written the configuration, under a condition that is not an equality of the whole "
                     "configuration (%s)" % "; ".join(sorted(set(why)))[:200]))
    r5.require_floor(1, "init paths")
    rules.append(r5)

    return finish(
        PROP, ctx, rules,
        "Flow and guard rules over the MIR of save_to_tauri_config (document identity, guarded inserts, no removals), key-table agreement "
        "between writer and reader from the syntax tree, override-guard/ordering rules on run_generate, validate-dominates-write on the CLI paths.",
        ["value-level JSON round-trip inside serde_json (number precision, key order)",
         "the build-script path falls back to defaults when its configuration is rejected (outside the statement's command-line clause)"],
        ["serde_json::from_str/to_string_pretty preserve every key and value of a document they are not told to change"])

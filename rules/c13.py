"""C13 — output is a deterministic function of sources and configuration.

Decided clauses:
  D1  UNORD   no iteration over a hash-based collection / directory enumeration reaches an
              order-sensitive sink (ordered container, string building, recursion into such) without a sort
  D2  CALLS   clock / environment / process-identity reads on the analysis+generation path occur only
              in the header construction (GlobalContext::new, the header fallback)
  D3  FLOW    source-layout carriers (line numbers) never reach an output: no template mentions them and
              no output-producing function reads them
  D4  CTRL    code controlled by `verbose` only prints; code controlled by `visualize_deps` only writes its
              own two files and prints
"""
import re

from common import Rule, V, finish
from mirlib import ENTRY_POINTS, short_path, op_const
from rulelib import is_fs_mut, strip_generics, callee_name, loop_exits
from unord import Unord, is_sink_call, STDOUT_MODULE
from shapes import Shaper, render, alternatives
from srclib import tera_all_idents

PROP = "C13"

NONDET_CALLS = {
    "chrono::offset::utc::Utc::now", "chrono::offset::local::Local::now", "std::time::SystemTime::now",
    "std::time::Instant::now", "std::env::var", "std::env::vars", "std::env::args", "std::env::current_dir",
    "std::env::var_os", "std::env::temp_dir", "std::process::id", "std::hash::RandomState::new",
    "std::collections::hash_map::RandomState::new", "std::thread::current",
}
# functions allowed to read the clock: the header's "Generated at" line
HEADER_FNS = ("tauri_typegen::generators::base::templates::GlobalContext::new",
              "tauri_typegen::generators::base::BaseBindingsGenerator::generate_file_header")

# Reviewed exemptions for UNORD leaks that cannot reach a generated file.  Key = (function, site identity).
# Each has a mechanical side condition re-checked on every run where one exists.
UNORD_REVIEWED = {
    ("tauri_typegen::build::output_manager::OutputManager::cleanup_old_files", "next<-read_dir:body-sink:Vec::push"):
        "the Vec of cleaned file names is only counted/printed by finalize_generation (stderr)",
    ("tauri_typegen::build::output_manager::OutputManager::get_generation_metadata", "next<-read_dir:body-sink:Vec::push"):
        "the file list is returned on a cache hit only; it is used as a set (managed files, cleanup filter) and for counts/messages, never written to a generated file",
}


def worklist_locals(f):
    """locals that are receivers of Vec::pop in f (worklists)"""
    out = set()
    for c in f.calls:
        if short_path(c.path) == "Vec::pop" and c.args:
            out.add(_base(f, c.args[0]))
    return out


def _base(f, op):
    from unord import Unord
    return Unord._base_local(None, f, op)


def check(ctx):
    P = ctx.P
    S = ctx.S
    reach = P.reachable(ENTRY_POINTS)
    rules = []
    U = Unord(P)

    # ---------------------------------------------------------------- D1
    r1 = Rule("C13-D1-unordered-iteration", "D1",
              "every consumption of a HashMap/HashSet/read_dir/walkdir iteration reachable from the entry points is erased "
              "(into a map/set, or a body without order-sensitive sink), sorted before use, a confluent worklist, or reviewed",
              "an unsorted hash iteration that reaches a Vec/String makes declaration order (and with it file content) vary between identical runs")
    sites = U.sites([P.fns[x] for x in sorted(reach)])
    for s in sites:
        f = s.fn
        ident = s.ident()
        if s.kind in ("erased", "sorted", "scalar"):
            r1.ok("%s: %s over %s — %s" % (short_path(f.id), s.call.name, s.source, s.why))
            continue
        # confluent worklist: the only ordered thing fed is a Vec that the same function pops until empty
        wl = worklist_locals(f)
        if wl:
            if s.call.name == "collect" and not s.call.dest.get("p"):
                aliases = {s.call.dest["l"]}
                # moved into a named local?
                for blk in f.blocks:
                    for st in blk["stmts"]:
                        rv = st.get("rv")
                        if rv and rv["k"] == "use":
                            from mirlib import op_place
                            p = op_place(rv["op"])
                            if p and p["l"] in aliases and not p.get("p"):
                                aliases.add(st["lhs"]["l"])
                if aliases & wl:
                    r1.ok("%s: %s over %s seeds a worklist (popped until empty; results only enter maps/sets)" % (short_path(f.id), s.call.name, s.source))
                    continue
                # ... or it is a batch that is only ever appended to the worklist (`let found: Vec<_> = set.into_iter().filter(..).collect(); pending.extend(found)`)
                uses_ = [c2 for c2 in f.calls if c2.bb in f.reach_blocks and c2 is not s.call and any(_base(f, a_) in aliases for a_ in c2.args)]
                if uses_ and all(c2.name in ("extend", "append", "extend_from_slice", "into_iter", "len", "is_empty") and (c2.name in ("into_iter", "len", "is_empty") or _base(f, c2.args[0]) in wl) for c2 in uses_) \
                        and any(c2.name in ("extend", "append", "extend_from_slice") for c2 in uses_):
                    r1.ok("%s: %s over %s builds a batch that is only appended to the function's own worklist" % (short_path(f.id), s.call.name, s.source))
                    continue
            if s.call.name == "extend" and s.call.args and _base(f, s.call.args[0]) in wl:
                # `worklist.extend(set.iter().filter(..).cloned())`: the same feeding of the function's own worklist as a push loop
                r1.ok("%s: %s over %s extends the function's own worklist (popped until empty; results only enter maps/sets)" % (short_path(f.id), s.call.name, s.source))
                continue
            if s.call.name == "next" and s.detail.get("key", "").startswith("body-sink:Vec::push") and s.detail["key"] == "body-sink:Vec::push":
                # every Vec::push in the function targets a worklist
                pushes = [c for c in f.calls if short_path(c.path) == "Vec::push"]
                if pushes and all(_base(f, c.args[0]) in wl for c in pushes):
                    r1.ok("%s: loop over %s only pushes onto the function's own worklist" % (short_path(f.id), s.source))
                    continue
        if (f.id, ident) in UNORD_REVIEWED:
            r1.ok("%s: %s — reviewed: %s" % (short_path(f.id), ident, UNORD_REVIEWED[(f.id, ident)]))
            continue
        r1.bad(V(r1.id, f.id, ident,
                 "iteration over %s is consumed by `%s`: %s — the result order depends on the hash seed / directory order"
                 % (s.source, s.call.name, s.why), s.call.file, s.call.line))
    # the worklist justification above ("popped until empty; results only enter maps/sets") holds only while what is *recorded* for an item does not
    # depend on which items were visited before it: a set that is shrunk in place by a predicate reading the visited set (or the worklist) and then
    # handed on makes the recorded content a function of the hash-seeded visiting order.  Filtering what is *queued* by the visited set is the
    # worklist algorithm itself and stays accepted (a conditional push, or `worklist.extend(set.iter().filter(..))`).
    SHRINKERS = {"retain", "retain_mut", "extract_if", "drain_filter"}
    for fid in sorted(reach):
        f = P.fns[fid]
        if "{closure" in fid or "{promoted" in fid:
            continue
        wl = worklist_locals(f)
        if not wl:
            continue
        visited = set()
        for c in f.calls:
            if c.name == "insert" and "HashSet" in (c.path + (c.self_ty or "")) and c.args and c.bb in f.reach_blocks:
                b_ = _base(f, c.args[0])
                if b_ is not None and b_ > f.arg_count:
                    visited.add(b_)
        state = visited | wl
        n_sh = 0
        for c in f.calls:
            if c.name not in SHRINKERS or c.bb not in f.reach_blocks or len(c.args) < 2:
                continue
            recv = _base(f, c.args[0])
            if recv in wl:
                continue
            n_sh += 1
            o = f.origin(c.args[1])
            caps = o[1].get("ops", []) if o[0] == "aggr" and isinstance(o[1], dict) else []
            reads_state = sorted(f.varnames.get(_base(f, a_), "_%s" % _base(f, a_)) for a_ in caps if _base(f, a_) in state and _base(f, a_) != recv)
            if reads_state:
                r1.bad(V(r1.id, fid, "order-dependent-shrink:%s:%s" % (c.name, ",".join(reads_state)),
                         "%s: a set is narrowed in place by a predicate that reads %s (state that depends on the order in which the worklist was served) and is used "
                         "afterwards: what is recorded for an item depends on the hash-seeded visiting order" % (short_path(fid), reads_state), c.file, c.line))
            else:
                r1.ok("%s: %s does not read the visited state" % (short_path(fid), c.name))
        if not n_sh:
            r1.ok("%s: worklist function — nothing but the queue is filtered by the visited state" % short_path(fid))
        # "popped until empty": the pop-driven loop ends only when the worklist is exhausted (or an error is propagated).  Any other way out
        # (a `break` on an already-visited item, say) leaves the items still queued unvisited — which ones depends on the hash-seeded order
        # in which they were queued.
        for pc in [c for c in f.calls if short_path(c.path) == "Vec::pop" and c.bb in f.reach_blocks and c.args and _base(f, c.args[0]) in wl]:
            drv, exits = loop_exits(f, pc.bb, drivers=("pop",))
            if drv is None:
                continue
            for (b_, to_, cond_, kind_) in exits:
                r1.bad(V(r1.id, fid, "worklist-loop-left-early:%s:%s" % (kind_, cond_),
                         "%s: the worklist loop is left by a `%s` under `%s` while items may still be queued — which items stay unvisited depends on the "
                         "hash-seeded order in which they were queued" % (short_path(fid), kind_, cond_), f.blocks[b_]["term"].get("file", pc.file), f.blocks[b_]["term"].get("line", pc.line)))
            if not exits:
                r1.ok("%s: the worklist loop ends only when the worklist is empty (or on `?`)" % short_path(fid))
    # dedup removes *adjacent* duplicates only: on data that was not sorted first, what survives depends on the discovery order of the items
    # (moving an item between files changes the set of declarations)
    for fid in sorted(reach):
        f = P.fns[fid]
        for c in f.calls:
            if c.name in ("dedup", "dedup_by", "dedup_by_key") and "Vec" in (c.self_ty or c.path) and c.bb in f.reach_blocks and fid.startswith(("tauri_typegen", "cargo_tauri_typegen")):
                base = U._base_local(f, c.args[0]) if c.args else None
                sorted_before = False
                for s_ in f.calls:
                    if (s_.name or "").startswith("sort") and s_.args and U._base_local(f, s_.args[0]) == base and f.dominates(s_.bb, c.bb) and U._total_order(f, s_):
                        sorted_before = True
                if sorted_before:
                    r1.ok("%s: %s on a vector sorted just before" % (short_path(fid), c.name))
                else:
                    r1.bad(V(r1.id, fid, "adjacent-dedup:%s" % c.name, "Vec::%s on data that is not sorted first keeps non-adjacent duplicates: the surviving set depends on the order in which items were discovered" % c.name, c.file, c.line))
    if ctx.tier == "thorough":
        # completeness of the type-driven enumeration against an independent enumerator (clippy::iter_over_hash_type): see crossref.py
        import crossref
        names = set()
        for fid in reach:
            base = re.sub(r"::\{closure#\d+\}", "", fid)
            base = re.sub(r"^<(.+?) as .+?>::", lambda m: m.group(1).split("::")[-1] + "::", base)
            base = re.sub(r"::<[^>]*>", "", base)
            parts = base.split("::")
            names.add("::".join(parts[-2:]))
            names.add(parts[-1])
        ours = set((s_.call.file, s_.call.line) for s_ in sites)
        n_all, n_reach, gp = crossref.gaps(ctx, "unord", ours, names)
        for (code, file, line, fn_) in gp:
            r1.bad(V(r1.id, fn_, "enumeration-gap:%s" % code, "%s reports a hash-ordered loop at %s:%d inside the reachable function %s, in which UNORD enumerated no site: the enumeration lost coverage" % (code, file, line, fn_), file, line))
        r1.notes.append("cross-reference: %d lint sites, %d inside reachable functions, %d gaps" % (n_all, n_reach, len(gp)))
        if not gp:
            r1.ok("cross-reference: %d clippy iter_over_hash_type sites, %d in reachable functions, all inside functions where UNORD enumerated sites" % (n_all, n_reach))
    r1.require_floor(12, "reachable unordered-iteration consumption sites")
    rules.append(r1)

    # ---------------------------------------------------------------- D2
    r2 = Rule("C13-D2-clock-and-environment", "D2",
              "on the analysis and generation path (bodies reachable from analyze_project* and generate_models) clock, environment and "
              "process-identity reads occur only in GlobalContext::new / the header fallback, whose value only feeds the header's 'Generated at' line",
              "a timestamp or environment value anywhere else makes two identical runs differ outside the timestamp comment")
    gen_roots = [t for t in P.trait_impls.get("tauri_typegen::generators::base::BaseBindingsGenerator::generate_models", []) if t in P.fns]
    gen_roots += [f.id for f in P.find("CommandAnalyzer::analyze_project_with_verbose")]
    scope = P.reachable(gen_roots)
    if len(gen_roots) < 3:
        r2.bad(V(r2.id, "<anchor>", "roots", "generation roots not found"))
    for fid in sorted(scope):
        f = P.fns[fid]
        for c in f.calls:
            p = strip_generics(c.path)
            if p in NONDET_CALLS or p.endswith("::Utc::now"):
                owner = fid.split("::{closure")[0]
                if owner in HEADER_FNS:
                    r2.ok("%s calls %s (header timestamp)" % (short_path(fid), short_path(p)))
                else:
                    r2.bad(V(r2.id, fid, "nondet:%s" % short_path(p),
                             "%s reads %s on the generation path outside the header construction" % (fid, p), c.file, c.line))
    # timestamp only used by the header template
    users = []
    for rel, t in S.templates.items():
        ids = tera_all_idents(t["ast"])
        if any(i.startswith("global.timestamp") or i == "global" for i in ids):
            users.append(rel)
    if users and all(u.endswith("header.tera") for u in users):
        r2.ok("global.timestamp is mentioned only by %s" % users)
    else:
        r2.bad(V(r2.id, "<templates>", "timestamp-users:%s" % ",".join(sorted(users)),
                 "the generation timestamp is used outside the shared header template: %s" % users))
    # in header.tera the timestamp hole sits on the 'Generated at' line
    for rel in users:
        src = S.templates[rel]["source"]
        for line in src.splitlines():
            if "global.timestamp" in line and "Generated at" not in line:
                r2.bad(V(r2.id, rel, "timestamp-line", "timestamp hole outside the 'Generated at' comment line: %r" % line.strip()))
    r2.require_floor(3, "clock reads + timestamp users")
    rules.append(r2)

    # ---------------------------------------------------------------- D3
    r3 = Rule("C13-D3-layout-carriers", "D3",
              "source positions (line_number) never reach an output: no rendered template mentions lineNumber/filePath and no "
              "string-building function reads a line_number field",
              "inserting a comment or blank line would change generated text")
    LAYOUT_T = re.compile(r"lineNumber|line_number|filePath|file_path")
    for rel, t in sorted(S.templates.items()):
        ids = [i for i in tera_all_idents(t["ast"]) if LAYOUT_T.search(i)]
        if ids:
            r3.bad(V(r3.id, rel, "template-mentions:%s" % ",".join(sorted(set(ids))), "template prints a source-layout carrier: %s" % ids))
        else:
            r3.ok(None)
    r3.samples.append("%d templates, none mentions lineNumber/filePath" % len(S.templates))
    for fid in sorted(reach):
        f = P.fns[fid]
        if "{promoted#" in fid:
            continue
        reads = []
        for blk in f.blocks:
            for st in blk["stmts"]:
                rv = st.get("rv")
                if not rv:
                    continue
                places = []
                if rv["k"] in ("use", "cast"):
                    from mirlib import op_place
                    p = op_place(rv["op"])
                    if p:
                        places.append((p, st))
                elif rv["k"] in ("ref", "copy_for_deref"):
                    places.append((rv["place"], st))
                for p, st_ in places:
                    for pj in p.get("p", []):
                        if pj["k"] == "field" and pj.get("name") == "line_number" and pj.get("adt", "").startswith("tauri_typegen::models::"):
                            reads.append((pj["adt"], st_))
        for adt, st_ in reads:
            # a plain copy into a *Context field is harmless as long as no template prints that field
            from c08 import copy_only_targets, camel
            lhs = st_["lhs"]
            lp = lhs.get("p", [])
            tg = None
            if lp and lp[-1]["k"] == "field" and "template_context" in lp[-1].get("adt", ""):
                tg = {(lp[-1]["adt"], lp[-1]["name"])}
            elif not lp:
                tg = copy_only_targets(f, lhs["l"])
            if tg:
                mentioned = [n for (_, n) in tg if any(LAYOUT_T.search(i) and (camel(n) in i or n in i) for t in S.templates.values() for i in tera_all_idents(t["ast"]))]
                if not mentioned:
                    r3.ok("%s copies %s.line_number into %s, which no template prints" % (short_path(fid), short_path(adt), sorted(n for _, n in tg)))
                    continue
            # a position that only feeds the regeneration digest: everything it flows into inside this function ends in the SHA-256 of the cache
            # record (which decides whether to regenerate and is no generated text), not in the return value, a file or a template context
            def _is_read(pl_, _adt=adt):
                return any(pj_.get("k") == "field" and pj_.get("name") == "line_number" and pj_.get("adt") == _adt for pj_ in pl_.get("p", []))
            T_, hits_ = f.forward_taint(_is_read, barrier=lambda c_: c_ is not None and (short_path(c_.best) == "GenerationCache::compute_hash" or c_.name == "from_residual"))   # (`?`: the error exit carries no text of a generated file)
            leaks_ = [c_ for c_, _ in hits_ if is_fs_mut(c_) or short_path(c_.path) == "Context::insert" or (c_.trait or "").startswith(("std::io::Write", "std::fmt::Write"))]
            digested_ = any(short_path(c_.best) == "GenerationCache::compute_hash" for c_, _ in hits_)
            if digested_ and 0 not in T_ and not leaks_ and fid.startswith("tauri_typegen::build::generation_cache::"):
                r3.ok("%s reads %s.line_number into the regeneration digest only" % (short_path(fid), short_path(adt)))
                continue
            if U._reaches_sink_excluding_stdout(fid) or any(is_sink_call(c) for c in f.calls):
                r3.bad(V(r3.id, fid, "reads:%s.line_number" % short_path(adt),
                         "%s reads %s.line_number and builds output text: generated content depends on source layout" % (fid, adt),
                         f.file, st_.get("line")))
            else:
                r3.ok("%s reads line_number but builds no output text" % short_path(fid))
    # decoy invariance: the per-function inference state (the event parser's symbol table) is created afresh for every function it is
    # seeded for; a table that outlives the loop iteration lets unrelated earlier functions of the same file decide a payload type
    seeders = [(f, c) for fid, f in P.fns.items() if fid in reach for c in f.calls
               if short_path(c.best) == "EventParser::extract_param_types" and c.bb in f.reach_blocks]
    for f, c in seeders:
        o = f.origin(c.args[-1]) if c.args else ("none",)
        while o[0] == "proj":
            o = o[1]
        if o[0] == "call" and o[1].name in ("new", "default", "with_capacity"):
            if f.enclosing_loop_heads(o[1].bb) == f.enclosing_loop_heads(c.bb):
                r3.ok("%s: the symbol table seeded from a function's parameters is created in the same loop iteration" % short_path(f.id))
            else:
                r3.bad(V(r3.id, f.id, "symbol-table-outlives-function", "the symbol table passed to extract_param_types is created outside the per-function loop: "
                         "bindings of earlier functions in the file leak into later payload-type inference", c.file, c.line))
        else:
            r3.bad(V(r3.id, f.id, "symbol-table-origin:%s" % o[0], "the symbol table seeded by extract_param_types is not a freshly created table (%s)" % f.describe_origin(o)[:80], c.file, c.line))
    if not seeders:
        r3.bad(V(r3.id, "<anchor>", "missing:extract_param_types", "anchor not found: where is the event parser's symbol table seeded?"))
    r3.require_floor(13, "templates + line_number reads + symbol-table seeding")
    # a doc comment is an attribute: it must not decide whether an item counts as a serde type (shared with C07-D5 / C02-D4)
    from c07 import check_filter_needs_derive
    check_filter_needs_derive(S, r3)
    rules.append(r3)

    # ---------------------------------------------------------------- D4
    r4 = Rule("C13-D4-verbosity-and-visualisation", "D4",
              "blocks that only run when `verbose` holds contain no filesystem mutation and no order-sensitive/state-changing sink "
              "outside the diagnostics module; blocks that only run when should_visualize_deps() holds mutate only OutDir/dependency-graph.{txt,dot}",
              "output that depends on verbosity or on requesting the visualisation violates independence from those settings")
    Sh = Shaper(P, reach)
    memo = {}
    n_verbose = 0
    n_viz = 0
    for fid in sorted(reach):
        f = P.fns[fid]
        if "{promoted#" in fid or fid.startswith(STDOUT_MODULE):
            continue
        for (a, lab, (o, outcome)) in f.branch_edges():
            if outcome != "true":
                continue
            txt = f.describe_origin(o)
            is_verbose = bool(re.search(r"is_verbose\(\)|^arg:verbose$|\.verbose\b|Logger\.verbose", txt))
            is_viz = "should_visualize_deps()" in txt
            if not (is_verbose or is_viz):
                continue
            region = f.edge_region(a, lab)
            for b in sorted(region):
                c = f.call_at(b)
                if c is None:
                    continue
                targets = P.targets(c)
                if all(t.startswith(STDOUT_MODULE) for t in targets) and targets:
                    continue
                mut = is_fs_mut(c) or any(P.reaches(t, is_fs_mut, memo) for t in targets)
                if is_verbose:
                    n_verbose += 1
                    sink, what = U.call_is_sink(c)
                    state = short_path(c.path) in ("HashMap::insert", "HashSet::insert", "HashMap::remove", "HashSet::remove", "Vec::clear", "Vec::sort", "Vec::retain")
                    # ... or, generally, hands out `&mut` to a value that lives outside the verbose-only block (`commands.sort_by(..)` "for the log"
                    # re-orders what generation receives afterwards); reporters, loggers and formatters are what such a block is for
                    if not state:
                        for i_, ty_ in enumerate(c.term.get("arg_tys", [])):
                            if not ty_.startswith("&mut ") or re.search(r"Formatter|Stdout|Stderr|ProgressReporter|Logger|StdoutLock|dyn std::io::Write|dyn std::fmt::Write", ty_):
                                continue
                            L_ = U._base_local(f, c.args[i_]) if i_ < len(c.args) else None
                            if L_ is None:
                                continue
                            outer = L_ <= f.arg_count or any(d_[0] == "arg" or (d_[0] in ("stmt", "call") and d_[1] not in region) for d_ in f.defs.get(L_, []))
                            if outer:
                                state = True
                    if mut or sink or state:
                        r4.bad(V(r4.id, fid, "verbose-controls:%s" % short_path(c.best),
                                 "a block that runs only when verbose is set %s (%s)" % ("mutates the filesystem" if mut else "changes program state", c.best), c.file, c.line))
                    else:
                        r4.ok(None)
                if is_viz:
                    if mut:
                        n_viz += 1
                        if is_fs_mut(c):
                            sh = Sh.shape_op(f, c.args[0])
                            okp = all(a_[0] == "join" and a_[1] == ("field", "OUTDIR") and a_[2][0] == "lit" and a_[2][1] in ("dependency-graph.txt", "dependency-graph.dot")
                                      for a_ in alternatives(sh))
                            if okp:
                                r4.ok("%s: visualisation writes %s" % (short_path(fid), render(sh)))
                            else:
                                r4.bad(V(r4.id, fid, "viz-controls-write:%s" % render(sh),
                                         "requesting the visualisation changes another file: %s" % render(sh), c.file, c.line))
                        else:
                            # a callee that writes: its own sites are checked by C16; here require it is the visualisation writer
                            def only_graph_files(tids, _seen=None):
                                """every filesystem mutator reachable from these callees writes OutDir/dependency-graph.{txt,dot} (whatever the callee is called)"""
                                _seen = set() if _seen is None else _seen
                                n_w = 0
                                for tid in tids:
                                    for gid in P.reachable([tid]):
                                        if gid in _seen or gid not in P.fns:
                                            continue
                                        _seen.add(gid)
                                        g2 = P.fns[gid]
                                        for c3 in g2.calls:
                                            if is_fs_mut(c3) and c3.bb in g2.reach_blocks:
                                                n_w += 1
                                                alts_ = alternatives(Sh.shape_op(g2, c3.args[0]))
                                                if not all(a_[0] == "join" and a_[2][0] == "lit" and a_[2][1] in ("dependency-graph.txt", "dependency-graph.dot") for a_ in alts_):
                                                    return False
                                return n_w > 0
                            if all("visualization" in t or "visualize" in t for t in targets) or only_graph_files(targets):
                                r4.ok("%s: visualisation block calls %s" % (short_path(fid), short_path(c.best)))
                            else:
                                r4.bad(V(r4.id, fid, "viz-controls:%s" % short_path(c.best),
                                         "requesting the visualisation runs another mutating step: %s" % c.best, c.file, c.line))
    r4.samples.append("%d calls in verbose-only regions inspected, %d mutating calls in visualisation-only regions" % (n_verbose, n_viz))
    r4.require_floor(20, "calls inside verbose-/visualisation-controlled regions")
    rules.append(r4)

    # ---------------------------------------------------------------- D5
    r5 = Rule("C13-D5-file-placement", "D5",
              "the per-file pass of analyze_project_with_verbose only *fills* the cross-file type-definition index (TypeDependencyGraph::add_type_definition); "
              "nothing inside that loop — its body, the closures it creates, the functions they call — *queries* the index, which at that point knows "
              "only the files that sort before the current one",
              "a decision taken on the half-built index depends on which file an item lives in: moving an unchanged struct to another file changes the output")
    FILL = {"TypeDependencyGraph::add_type_definition"}
    QUERY = {"TypeDependencyGraph::has_type_definition", "TypeDependencyGraph::get_type_definition_path", "TypeDependencyGraph::get_resolved_types",
             "TypeDependencyGraph::get_dependencies", "TypeDependencyGraph::topological_sort_types", "TypeDependencyGraph::visualize_dependencies",
             "TypeDependencyGraph::generate_dot_graph"}
    memo_f = {}
    n_loops = 0
    for f in P.find("CommandAnalyzer::analyze_project_with_verbose"):
        fills = [c for c in f.calls if c.bb in f.reach_blocks and any(P.reaches(t, lambda k: short_path(k.best) in FILL, memo_f) for t in P.targets(c))]
        if not fills:
            r5.bad(V(r5.id, f.id, "missing:index-fill", "anchor not found: the per-file pass does not fill the type-definition index"))
            continue
        for fc in fills:
            loops = [body for (h, body) in f._natural_loops() if fc.bb in body]
            if not loops:
                r5.notes.append("index filled outside a loop at line %s" % fc.line)
                continue
            n_loops += 1
            body = max(loops, key=len)      # the outermost loop around the fill: the pass over the files
            entries = set()
            direct = []
            for b in sorted(body):
                for st in f.blocks[b]["stmts"]:
                    rv = st.get("rv")
                    if rv and rv["k"] == "aggr" and rv.get("agg") in ("closure", "coroutine", "coroutine_closure") and rv.get("closure") in P.fns:
                        entries.add(rv["closure"])
                c = f.call_at(b)
                if c is not None:
                    if short_path(c.best) in QUERY:
                        direct.append(c)
                    entries.update(P.targets(c))
                    for a in c.args:
                        k = a.get("const") if isinstance(a, dict) else None
                        if k and k.get("closure") in P.fns:
                            entries.add(k["closure"])
            inner = P.reachable(entries)
            hits = [(f, c) for c in direct]
            for gid in sorted(inner):
                g = P.fns[gid]
                for c in g.calls:
                    if short_path(c.best) in QUERY and c.bb in g.reach_blocks:
                        hits.append((g, c))
            if hits:
                for (g, c) in hits:
                    r5.bad(V(r5.id, g.id, "partial-index-queried:%s" % short_path(c.best).split("::")[-1],
                             "%s is called inside the per-file pass (through %s) while the index only holds the files analysed so far" % (short_path(c.best), short_path(g.id)), c.file, c.line))
            else:
                r5.ok("per-file pass (%d blocks, %d functions below it) never queries the type-definition index" % (len(body), len(inner)))
    if not n_loops:
        r5.bad(V(r5.id, "<anchor>", "missing:per-file-loop", "anchor not found: no loop fills the type-definition index"))
    r5.require_floor(1, "per-file passes")
    rules.append(r5)

    return finish(
        PROP, ctx, rules,
        "Type-driven enumeration of every unordered-iteration consumer reachable from the entry points with automatic "
        "erased/sorted/worklist classification; who-may-call for clock/environment reads; field-read flow of layout carriers; "
        "control-region inspection of everything guarded by verbose / visualize_deps.",
        ["OS-level ordering effects outside the process",
         "that moving items between files changes at most declaration order is covered only through D1 (order) and D3 (no layout carrier)"],
        ["adaptor types nest their source type (std guarantee of the iterator type structure), so hash-based sources are found by type",
         "tauri_typegen::interface::output only prints (re-checked: reaches no filesystem mutator)"])

"""C11 — validator attributes become exactly the declared Zod constraints.

Rendering side (decided):
  D1  SV     for every (min?, max?, message?) combination apply_length_validator / apply_range_validator append exactly
             .min(<min>[, { message: "<escaped msg>" }]) then .max(<max>[, ...]); .email()/.url() iff val.email / val.url;
             no validator or skip_validation returns the schema unchanged; the escaper escapes `\\` first, then `"`, newline, CR, tab
  D2  SV     applicability: arrays get the length validator, strings the string validators, numbers the range validator,
             Option forwards the validator to its inner type; elements of containers are rendered without validators
  D3  FLOW   build_schema receives type structure and validator attributes of the same field
Parsing side (structural only):
  D4  CALLS  attribute recognition must be token-structured: a str::contains / str::find on the token *string* that decides which
             validator is present or where a value starts is reported (one finding per parsing function, keyed by its literal set)
"""
import re

from common import Rule, V, finish
from mirlib import ENTRY_POINTS, short_path
from srclib import stmt_exprs, walk_block, walk, lit_str, expr_text
from svlib import SVEval, render, leaves
from c05 import constructor_of

PROP = "C11"


def pieces(sv):
    return list(sv[1]) if sv[0] == "cat" else [sv]


def parse_chain(sv, schema_var):
    """-> (ok, [(method, numhole_name, msg_escaped: None|True|False)], why)"""
    ps = pieces(sv)
    if not ps or ps[0] != ("var", schema_var):
        return False, [], "result does not start with the incoming schema"
    out = []
    i = 1
    while i < len(ps):
        p = ps[i]
        if p[0] != "lit":
            return False, out, "unexpected piece %s" % render(p)
        txt = p[1]
        m = re.fullmatch(r"(?:\)|\" \}\))?\.(min|max)\(", txt)
        if not m:
            if txt in (")", "\" })") and i == len(ps) - 1:
                break
            return False, out, "unexpected literal %r" % txt
        meth = m.group(1)
        if i + 1 >= len(ps) or ps[i + 1][0] not in ("num", "var"):
            return False, out, "missing bound after .%s(" % meth
        hole = ps[i + 1][1]
        i += 2
        esc = None
        if i < len(ps) and ps[i][0] == "lit" and ps[i][1] == ", { message: \"":
            if i + 1 < len(ps) and ps[i + 1][0] == "call" and ps[i + 1][1] in ("escape_js_string", "escape_for_js"):
                esc = True
                msg = ps[i + 1][2][0] if ps[i + 1][2] else None
                if msg is None or msg[0] != "var" or not msg[1].endswith("message"):
                    return False, out, "message argument is %s" % render(ps[i + 1])
            else:
                esc = False
            i += 2
        out.append((meth, hole, esc))
    return True, out, ""


def flags_from_conds(conds):
    pos = [c for c in conds if not c.startswith("not(")]
    txt = " & ".join(pos)
    both = bool(re.search(r"\(Some\(min\), Some\(max\)\)", txt))
    has_min = both or bool(re.search(r"if-let Some\(min\)", txt))
    has_max = both or bool(re.search(r"if-let Some\(max\)", txt))
    has_msg = bool(re.search(r"if-let Some\((ref )?msg\)", txt))
    return has_min, has_max, has_msg


def param_roles(fn):
    """(names of the bool parameters = skip flags, name of the first &str parameter = the schema text being decorated): by type, not by spelling"""
    bools = set()
    schema = "schema"
    found = False
    for p in fn.sig.get("params", []):
        if not p.get("pat"):
            continue
        ty = re.sub(r"\s+", "", p.get("ty") or "")
        if ty == "bool":
            bools.add(p["pat"].get("name"))
        if not found and ty in ("&str", "&String", "String"):
            schema = p["pat"].get("name")
            found = True
    return bools, schema


def check(ctx):
    P = ctx.P
    S = ctx.S
    ev = SVEval(S)
    rules = []

    def sb(name):
        f = [x for x in S.fns if x.owner == "ZodSchemaBuilder" and x.name == name and x.body is not None]
        return f[0] if f else None

    # ---------------------------------------------------------------- D1
    r1 = Rule("C11-D1-constraint-chains", "D1",
              "for each control path of apply_length_validator and apply_range_validator the appended text is .min(min)[message] then .max(max)[message] "
              "for exactly the bounds that are present, each bound hole bound to the homonymous field, messages through the escaper; "
              ".email()/.url() are guarded by exactly val.email / val.url; without validator (or with skip_validation) the schema is returned unchanged",
              "a swapped bound, an unescaped message or a constraint emitted under the wrong flag changes what the schema enforces")
    for fname, kind in (("apply_length_validator", "length"), ("apply_range_validator", "range")):
        fn = sb(fname)
        if fn is None:
            r1.bad(V(r1.id, "<anchor>", "missing:" + fname, "anchor not found"))
            continue
        combos = set()
        skipflags, schemavar = param_roles(fn)
        from svlib import select_path
        all_paths = ev.fn_paths(fn, None, lambda n: None)
        active = []
        for conds, sv in all_paths:
            ctext = " & ".join(conds)
            passthrough = sv == ("var", schemavar)
            inactive = any(c in skipflags for c in conds) or any(re.search(r"^(\w+(\.\w+)*) is None$", c) for c in conds)
            # the skip flag as a two-valued enum instead of a bool (`validation == Validation::Skip`): the path taken under an equality test on a
            # mode parameter that leaves the schema as it is
            modes = [p_["pat"].get("name") for p_ in fn.sig.get("params", []) if p_.get("pat") and re.fullmatch(r"[A-Z]\w*", re.sub(r"\s+", "", p_.get("ty") or ""))]
            if not inactive and passthrough and any(re.fullmatch(r"(%s) (==|matches) [\w:]+" % "|".join(map(re.escape, modes)), c) for c in conds if modes):
                inactive = True
            if inactive:
                if passthrough:
                    r1.ok("%s: schema unchanged when %s" % (fname, ([c for c in conds if c in skipflags or c.endswith("is None")] + conds[:1])[0]))
                else:
                    r1.bad(V(r1.id, "ZodSchemaBuilder::" + fname, "inactive-path-changes-schema:%s" % render(sv), "with %s the schema is still modified: %s" % (ctext, render(sv))))
                continue
            active.append((conds, sv))
        # the constraint's own variable (`length` / `range`, whatever it is called): the subject of the .min/.max/.message tests
        cvar = None
        for conds, _sv in active:
            for c in conds:
                m_ = re.search(r"\b(\w+)\.(min|max|message)\b", c)
                if m_:
                    cvar = m_.group(1)
        if cvar is None:
            r1.bad(V(r1.id, "ZodSchemaBuilder::" + fname, "chain-shape:no-bound-tests", "no path tests the bounds of the %s constraint" % kind))
            continue
        # decided as a table over (min, max, message) ∈ {Some, None}³, however the cases are spelled (if-let chain or one match on the triple)
        for has_min in (True, False):
            for has_max in (True, False):
                for has_msg in (True, False):
                    asg = {cvar + ".min": "Some" if has_min else "None", cvar + ".max": "Some" if has_max else "None", cvar + ".message": "Some" if has_msg else "None"}
                    sel = select_path(active, asg)
                    tag = "".join("m" if x else "-" for x in (has_min, has_max, has_msg))
                    if sel is None:
                        if has_min or has_max:
                            r1.bad(V(r1.id, "ZodSchemaBuilder::" + fname, "missing-combination:%s" % tag, "no path renders the combination min=%s max=%s message=%s" % (has_min, has_max, has_msg)))
                        continue
                    conds, sv, _certain = sel
                    ctext = " & ".join(conds)
                    if not (has_min or has_max):
                        if sv != ("var", schemavar):
                            r1.bad(V(r1.id, "ZodSchemaBuilder::" + fname, "chain:%s:%s" % (tag, render(sv)[:90]), "without bounds the schema is still modified: %s" % render(sv)))
                        continue
                    okc, chain, why = parse_chain(sv, schemavar)
                    if not okc:
                        r1.bad(V(r1.id, "ZodSchemaBuilder::" + fname, "chain-shape:%s" % render(sv)[:80], "appended constraints have an unexpected form (%s): %s" % (why, render(sv))))
                        continue
                    want = (["min"] if has_min else []) + (["max"] if has_max else [])
                    got = [m for (m, h, e) in chain]
                    bad = None
                    if got != want:
                        bad = "constraints %s emitted when %s are present" % (got, want)
                    for (m, h, e) in chain:
                        if not re.search(r"(^|\.)%s$" % m, h):
                            bad = ".%s(..) is bound to `%s`" % (m, h)
                        if not h.startswith((kind, "validator." + kind, cvar + ".")) and not re.fullmatch(r"min|max", h):
                            bad = ".%s(..) of the %s validator reads `%s`" % (m, kind, h)
                        if has_msg and e is not True:
                            bad = "message is %s" % ("not escaped" if e is False else "dropped although present")
                        if not has_msg and e is not None:
                            bad = "a message is emitted although none is present"
                    combos.add((has_min, has_max, has_msg))
                    if bad:
                        r1.bad(V(r1.id, "ZodSchemaBuilder::" + fname, "chain:%s:%s" % (tag, render(sv)[:90]), "%s (path: %s): %s" % (bad, ctext[-120:], render(sv))))
                    else:
                        r1.ok("%s min=%s max=%s msg=%s → %s" % (fname, has_min, has_max, has_msg, render(sv)))
    fn = sb("apply_string_validators")
    if fn is None:
        r1.bad(V(r1.id, "<anchor>", "missing:apply_string_validators", "anchor not found"))
    else:
        skipflags, schemavar = param_roles(fn)
        # a flag read into a local first (`let wants_url = val.url; if wants_url {..}`) is the flag
        alias = {}
        for st_ in fn.body:
            if st_.get("k") == "let" and st_.get("init") is not None and st_["pat"].get("k") == "ident" and st_["init"].get("k") == "field":
                alias[st_["pat"]["name"]] = expr_text(st_["init"])
        for conds, sv in ev.fn_paths(fn, None, lambda n: None):
            conds = [("not(%s)" % alias[c[4:-1]]) if (c.startswith("not(") and c[4:-1] in alias) else alias.get(c, c) for c in conds]
            pos = [c for c in conds if not c.startswith("not(")]
            r_ = render(sv)
            modes_ = [p_["pat"].get("name") for p_ in fn.sig.get("params", []) if p_.get("pat") and re.fullmatch(r"[A-Z]\w*", re.sub(r"\s+", "", p_.get("ty") or ""))]
            enum_skip = sv == ("var", schemavar) and any(re.fullmatch(r"(%s) (==|matches) [\w:]+" % "|".join(map(re.escape, modes_)), c) for c in conds if modes_)
            if any(c in skipflags for c in pos) or any(c.endswith("is None") for c in conds) or enum_skip:
                if sv == ("var", schemavar):
                    r1.ok("apply_string_validators: unchanged when inactive")
                else:
                    r1.bad(V(r1.id, "ZodSchemaBuilder::apply_string_validators", "inactive-path-changes-schema:%s" % r_, "inactive path modifies the schema: %s" % r_))
                continue
            em = any(re.fullmatch(r"\w+\.email", c) for c in pos)
            ur = any(re.fullmatch(r"\w+\.url", c) for c in pos)
            ok = ((".email()" in r_) == em) and ((".url()" in r_) == ur) and "apply_length_validator(" in r_
            # each flag is consulted on every active path: a path that never looks at `url` (an `else if` behind the email test) yields the
            # same text for url=true and url=false
            unseen = [fl for fl in ("email", "url") if not any(re.fullmatch(r"(not\()?\w+\.%s\)?" % fl, c) for c in conds)]
            if unseen:
                r1.bad(V(r1.id, "ZodSchemaBuilder::apply_string_validators", "flag-not-consulted:%s:email=%s,url=%s" % (",".join(unseen), em, ur),
                         "on the path email=%s url=%s the flag(s) %s are never tested: the constraint is dropped whenever the other one is declared too" % (em, ur, unseen)))
            elif ok:
                r1.ok("string validators email=%s url=%s → %s" % (em, ur, r_))
            else:
                r1.bad(V(r1.id, "ZodSchemaBuilder::apply_string_validators", "flags:email=%s,url=%s:%s" % (em, ur, r_),
                         "with email=%s url=%s the schema becomes %s" % (em, ur, r_)))
    # escaper
    esc = S.fn(None, "escape_js_string")
    if esc is None:
        r1.bad(V(r1.id, "<anchor>", "missing:escape_js_string", "escaper not found"))
    else:
        ps = ev.fn_paths(esc)
        chain = []
        sv = ps[0][1] if ps else None
        while sv is not None and sv[0] == "replace":
            chain.append((sv[2], sv[3]))
            sv = sv[1]
        chain.reverse()
        want = [("\\", "\\\\"), ("\"", "\\\""), ("\n", "\\n"), ("\r", "\\r")]
        if chain[:1] == [("\\", "\\\\")] and all(w in chain for w in want):
            r1.ok("escape_js_string: backslash first, then quote/newline/CR (%d replacements)" % len(chain))
        else:
            r1.bad(V(r1.id, "escape_js_string", "escape-chain:%s" % chain, "the escaper's replacement chain is %s (backslash must come first; \", \\n, \\r must be covered)" % chain))
    r1.require_floor(20, "constraint paths")
    rules.append(r1)

    # ---------------------------------------------------------------- D2
    r2 = Rule("C11-D2-applicability", "D2",
              "render_type: Array -> apply_length_validator(z.array(inner without validators)), string -> apply_string_validators, number -> "
              "apply_range_validator, Optional forwards (validator, skip=false) to its inner type, elements of maps/sets/tuples are rendered with skip=true",
              "a constraint attached to the wrong constructor (or leaking into container elements) enforces something the attribute did not declare")
    rt = sb("render_type")
    if rt is None:
        r2.bad(V(r2.id, "<anchor>", "missing:render_type", "anchor not found"))
    else:
        def res_shape(name):
            return None if name.startswith("apply_") else sb(name)
        seen = set()
        # the skip flag as a two-valued enum (`Validation::Skip` / `Validation::Apply`): which variant means "skip" is read off the appliers — the
        # variant under whose equality test they hand the schema back unchanged; the recursive calls' argument texts are normalised to true/false
        skip_txt, apply_txt = set(), set()
        for an_ in ("apply_length_validator", "apply_range_validator", "apply_string_validators"):
            afn = sb(an_)
            if afn is None:
                continue
            _sf, sv_name = param_roles(afn)
            for conds_, sv_ in ev.fn_paths(afn, None, lambda n: None):
                if sv_ != ("var", sv_name):
                    continue
                for c_ in conds_:
                    m_ = re.fullmatch(r"\w+ (?:==|matches) ((?:\w+\s*::\s*)*(\w+)\s*::\s*(\w+))", c_)
                    if m_ and m_.group(2) in S.enums and len(S.enums[m_.group(2)]["variants"]) == 2:
                        skip_txt.add(re.sub(r"\s+", "", m_.group(1)).split("::")[-1])
                        apply_txt.update(v_["name"] for v_ in S.enums[m_.group(2)]["variants"] if v_["name"] != m_.group(3))

        def norm_rec(t):
            last = re.sub(r"\s+", "", t).split("::")[-1]
            return "true" if last in skip_txt and "::" in t else ("false" if last in apply_txt and "::" in t else t)

        def norm_sv(x):
            if isinstance(x, tuple):
                if x and x[0] == "rec" and len(x) > 3 and isinstance(x[3], tuple):
                    return x[:3] + (tuple(norm_rec(t) if isinstance(t, str) else t for t in x[3]),) + x[4:]
                return tuple(norm_sv(y) for y in x)
            if isinstance(x, list):
                return [norm_sv(y) for y in x]
            return x
        for conds, sv in ev.fn_paths(rt, None, res_shape):
            if skip_txt:
                sv = norm_sv(sv)
            c = constructor_of(conds)
            r_ = render(sv)
            if c == "Array":
                if sv[0] == "call" and sv[1] == "apply_length_validator" and render(sv[2][0]).startswith("z.array("):
                    inner = [l for l in leaves(sv[2][0]) if l[0] == "rec"]
                    if inner and inner[0][3][:2] == ("validator", "true"):
                        r2.ok("Array: length validator on z.array(..), element rendered with skip_validation=true")
                    else:
                        r2.bad(V(r2.id, "ZodSchemaBuilder::render_type", "array-element-validated:%s" % (",".join(inner[0][3]) if inner else "?"), "array elements are rendered with validators: %s" % r_))
                else:
                    r2.bad(V(r2.id, "ZodSchemaBuilder::render_type", "array-no-length:%s" % r_[:60], "arrays do not receive the length validator: %s" % r_))
                seen.add("Array")
            elif c == "Optional":
                recs = [l for l in leaves(sv) if l[0] == "rec"]
                if recs and recs[0][3][:2] == ("validator", "false"):
                    r2.ok("Optional forwards the validator (skip=false) to its inner type")
                else:
                    r2.bad(V(r2.id, "ZodSchemaBuilder::render_type", "optional-forwarding:%s" % (",".join(recs[0][3]) if recs else "?"), "Option does not forward the validator to its inner type: %s" % r_))
                seen.add("Optional")
            elif c in ("Map", "Set", "Tuple", "Result"):
                recs = [l for l in leaves(sv) if l[0] == "rec"]
                if all(x[3][1] == "true" for x in recs):
                    r2.ok("%s elements rendered with skip_validation=true" % c)
                else:
                    r2.bad(V(r2.id, "ZodSchemaBuilder::render_type", "element-validated:%s" % c, "%s elements are rendered with the field's validators: %s" % (c, r_)))
                seen.add(c)
            elif c == "Primitive":
                prim = None
                for x in conds:
                    m = re.search(r'\w+ matches "(\w+)"', x)
                    if m:
                        prim = m.group(1)
                want = {"string": "apply_string_validators", "number": "apply_range_validator"}.get(prim)
                if want:
                    if sv[0] == "call" and sv[1] == want:
                        r2.ok("%s -> %s" % (prim, want))
                    else:
                        r2.bad(V(r2.id, "ZodSchemaBuilder::render_primitive", "primitive-validator:%s:%s" % (prim, r_[:50]), "%s primitives are rendered as %s (expected %s(..))" % (prim, r_, want)))
                    seen.add(prim)
                elif prim in ("boolean", "void"):
                    if "apply_" in r_:
                        r2.bad(V(r2.id, "ZodSchemaBuilder::render_primitive", "primitive-validator:%s" % prim, "%s receives validators: %s" % (prim, r_)))
        for need in ("Array", "Optional", "string", "number"):
            if need not in seen:
                r2.bad(V(r2.id, "ZodSchemaBuilder::render_type", "no-path:%s" % need, "no rendering path found for %s" % need))
    # build_param_schema: no validators for parameters
    bp = sb("build_param_schema")
    bs = sb("build_schema")
    for fn, want in ((bp, ("‹&None›", "true")), (bs, ("validator_attributes", "false"))):
        if fn is None:
            continue
        ps = ev.fn_paths(fn, None, lambda n: None)
        if ps and rt is not None and skip_txt:
            ps = [(c_, norm_sv(v_)) for c_, v_ in ps]
        txt = render(ps[0][1]) if ps else ""
        recs = [l for l in leaves(ps[0][1])] if ps else []
        if ps and ps[0][1][0] == "rec" and ps[0][1][3][1] == want[1]:
            r2.ok("%s → render_type(.., skip_validation=%s)" % (fn.name, want[1]))
        else:
            r2.bad(V(r2.id, "ZodSchemaBuilder::" + fn.name, "entry-skip:%s" % txt[:60], "%s calls render_type with %s" % (fn.name, txt)))
    r2.require_floor(10, "applicability facts")
    rules.append(r2)

    # ---------------------------------------------------------------- D3
    r3 = Rule("C11-D3-no-cross-talk", "D3",
              "generate_object_schema calls build_schema with the type structure and the validator attributes of the same field context",
              "pairing one field's type with another field's validators attaches constraints to a different field")
    gos = P.find("ZodBindingsGenerator::generate_object_schema")
    if not gos:
        r3.bad(V(r3.id, "<anchor>", "missing:generate_object_schema", "anchor not found"))
    else:
        f0 = gos[0]
        sites = P.find_call_sites(f0.id, lambda c: short_path(c.best) == "ZodSchemaBuilder::build_schema")
        cs = [c for (_, c) in sites]
        if len(cs) != 1:
            r3.bad(V(r3.id, f0.id, "build_schema-calls:%d" % len(cs), "expected one build_schema call"))
        for (f, c) in sites:
            a = f.describe_origin(f.origin(c.args[1]), deep=3)
            b = f.describe_origin(f.origin(c.args[2]), deep=3)
            ba = re.sub(r"\.template_context::FieldContext\.\w+.*$", "", a)
            bb = re.sub(r"\.template_context::FieldContext\.\w+.*$", "", b)
            if ba == bb and "type_structure" in a and "validator_attributes" in b:
                r3.ok("build_schema(&fc.type_structure, &fc.validator_attributes) of the same field context")
            else:
                r3.bad(V(r3.id, f.id, "arguments:%s|%s" % (a[-60:], b[-60:]), "build_schema pairs `%s` with `%s`" % (a, b), c.file, c.line))
            # the result is stored into the same field context
            tgt = [st for blk in f.blocks for st in blk["stmts"] if st.get("lhs", {}).get("p") and st["lhs"]["p"][-1].get("name") == "typescript_type"]
            if tgt:
                r3.ok("the built schema is stored into that field context's typescript_type")
    r3.require_floor(1, "pairing facts")
    rules.append(r3)

    # ---------------------------------------------------------------- D4
    r4 = Rule("C11-D4-token-structured-parsing", "D4",
              "validator attributes must be recognised on the token structure (syn meta items), not by substring search in the stringified tokens",
              "substring search sees keywords inside message texts and cuts values at the first `)`/`,`: constraints are dropped or invented")
    vp_all = [f for f in S.fns if f.owner == "ValidatorParser" and f.body is not None]
    # only what parse_validator_attributes (transitively) calls recognises attributes; helpers nothing calls any more are not part of the tool
    byname = {f.name: f for f in vp_all}
    live = set()
    work = ["parse_validator_attributes"]
    while work:
        nm = work.pop()
        if nm in live or nm not in byname:
            continue
        live.add(nm)
        for e in walk_block(byname[nm].body):
            if e.get("k") == "mcall" and e["method"] in byname:
                work.append(e["method"])
            if e.get("k") == "call" and e["func"].get("k") == "path" and e["func"]["segs"][-1] in byname:
                work.append(e["func"]["segs"][-1])
    vp = [f for f in vp_all if f.name in live]
    for f in vp_all:
        if f.name not in live and f.name not in ("new", "default"):
            r4.notes.append("%s is not called from parse_validator_attributes any more (dead helper, kept for its unit tests)" % f.name)
    n_ok = 0
    for f in vp:
        lits = []
        for e in walk_block(f.body):
            if e.get("k") == "mcall" and e["method"] in ("contains", "find", "rfind", "starts_with", "split", "split_once") and e["args"]:
                a = e["args"][0]
                if a.get("k") == "lit":
                    lits.append("%s(%r)" % (e["method"], a["lit"]["v"]))
        if lits:
            r4.bad(V(r4.id, "ValidatorParser::" + f.name, "substring-parse:{%s}" % ",".join(sorted(set(lits))),
                     "%s recognises validator syntax by substring search on the token string: %s" % (f.name, sorted(set(lits))), f.file, f.line))
        else:
            n_ok += 1
            r4.ok("%s does no substring search" % f.name)
    # ... and the walk over the items of one #[validate(..)] is not cut short: every callback consumes its item's arguments (shared with C06)
    from metawalk import check_meta_walks
    n_walks = check_meta_walks(ctx, r4, lambda fid: "::validator_parser::ValidatorParser::" in fid, "#[validate(..)]")
    if not n_walks:
        r4.bad(V(r4.id, "<anchor>", "missing:validate-meta-walk", "anchor not found: no parse_nested_meta walk in ValidatorParser"))
    # a range bound is a decimal number of any size: it is read as f64 from the literal's digits.  Reading it through an integer type first
    # (`base10_parse::<i64>()` … `as f64`) silently drops bounds that do not fit (u64::MAX, i64::MIN, u128 ids)
    n_cast = 0
    for fid_ in sorted(P.fns):
        if not fid_.startswith("tauri_typegen::analysis::validator_parser::") or "{promoted#" in fid_:
            continue
        g_ = P.fns[fid_]
        n_cast += 1
        for b_ in sorted(g_.reach_blocks):
            for st_ in g_.blocks[b_]["stmts"]:
                rv_ = st_.get("rv") or {}
                if rv_.get("k") == "cast" and rv_.get("cast") == "IntToFloat":
                    r4.bad(V(r4.id, fid_, "bound-through-integer", "%s converts an integer to f64: a bound read through an integer type is lost when the literal does not fit that type"
                             % short_path(fid_), g_.file, st_.get("line")))
    r4.ok("%d validator-parser bodies: no bound goes through an integer type" % n_cast)
    # a signed bound: the arm that recognises the unary minus of `min = -5` negates what it read from the operand; an arm that only recurses
    # (or parses the operand) hands back |bound|
    from srclib import pat_text as _pt
    for f in vp:
        for e in walk_block(f.body):
            if e.get("k") != "match":
                continue
            for a in e["arms"]:
                import json as _json
                if not re.search(r'"UnOp", "Neg"\]', _json.dumps(a["pat"])):
                    continue
                body = a["body"]
                negates = any((x.get("k") == "unary" and x.get("op") == "-") or (x.get("k") == "mcall" and x["method"] in ("neg", "copysign", "checked_neg", "wrapping_neg"))
                              or (x.get("k") == "path" and x.get("segs") and x["segs"][-1] == "neg")      # `.map(std::ops::Neg::neg)`
                              or (x.get("k") == "binary" and x.get("op") in ("*", "-") and "-" in expr_text(x)) or (x.get("k") == "macro" and "-" in expr_text(x))
                              for x in walk(body))
                if negates:
                    r4.ok("%s: the unary-minus arm negates the operand's value" % f.name)
                else:
                    r4.bad(V(r4.id, "ValidatorParser::" + f.name, "minus-arm-does-not-negate", "%s recognises `-x` but returns the operand's value unchanged (`%s`): "
                             "`range(min = -5)` becomes .min(5)" % (f.name, expr_text(body)[:60]), f.file, f.line))
    r4.require_floor(5, "parsing functions + item walks")
    rules.append(r4)

    # ---------------------------------------------------------------- D5 (accumulation over several #[validate(..)] attributes)
    r5 = Rule("C11-D5-attribute-accumulation", "D5",
              "inside the loop over a field's attributes, the accumulated ValidatorAttributes only gains constraints: a field is assigned `true` / `Some(..)` "
              "(under the guard that found the constraint), never an unguarded Option result that can reset it to None; the loop does not stop early",
              "with #[validate(length(..))] followed by #[validate(email)], an unguarded `attrs.length = parse(..)` drops the length constraint")
    pva = S.fn("ValidatorParser", "parse_validator_attributes")
    if pva is None:
        r5.bad(V(r5.id, "<anchor>", "missing:parse_validator_attributes", "anchor not found"))
    else:
        from srclib import attribute_loops
        loops = attribute_loops(pva)
        if not loops:
            r5.bad(V(r5.id, "ValidatorParser::parse_validator_attributes", "no-attribute-loop", "no loop over the attributes found"))
        for lp in loops:
            from srclib import children
            inner_locals = set()
            # a loop that only asks "is there a #[validate] at all" (sets a flag and stops) gathers nothing: stopping early loses nothing
            gathers = any(y.get("k") == "mcall" and y["method"] in ("parse_nested_meta", "parse_args", "parse_args_with", "require_list") or
                          (y.get("k") == "assign" and y["l"].get("k") == "field") or
                          (y.get("k") == "mcall" and y["method"] in ("push", "insert", "extend"))
                          for st_ in lp["body"] for e_ in stmt_exprs(st_) for y in walk(e_))
            if not gathers:
                r5.ok("a pre-scan loop over the attributes gathers nothing")
                continue

            def collect_lets(stmts):
                for st_ in stmts or []:
                    if isinstance(st_, dict) and st_.get("k") == "let":
                        from srclib import pat_bindings
                        inner_locals.update(pat_bindings(st_["pat"]))
                    for e_ in (stmt_exprs(st_) if isinstance(st_, dict) else []):
                        for y in walk(e_):
                            for key in ("then", "stmts", "body"):
                                v_ = y.get(key)
                                if isinstance(v_, list):
                                    collect_lets(v_)
                            if y.get("k") == "closure" and isinstance(y.get("body"), dict) and y["body"].get("k") == "block":
                                collect_lets(y["body"]["stmts"])
            collect_lets(lp["body"])
            stack = list((x, False) for st in lp["body"] for x in stmt_exprs(st))
            while stack:
                x, in_closure = stack.pop()
                if not isinstance(x, dict):
                    continue
                if x.get("k") in ("break", "return") and not in_closure:
                    r5.bad(V(r5.id, "ValidatorParser::parse_validator_attributes", "attribute-loop-stops-early:%s" % x["k"], "the attribute loop can stop before the last #[validate(..)] attribute", pva.file, x.get("ln")))
                if x.get("k") == "assign" and x["l"].get("k") == "field":
                    base_ = x["l"]["base"]
                    if base_.get("k") == "path" and len(base_["segs"]) == 1 and base_["segs"][0] in inner_locals:
                        continue      # a value built afresh for this item (not the accumulator that lives across attributes)
                    rhs = x["r"]
                    rt = expr_text(rhs)
                    fld = x["l"]["member"]
                    okv = (rhs.get("k") == "lit" and rhs["lit"]["t"] == "bool" and rhs["lit"]["v"] is True) or (rhs.get("k") == "call" and expr_text(rhs["func"]) == "Some")
                    if okv:
                        r5.ok("%s = %s" % (fld, rt[:40]))
                    else:
                        r5.bad(V(r5.id, "ValidatorParser::parse_validator_attributes", "accumulator-reset:%s" % fld,
                                 "`%s = %s` inside the attribute loop can overwrite a constraint found in an earlier attribute" % (expr_text(x["l"]), rt[:60]), pva.file, x.get("ln")))
                # a per-item closure (parse_nested_meta) runs once per list item: its assignments accumulate like the loop body's,
                # its own `return`/`?` only end the walk over that attribute
                stack.extend((c_, in_closure or x.get("k") == "closure") for c_ in children(x))
    r5.require_floor(3, "accumulator assignments")
    rules.append(r5)

    return finish(
        PROP, ctx, rules,
        "Path-wise string-shape extraction (SV) of the constraint builders (every (min, max, message) combination), the escaper's replacement "
        "chain, applicability per constructor, argument pairing over MIR; the parsing side is decided structurally only (substring-search sites).",
        ["exactness of u64/f64 re-parsing and Display (exponents, large values): runtime numeric behaviour",
         "index provenance of the message slicer is decided by C15 (G3)"],
        ["the statement's rendering table (length -> .min/.max, range -> .min/.max, email/url, message object) is the oracle"])

"""C15 — no input makes analysis or generation panic; bad files are isolated.

PANIC rule: every panic-capable site in bodies reachable from the entry points is enumerated —
assert terminators (bounds, overflow, division), unwrap/expect, core::panicking, Index impls on
str/Vec/Punctuated/HashMap, String/Vec partial methods, RefCell borrows, the external partial
functions of serde_rename_rule — and must be discharged by a guard rule (G1 length guard,
G2 prefix/suffix guard, G3 index provenance, G4 constructor guard, G5 bounded offset arithmetic)
or by a reviewed exemption (one named site each, with its one-line proof).
D-isolation: a file that fails to parse is logged and skipped; template failures degrade.
"""
import re

from common import Rule, V, finish
from mirlib import ENTRY_POINTS, short_path, op_const, op_place, Call
from rulelib import strip_generics
from panicfree import Sym, Lin

PROP = "C15"

PANIC_CALL = re.compile(
    r"^std::(option::Option|result::Result)::<[^>]*>::(unwrap|expect|unwrap_err|expect_err)$|^core::panicking::|^std::rt::begin_panic|"
    r"^std::rt::panic_fmt|^std::ops::Index::index$|^std::ops::IndexMut::index_mut$|RefCell::<T>::borrow(_mut)?$|"
    r"^std::string::String::(remove|insert|insert_str|split_off|drain|replace_range)$|"
    r"^std::vec::Vec::<T, A>::(remove|swap_remove|insert|drain|split_off)$|"
    r"^core::slice::<impl \[T\]>::(split_at|split_at_mut|copy_from_slice|clone_from_slice|swap|chunks|chunks_exact|windows|rotate_left|rotate_right)$|"
    r"^core::str::<impl str>::(split_at|split_at_mut)$|"
    r"^serde_rename_rule::RenameRule::(apply_to_field|apply_to_variant)$|^std::char::from_u32_unchecked|^std::process::abort$")

# external partial functions: callee -> receiver variants for which it can panic (byte-slices the first character)
EXTERNAL_PARTIAL = {
    "serde_rename_rule::RenameRule::apply_to_field": {"CamelCase"},
    "serde_rename_rule::RenameRule::apply_to_variant": {"CamelCase"},
}

# Reviewed exemptions: (function id, site identity) -> one-line proof.  Identities are position-free.
EX = {
    ("tauri_typegen::generators::ts::generator::TypeScriptBindingsGenerator::new", "Result::expect"):
        "create_tera() only registers templates embedded with include_str!; input-independent (every embedded template parses: re-checked by srcfacts each run)",
    ("tauri_typegen::generators::zod::generator::ZodBindingsGenerator::new", "Result::expect"):
        "create_tera() only registers templates embedded with include_str!; input-independent (every embedded template parses: re-checked by srcfacts each run)",
    ("tauri_typegen::interface::output::ProgressReporter::new", "Result::unwrap"):
        "ProgressStyle::template(<string constant>): input-independent",
    ("tauri_typegen::generators::TypeCollector::create_command_contexts::{closure}::{closure}", "RefCell::borrow_mut"):
        "the RefCell is created by get_type_resolver() for this call; the borrow is a temporary inside a non-reentrant closure (parse_type_structure never calls back)",
    ("tauri_typegen::generators::TypeCollector::create_event_contexts::{closure}", "overflow:Add:deref"):
        "per-identifier occurrence counter, incremented once per distinct event (bounded by the number of emit calls in the sources)",
    ("tauri_typegen::generators::TypeCollector::create_event_contexts::{closure}::{closure}", "RefCell::borrow_mut"):
        "the RefCell is created by get_type_resolver() for this call; the borrow is a temporary inside a non-reentrant closure (parse_type_structure never calls back)",
    ("tauri_typegen::interface::config::GenerateConfig::save_to_tauri_config", "Option::unwrap:as_object_mut-after-is_object-repair"):
        "the value is replaced by json!({}) on the !is_object() edge, so as_object_mut() is Some on every path (the is_object test dominates: re-checked)",
    ("tauri_typegen::build::output_manager::OutputManager::get_generation_metadata", "overflow:Add:total_size"):
        "u64 sum of the sizes of the files in one directory",
    ("tauri_typegen::interface::output::ProgressReporter::start_step", "overflow:Add:current_step"):
        "usize step counter incremented once per reported step",
    ("tauri_typegen::analysis::type_resolver::split_top_level_commas", "overflow:i32-depth-counter"):
        "i32 nesting counter changes by one per character of a type string (assumption: type strings are shorter than 2^31 bytes)",
    ("tauri_typegen::analysis::validator_parser::ValidatorParser::parse_message_from_content", "str-index:[1..]:after-ascii-quote"):
        "after_eq[1..] runs only when after_eq.chars().next() is '\"' or '\\'' (1-byte ASCII), so 1 is a boundary within the string (both equality tests feed the dominating branch: re-checked)",
}
# ranges whose ordering (start <= end) is not derivable by the linear-form rule; proof by reading
EX_ORDER = {}   # (the two former proof-by-reading entries are now derived: found_after_other_char)


def found_after_other_char(sym, view, diff):
    """end - start = found(B) - 1 where B was searched in a view that *begins at an occurrence of a different character* A:
    the first character of that view is A's pattern, so B cannot match at offset 0 and found(B) >= 1.  Returns the reason or None."""
    if diff.c != -1 or len(diff.a) != 1:
        return None
    (atom, coef), = diff.a.items()
    if atom[0] != "found" or coef != 1 or atom[1] not in sym.found:
        return None
    ib = sym.found[atom[1]]
    vb = sym.view_op(ib["call"].args[0])
    if vb is None or ib["pat"] is None:
        return None
    for bba, ia in sym.found.items():
        if bba == atom[1] or ia["pat"] is None:
            continue
        va = sym.view_op(ia["call"].args[0])
        if va is None or va.root != vb.root:
            continue
        if vb.off.key() == va.off.add(Lin(0, {("found", bba): 1})).key() and ia["call"].name == "find" and ia["pat"][:1] != ib["pat"][:1]:
            return "the text searched for %r begins at the %r found just before, so %r is found at offset >= 1" % (ib["pat"], ia["pat"], ib["pat"])
    return None


def check(ctx):
    P = ctx.P
    S = ctx.S
    reach = P.reachable(ENTRY_POINTS)
    rules = []
    r = Rule("C15-PANIC-sites-discharged", "PANIC",
             "every panic-capable site reachable from the entry points is discharged by G1 (length guard), G2 (prefix/suffix guard), "
             "G3 (index provenance), G4 (constructor guard), G5 (bounded offset arithmetic) or a reviewed single-site exemption",
             "an undischarged site is an input for which the tool aborts instead of returning an error")
    used_ex = set()
    ptr_checks = 0
    counts = {}
    index_sites = set()

    def ok(kind, text):
        counts[kind] = counts.get(kind, 0) + 1
        r.ok(text if counts[kind] <= 2 else None)

    def exkey(fid):
        # a reviewed site belongs to its enclosing named function: whether the statement sits in the function body, in a closure passed to an
        # iterator adapter or in a nested closure is a matter of style
        return re.sub(r"(::\{closure(#\d+)?\})+$", "", fid)
    global EX
    EX = {(re.sub(r"(::\{closure(#\d+)?\})+$", "", k0), k1): v for (k0, k1), v in EX.items()}

    for fid in sorted(reach):
        f = P.fns[fid]
        if "{promoted#" in fid:
            continue
        sym = None
        for b in sorted(f.reach_blocks):
            t = f.blocks[b]["term"]
            if t["k"] == "assert":
                kind = t["assert"]
                if kind in ("misaligned", "nullptr"):
                    ptr_checks += 1
                    continue
                if kind == "bounds":
                    index_sites.add((t["span"]["file"], t["span"]["line"]))
                sym = sym or Sym(f)
                res, why, ident = discharge_assert(f, sym, b, t)
                if res:
                    ok("assert:" + kind.split(":")[0], "%s @%s:%s — %s" % (short_path(fid), t["span"]["file"], t["span"]["line"], why))
                elif (exkey(fid), ident) in EX:
                    used_ex.add((exkey(fid), ident))
                    ok("EX", "%s: %s — reviewed: %s" % (short_path(fid), ident, EX[(exkey(fid), ident)]))
                else:
                    r.bad(V(r.id, fid, ident, "arithmetic/bounds check `%s` can fail: %s" % (t["span"].get("snip", kind), why), t["span"]["file"], t["span"]["line"]))
            elif t["k"] == "call":
                c = Call(f, b, t)
                if not PANIC_CALL.search(c.path):
                    continue
                if c.path in ("std::ops::Index::index", "std::ops::IndexMut::index_mut"):
                    index_sites.add((c.file, c.line))
                sym = sym or Sym(f)
                res, why, ident = discharge_call(P, f, sym, c)
                if res:
                    ok("call:" + short_path(c.path), "%s @%s — %s" % (short_path(fid), c.where(), why))
                elif (exkey(fid), ident) in EX:
                    if ex_side_condition(f, c, ident):
                        used_ex.add((exkey(fid), ident))
                        ok("EX", "%s: %s — reviewed: %s" % (short_path(fid), ident, EX[(exkey(fid), ident)]))
                    else:
                        r.bad(V(r.id, fid, ident + ":side-condition-lost", "reviewed exemption no longer applies: %s" % EX[(exkey(fid), ident)], c.file, c.line))
                elif (exkey(fid), ident) in EX_ORDER:
                    used_ex.add((exkey(fid), ident))
                    ok("EX", "%s: %s — reviewed: %s" % (short_path(fid), ident, EX_ORDER[(exkey(fid), ident)]))
                else:
                    r.bad(V(r.id, fid, ident, "`%s` can panic: %s" % (re.sub(r"\s+", " ", c.snip)[:90], why), c.file, c.line))
    for k in list(EX) + list(EX_ORDER):
        if k not in used_ex and (k[0] in reach or "{closure}" in k[0]):
            r.notes.append("stale exemption (no matching site any more): %s | %s" % k)
    r.notes.append("%d compiler-inserted pointer alignment/null checks on safe references (cannot fail in safe code) not counted" % ptr_checks)
    r.notes.append("discharged per kind: %s" % ", ".join("%s=%d" % kv for kv in sorted(counts.items())))
    if ctx.tier == "thorough":
        # completeness of the enumeration against an independent enumerator (clippy::string_slice / indexing_slicing): see crossref.py
        import crossref
        names = set()
        for fid in reach:
            base = re.sub(r"::\{closure#\d+\}", "", fid)
            base = re.sub(r"^<(.+?) as .+?>::", lambda m: m.group(1).split("::")[-1] + "::", base)
            base = re.sub(r"::<[^>]*>", "", base)
            parts = base.split("::")
            names.add("::".join(parts[-2:]))
            names.add(parts[-1])
        n_all, n_reach, gp = crossref.gaps(ctx, "panic", index_sites, names)
        for (code, file, line, fn_) in gp:
            r.bad(V(r.id, fn_, "enumeration-gap:%s" % code, "%s reports an index/slice site at %s:%d inside the reachable function %s, in which the PANIC rule enumerated no index site: the enumeration lost coverage" % (code, file, line, fn_), file, line))
        r.notes.append("cross-reference: %d lint sites, %d inside reachable functions, %d gaps" % (n_all, n_reach, len(gp)))
        if not gp:
            r.ok("cross-reference: %d clippy string_slice/indexing_slicing sites, %d in reachable functions, all inside functions where the PANIC rule enumerated index sites" % (n_all, n_reach))
    r.require_floor(45, "panic-capable sites")   # (65 on the pinned tree; a clean-up that removes a few unwraps must not trip the enumeration-collapse guard)
    rules.append(r)

    # ---------------------------------------------------------------- isolation
    r2 = Rule("C15-D-isolation", "isolation",
              "in the directory walk the Err arm of syn::parse_file neither returns nor propagates (the file is reported and skipped); "
              "no unwrap/expect is applied to a template render result",
              "one unparsable file must not hide commands found in the others")
    pf = P.find("AstCache::parse_and_cache_all_files")
    if not pf:
        r2.bad(V(r2.id, "<anchor>", "missing:parse_and_cache_all_files", "anchor not found"))
    else:
        f = pf[0]
        pcs = [c for c in f.calls if strip_generics(c.path) == "syn::parse_file"]
        if len(pcs) != 1:
            r2.bad(V(r2.id, f.id, "parse-sites:%d" % len(pcs), "expected one syn::parse_file call"))
        for pc in pcs:
            from rulelib import forward_uses, is_try_branch
            sinks = forward_uses(f, pc.dest["l"])
            if any(s[0] == "call" and is_try_branch(s[1]) for s in sinks) or any(s[0] == "ret" for s in sinks):
                r2.bad(V(r2.id, f.id, "parse-error-propagated", "a syn::parse_file error is propagated out of the directory walk: one bad file aborts the analysis", pc.file, pc.line))
            else:
                r2.ok("parse_file result is matched, not propagated")
            for (a, lab, (o, outcome)) in f.branch_edges():
                if o[0] == "call" and o[1].bb == pc.bb and outcome == "Err":
                    reg = f.edge_region(a, lab)
                    rets = [b for b in reg if f.blocks[b]["term"]["k"] == "return"]
                    back = any(f.call_at(s) is not None and f.call_at(s).name == "next" for b in reg for s in _reach(f, b))
                    if rets or not back:
                        r2.bad(V(r2.id, f.id, "parse-error-leaves-loop", "the Err arm of syn::parse_file leaves the directory walk", pc.file, pc.line))
                    else:
                        r2.ok("Err arm continues with the next directory entry")
        # ... and it is *reported*: some diagnostic output is reached whenever parse_file answered Err, whatever the verbosity
        reports = []
        for c in f.calls:
            if c.bb in f.reach_blocks and (c.path in ("std::io::_eprint", "std::io::_print") or "Logger::" in short_path(c.best) or "ProgressReporter::" in short_path(c.best)):
                conds = f.must_conditions(c.bb, sequencing=False)
                if any(re.search(r"parse_file\(\)=Err", x) for x in conds):
                    reports.append(conds)
        if any(not any("verbose" in x for x in conds) for conds in reports):
            r2.ok("a file that does not parse is reported unconditionally")
        else:
            r2.bad(V(r2.id, f.id, "parse-failure-not-reported:%s" % ("verbose-only" if reports else "never"),
                     "a file that fails to parse is skipped %s: the default run drops its commands without saying so"
                     % ("and reported only when verbose is set" if reports else "silently"), f.file, f.line))
    for fid in sorted(reach):
        f = P.fns[fid]
        for c in f.calls:
            if re.search(r"(Result)::<[^>]*>::(unwrap|expect)$", c.path):
                o = f.describe_origin(f.origin(c.args[0]), deep=2)
                if "render" in o and "BaseBindingsGenerator" in o or "Tera::render" in o:
                    r2.bad(V(r2.id, fid, "unwrap-on-render", "unwrap/expect on a template render result", c.file, c.line))
    r2.ok("no unwrap/expect on a render result in %d reachable bodies" % len(reach))
    r2.require_floor(3, "isolation facts")
    rules.append(r2)

    # termination of hand-written loops: a loop of the crate's own code is driven by an iterator / queue over finite data (`next`, `pop`, ..), or
    # counts (an exit test on a local that the body moves by +/-), or is one of the reviewed loops below.  `while !set.insert(name) { name = f(k) }`
    # with a `k` that the body does not move has none of these: for the inputs that enter it, it never ends.
    LOOP_REVIEWED = {
        "ProjectScanner::detect_project": "walks `current = parent` up a finite path until parent() is None",
    }
    from rulelib import loop_exits as _le
    r4 = Rule("C15-LOOPS-progress", "termination",
              "every natural loop of the crate's own reachable code has a progress candidate: it is driven by an iterator/queue, has an exit test on a counter "
              "the body moves or on a search over a window the body advances, replaces its variable by a part of the variable's own value, or is a reviewed "
              "single-site exemption (a necessary condition of termination, not a proof of it)",
              "a loop with none of these does not terminate for the inputs that enter it: generation hangs instead of failing")
    DRV = ("next", "pop", "pop_front", "pop_back", "next_back", "recv", "read_line", "read", "next_key", "next_element", "next_entry", "next_value")
    for fid in sorted(reach):
        f = P.fns.get(fid)
        if f is None or "{promoted" in fid or "::_serde::" in fid or "::_::" in fid:
            continue
        for (h, body) in f._natural_loops():
            if h not in f.reach_blocks:
                continue
            drv, exits = _le(f, (h, body), drivers=DRV)
            if drv is not None:
                r4.ok(None)
                continue
            key = short_path(re.sub(r"::\{closure#\d+\}", "", fid))
            moved = set()
            for b in body:
                for st in f.blocks[b]["stmts"]:
                    rv = st.get("rv") or {}
                    if rv.get("k") == "bin" and re.match(r"(Add|Sub)", str(rv.get("op"))) and st.get("lhs"):
                        moved.add(st["lhs"]["l"])
            # (the sum lands in a temporary pair first: `_t = AddWithOverflow(i, 1); i = move _t.0`)
            grew_ = True
            while grew_:
                grew_ = False
                for b in body:
                    for st in f.blocks[b]["stmts"]:
                        rv = st.get("rv") or {}
                        if rv.get("k") == "use" and isinstance(rv.get("op"), dict) and st.get("lhs") and not st["lhs"].get("p"):
                            pl_ = rv["op"].get("move") or rv["op"].get("copy")
                            if isinstance(pl_, dict) and pl_.get("l") in moved and st["lhs"]["l"] not in moved:
                                moved.add(st["lhs"]["l"])
                                grew_ = True
            counted = False
            for b in body:
                t = f.blocks[b]["term"]
                if t["k"] != "switch" or all(succ in body for (_l, succ) in f.succ_edges(b)):
                    continue
                pl_ = (t.get("discr") or {}).get("move") or (t.get("discr") or {}).get("copy")
                ds = [d for d in f.defs.get(pl_["l"], []) if d[0] == "stmt"] if isinstance(pl_, dict) and not pl_.get("p") else []
                for d in ds:
                    rv = d[3]
                    if rv.get("k") == "bin" and str(rv.get("op")) in ("Lt", "Le", "Gt", "Ge", "Ne", "Eq"):
                        for side in ("a", "b"):
                            sp = (rv.get(side) or {}).get("copy") or (rv.get(side) or {}).get("move")
                            if isinstance(sp, dict) and sp.get("l") in moved:
                                counted = True
            # structural descent: `while let Optional(inner) = cur { cur = inner }` — the loop variable is replaced by a part of the value it
            # pointed to (a finite tree)
            descends = False
            assigns_ = []
            for b in body:
                for st in f.blocks[b]["stmts"]:
                    rv = st.get("rv") or {}
                    lhs = st.get("lhs")
                    if not lhs or lhs.get("p"):
                        continue
                    src = rv.get("place") if rv.get("k") == "ref" else ((rv.get("op") or {}).get("copy") or (rv.get("op") or {}).get("move") if rv.get("k") in ("use", "cast") and isinstance(rv.get("op"), dict) else None)
                    if isinstance(src, dict):
                        assigns_.append((lhs["l"], src))
            for (L_, _src) in assigns_:
                part = {l2 for (l2, s2) in assigns_ if s2.get("l") == L_ and any(pj.get("k") == "field" for pj in s2.get("p", []))}
                grew = True
                while grew:
                    grew = False
                    for (l2, s2) in assigns_:
                        if s2.get("l") in part and l2 not in part:
                            part.add(l2)
                            grew = True
                if L_ in part:
                    descends = True
                    break
            # a search loop: an exit test on the answer of a search (`find`/`rfind`/`position`/`get` = None) over a window whose offset the body moves
            searching = bool(moved) and any(re.search(r"\b(find|rfind|position|rposition|get|find_map|split_once)\(", e_[2]) for e_ in exits)
            if counted:
                r4.ok("%s: counting loop" % key)
            elif searching:
                r4.ok("%s: search loop with an offset the body advances" % key)
            elif descends:
                r4.ok("%s: structural descent (the loop variable is replaced by a part of its own value)" % key)
            elif key in LOOP_REVIEWED:
                r4.ok("%s: reviewed — %s" % (key, LOOP_REVIEWED[key]))
            else:
                r4.bad(V(r4.id, fid, "loop-without-progress:%s" % ";".join(sorted(e[2][:40] for e in exits))[:120],
                         "%s contains a loop that no iterator/queue drives and whose exit test (%s) is on nothing the body counts up or down: if the test fails once "
                         "with unchanged operands it fails for ever" % (key, "; ".join(e[2][:60] for e in exits) or "none"), f.file, f.blocks[h]["term"].get("line")))
    r4.require_floor(40, "loops")
    rules.append(r4)

    # embedded templates parse (supports the create_tera exemption)
    r3 = Rule("C15-templates-parse", "EX-support",
              "every embedded template is accepted by tera::Template::new (the parser the tool links)",
              "create_tera().expect(..) would abort at start-up for every input")
    terr = [e for e in S.errors if e.get("template")]
    for e in terr:
        r3.bad(V(r3.id, e["file"], "template-parse-error", "template does not parse: %s" % e["error"]))
    reg = S.template_registry()
    for n, info in sorted(reg.items()):
        if info["file"] in S.templates:
            r3.ok("%s → %s parses" % (n, info["file"]))
        elif not any(e["file"] == info["file"] for e in terr):
            r3.bad(V(r3.id, info["file"], "template-missing:%s" % n, "registered template file not found"))
    r3.require_floor(19, "registered templates")
    rules.append(r3)

    return finish(
        PROP, ctx, rules,
        "Enumeration of every panic-capable MIR terminator/call reachable from the entry points with symbolic (linear-form) index "
        "provenance, dominating-guard lookup and a reviewed exemption table; isolation of parse failures by error-flow on syn::parse_file; "
        "a progress candidate for every natural loop.",
        ["termination proper: loops are only shown to have a progress candidate (iterator/queue, moved counter, advanced search window, structural descent), "
         "recursion depth on adversarially deep types is not bounded",
         "panics inside syn, tera, serde_json, walkdir, clap, indicatif, chrono themselves (trusted total on their documented domains)",
         "allocation failure"],
        ["string lengths are below isize::MAX (Rust allocation invariant), type strings below 2^31 bytes",
         "std's find/rfind/char_indices return byte offsets at char boundaries (documented)"])


def _reach(f, b):
    from rulelib import blocks_reachable_from
    return blocks_reachable_from(f, b, include_start=True)


def guard_len_facts(f, b):
    """[(receiver text, op, n)] from dominating comparisons of X.len() with a constant (true edge normalised)"""
    out = []
    for (a, lab) in f.edge_dominators(b):
        o, outcome = f.cond_struct(a, lab)
        if o[0] == "call" and o[1].name == "len" and o[1].args and re.fullmatch(r"\d+", str(outcome)):
            # a match arm on the length itself (`match v.len() { 2 => v[1] .. }`)
            out.append((f.describe_origin(f.origin(o[1].args[0]), deep=3), "Eq", int(outcome)))
            continue
        if o[0] != "bin" or outcome not in ("true", "false"):
            continue
        op, x, y = o[1], o[2], o[3]
        def lenrecv(t):
            if t[0] == "call" and t[1].name == "len":
                return f.describe_origin(f.origin(t[1].args[0]), deep=3)
            return None
        def const(t):
            return t[1].get("int") if t[0] == "const" else None
        rx, cy = lenrecv(x), const(y)
        if rx is None or cy is None:
            rx, cy = lenrecv(y), const(x)
            if rx is None or cy is None:
                continue
            op = {"Lt": "Gt", "Le": "Ge", "Gt": "Lt", "Ge": "Le"}.get(op, op)
        if outcome == "false":
            op = {"Eq": "Ne", "Ne": "Eq", "Lt": "Ge", "Le": "Gt", "Gt": "Le", "Ge": "Lt"}[op]
        out.append((rx, op, cy))
    return out


def min_len_from(facts, recv):
    n = 0
    for rx, op, c in facts:
        if _norm(rx) != _norm(recv):
            continue
        if op == "Eq":
            n = max(n, c)
        elif op == "Ge":
            n = max(n, c)
        elif op == "Gt":
            n = max(n, c + 1)
    return n


def _norm(t):
    t = re.sub(r"\b(asref|deref|clone|into)\(", "(", t or "")
    return t.replace(".deref", "").replace("(", "").replace(")", "")


def offsetlike(f, sym, L, depth=0):
    """is the linear form built only from string offsets/lengths/small constants?"""
    if L is None:
        return False
    for a in L.a:
        if a[0] in ("found", "len", "ci"):
            continue
        if a[0] == "var" and depth < 3 and not a[2]:
            l = a[1]
            if f.locals[l] != "usize":
                return False
            ds = [d for d in f.defs.get(l, []) if d[0] != "arg" and d[1] in f.reach_blocks]
            if not ds:
                return False
            for d in ds:
                if d[0] == "stmt" and d[3]["k"] == "use":
                    k = op_const(d[3]["op"])
                    if k is not None and "int" in k:
                        continue
                    sub = sym.lin_op(d[3]["op"])
                    # a loop variable may refer to itself (v' = v + offset): inductively an offset
                    if sub is not None:
                        rest = Lin(sub.c, {k2: v2 for k2, v2 in sub.a.items() if k2 != a})
                        if offsetlike(f, sym, rest, depth + 1):
                            continue
                    return False
                return False
            continue
        return False
    return True


def discharge_assert(f, sym, b, t):
    kind = t["assert"]
    snip = re.sub(r"\s+", " ", t["span"].get("snip", ""))
    if kind.startswith("overflow:"):
        op = kind.split(":")[1]
        # find the WithOverflow statement feeding the assert
        p = op_place(t["cond"])
        rv = None
        if p is not None:
            for d in f.defs.get(p["l"], []):
                if d[0] == "stmt" and d[3]["k"] == "bin":
                    rv = d[3]
        if rv is None:
            return False, "cannot find the checked operation", "overflow:%s:?" % op
        ty = f._operand_ty(rv["a"]) or ""
        a = sym.lin_op(rv["a"])
        bb = sym.lin_op(rv["b"])
        ident = "overflow:%s:%s" % (op, sym_ident(sym, a, bb))
        if ty == "i32" and re.search(r"depth", f.describe_origin(f.origin(rv["a"]))):
            return False, "i32 counter", "overflow:i32-depth-counter"
        if op == "Add" and ty == "usize":
            if offsetlike(f, sym, a) and offsetlike(f, sym, bb):
                return True, "G5: sum of string offsets/lengths/constants (bounded by the allocation size)", ident
            # bounded by a dominating comparison with a constant
            for (x, lab) in f.edge_dominators(b):
                o, outcome = f.cond_struct(x, lab)
                upper = o[0] == "bin" and ((o[1] in ("Lt", "Le") and outcome == "true") or (o[1] in ("Ge", "Gt") and outcome == "false"))
                if upper and o[3][0] == "const":
                    # `if x < c { .. x + 1 .. }` and `if x >= c { return } .. x + 1 ..` bound x the same way
                    if f.describe_origin(o[2]) == f.describe_origin(f.origin(rv["a"])):
                        return True, "G5: operand bounded by a dominating `< %s` test" % o[3][1].get("int"), ident
            name = f.describe_origin(f.origin(rv["a"]))
            m = re.search(r"(\w+)$", name)
            return False, "unbounded usize addition", "overflow:Add:%s" % (m.group(1) if m else "?")
        if op == "Add":
            name = f.describe_origin(f.origin(rv["a"]))
            m = re.search(r"(\w+)$", name)
            return False, "addition on %s" % ty, "overflow:Add:%s" % (m.group(1) if m else "?")
        if op == "Sub" and ty == "usize":
            # len(S) - k with a prefix/suffix guard
            if a is not None and len(a.a) == 1 and list(a.a.values()) == [1] and list(a.a)[0][0] == "len" and a.c == 0 and bb is not None and not bb.a:
                k = bb.c
                # which view?
                pa = op_place(rv["a"])
                view = None
                for d in f.defs.get(pa["l"], []) if pa else []:
                    if d[0] == "call" and d[2].name == "len":
                        view = sym.view_op(d[2].args[0])
                if view is not None:
                    n, pre, suf, facts = sym.min_len(view, b)
                    if n >= k:
                        return True, "G2: len() >= %d by %s" % (n, " ∧ ".join(facts)), ident
                    return False, "len() - %d is not protected by a prefix/suffix guard (known length >= %d)" % (k, n), ident
            return False, "usize subtraction without a dominating bound", ident
        return False, "unhandled checked operation", ident
    if kind == "bounds":
        return False, "array/slice index without a recognised length guard", "bounds:%s" % snip[:40]
    return False, "check can fail", "%s:%s" % (kind, snip[:40])


def sym_ident(sym, a, b):
    ra = a.render(sym.namer) if a is not None else "?"
    rb = b.render(sym.namer) if b is not None else "?"
    return "%s,%s" % (ra, rb)


def discharge_call(P, f, sym, c):
    p = c.path
    sp = short_path(p)
    # ---------------------------------------------------------------- external partial functions
    if strip_generics(p) in EXTERNAL_PARTIAL:
        bad = EXTERNAL_PARTIAL[strip_generics(p)]
        k = c.const_arg(0)
        o = f.origin(c.args[0])
        txt = f.describe_origin(o, deep=1)
        # constant receiver (enum unit variant aggregates)
        base = o
        while base[0] == "proj":
            base = base[1]
        if base[0] == "const" and "promoted" in base[1]:
            # `&RenameRule::PascalCase` is promoted: read the variant from the promoted body
            pb = P.fns.get("%s::{promoted#%d}" % (f.id, base[1]["promoted"]))
            if pb is not None:
                for blk in pb.blocks:
                    for st in blk["stmts"]:
                        rv = st.get("rv")
                        if rv and rv["k"] == "aggr" and rv.get("adt", "").endswith("RenameRule"):
                            base = ("aggr", rv)
        if base[0] == "aggr" and base[1].get("variant") is not None:
            v = base[1]["variant"]
            if v not in bad:
                return True, "receiver is the constant %s (total)" % v, sp
            return False, "called with %s, which byte-slices the first character of its argument (panics on empty/non-ASCII-initial names)" % v, "%s:%s" % (sp, v)
        # dominated by a discriminant test on the same receiver excluding the partial variants
        for (a, lab) in f.edge_dominators(c.bb):
            o2, outcome = f.cond_struct(a, lab)
            if f.describe_origin(o2, deep=1).replace(".deref", "") == txt.replace(".deref", ""):
                alts = set(outcome.split("|"))
                if not (alts & bad):
                    return True, "receiver variant is one of %s (the partial variants %s are excluded by a dominating test)" % (sorted(alts)[:3], sorted(bad)), sp
        return False, "%s byte-slices the first character for %s; the receiver is not restricted: panics for names that are empty after removing '_' or start with a non-ASCII letter" % (sp, sorted(bad)), "%s:unrestricted" % sp
    # ---------------------------------------------------------------- str slicing
    if p in ("std::ops::Index::index", "std::ops::IndexMut::index_mut"):
        st = c.self_ty or ""
        if st in ("str", "std::string::String"):
            view = sym.view_op(c.args[0])
            rng = sym.range_of(c)
            if view is None or rng is None:
                return False, "unrecognised range expression", "str-index:?"
            parts = []
            ident_parts = []
            L = {}
            for which in ("start", "end"):
                opnd = rng.get(which)
                if opnd is None:
                    ident_parts.append("")
                    continue
                lin = sym.lin_op(opnd)
                if lin is None:
                    return False, "the %s bound is not an integer expression the analysis understands" % which, "str-index:%s:?" % which
                L[which] = lin
                ident_parts.append(lin.render(sym.namer))
                okv, why = sym.valid_in(view, lin)
                if not okv:
                    # constant start/end protected by prefix / suffix guards
                    n, pre, suf, facts = sym.min_len(view, c.bb)
                    if not lin.a and which == "start" and pre is not None and lin.c <= len(pre.encode()) and (lin.c == len(pre.encode()) or all(ord(x) < 128 for x in pre)):
                        parts.append("start %d within the guarded ASCII prefix %r" % (lin.c, pre))
                        continue
                    if which == "end" and suf is not None and len(lin.a) == 1 and list(lin.a.items())[0] == (("len", view.key()), 1) and -lin.c <= len(suf.encode()) \
                            and all(ord(x) < 128 for x in suf) and lin.c <= 0:
                        parts.append("end len()%d at the guarded ASCII suffix %r" % (lin.c, suf))
                        continue
                    ident = "str-index:[%s..%s]" % (ident_parts[0] if which == "end" else lin.render(sym.namer), lin.render(sym.namer) if which == "end" else "")
                    if not lin.a and lin.c == 1 and which == "start":
                        ident = "str-index:[1..]:after-ascii-quote"
                    return False, "%s bound: %s" % (which, why), ident
                parts.append("%s: %s" % (which, why))
            ident = "str-index:[%s..%s]" % (ident_parts[0], ident_parts[1] if len(ident_parts) > 1 else "")
            if "start" in L and "end" in L:
                diff = L["end"].add(L["start"], -1)
                if not diff.nonneg():
                    # len - k forms: use min_len
                    n, pre, suf, facts = sym.min_len(view, c.bb)
                    lenatom = ("len", view.key())
                    if diff.a.get(lenatom) == 1 and len(diff.a) == 1 and n + diff.c >= 0:
                        parts.append("start <= end since len() >= %d" % n)
                    elif found_after_other_char(sym, view, diff):
                        parts.append("start <= end: " + found_after_other_char(sym, view, diff))
                    else:
                        pats = []
                        for which in ("start", "end"):
                            pats.append(" + ".join(sorted(sym.namer(a) for a in L[which].a if a[0] == "found")))
                        if "find('(')" in ident and "find(')')" in ident:
                            return False, "cannot derive start <= end", "find('(')+1 .. find(')')"
                        return False, "cannot derive start <= end for %s" % ident, ident + ":order"
            return True, "G3: " + "; ".join(parts) if parts else "full range", ident
        # indexed collections: Punctuated / Vec / slice with usize index
        idx = sym.lin_op(c.args[1]) if len(c.args) > 1 else None
        recv = f.describe_origin(f.origin(c.args[0]), deep=3)
        if idx is not None and not idx.a:
            need = idx.c + 1
            have = min_len_from(guard_len_facts(f, c.bb), recv)
            if have >= need:
                return True, "G1: index %d under a dominating len() >= %d test on the same collection" % (idx.c, have), "index:%s[%d]" % (short_path(re.sub(r"<.*", "", st)), idx.c)
            return False, "index %d is not protected by a length test on the same collection (known len >= %d)" % (idx.c, have), "index:%s[%d]:unguarded" % (short_path(re.sub(r"<.*", "", st)), idx.c)
        # symbolic index: `c[i + k]` under a dominating `c.len() >= i + m` (same unmodified i) with m > k
        if idx is not None and idx.a and all(a_[0] == "var" for a_ in idx.a):
            for (a_, lab_) in f.edge_dominators(c.bb):
                o_, outcome_ = f.cond_struct(a_, lab_)
                if o_[0] != "bin" or outcome_ not in ("true", "false"):
                    continue
                sw = f.blocks[a_]["term"]
                pl_ = op_place(sw["discr"])
                ds_ = f.defs.get(pl_["l"], []) if pl_ and not pl_.get("p") else []
                if len(ds_) != 1 or ds_[0][0] != "stmt" or ds_[0][3]["k"] != "bin":
                    continue
                rvb = ds_[0][3]
                op_ = rvb["op"]
                for (len_side, other_side, flip) in ((rvb["a"], rvb["b"], False), (rvb["b"], rvb["a"], True)):
                    lo_ = f.origin(len_side)
                    if not (lo_[0] == "call" and lo_[1].name == "len" and _norm(f.describe_origin(f.origin(lo_[1].args[0]), deep=3)) == _norm(recv)):
                        continue
                    bound = sym.lin_op(other_side)
                    if bound is None:
                        continue
                    opn = {"Lt": "Gt", "Le": "Ge", "Gt": "Lt", "Ge": "Le"}.get(op_, op_) if flip else op_
                    if outcome_ == "false":
                        opn = {"Eq": "Ne", "Ne": "Eq", "Lt": "Ge", "Le": "Gt", "Gt": "Le", "Ge": "Lt"}[opn]
                    # len >= bound (Ge) / len > bound (Gt): need len >= idx + 1
                    slack = bound.add(idx, -1)
                    if not slack.a and ((opn in ("Ge", "Eq") and slack.c >= 1) or (opn == "Gt" and slack.c >= 0)):
                        return True, "G1: index %s under a dominating len() %s %s test on the same collection" % (idx.render(), opn, bound.render()), "index:%s[sym]" % short_path(re.sub(r"<.*", "", st))
        # a map indexed with one of its own keys: `for name in sorted(map.keys()) { &map[name] }` — the key comes from `keys()` of the very map that is
        # indexed, and nothing in the function removes from that map
        if re.search(r"HashMap|BTreeMap", st or "") and len(c.args) > 1:
            def keys_of(o, d=0):
                while o[0] == "proj":
                    o = o[1]
                if d > 10 or o[0] != "call" or not o[1].args:
                    return None
                if o[1].name in ("keys", "into_keys"):
                    return f.describe_origin(f.origin(o[1].args[0]), deep=3)
                return keys_of(f.origin(o[1].args[0]), d + 1)
            ksrc = keys_of(f.origin(c.args[1]))
            shrinks = [c2 for c2 in f.calls if c2.name in ("remove", "remove_entry", "clear", "retain", "drain", "extract_if") and c2.args
                       and _norm(f.describe_origin(f.origin(c2.args[0]), deep=3)) == _norm(recv)]
            if ksrc is not None and _norm(ksrc) == _norm(recv) and not shrinks:
                return True, "G4: a map indexed with a key taken from its own keys(), and never shrunk in this function", "index:%s[own-key]" % short_path(re.sub(r"<.*", "", st))
        return False, "index into %s with a non-constant index / key" % short_path(re.sub(r"<.*", "", st)), "index:%s[?]" % short_path(re.sub(r"<.*", "", st))
    # ---------------------------------------------------------------- unwrap / expect
    m = re.search(r"(Option|Result)::<[^>]*>::(unwrap|expect|unwrap_err|expect_err)$", p)
    if m:
        o = f.origin(c.args[0])
        base = o
        while base[0] == "proj":
            base = base[1]
        kind = "%s::%s" % (m.group(1), m.group(2))
        if base[0] == "call":
            cc = base[1]
            if cc.name in ("first", "last", "first_mut", "last_mut"):
                recv = f.describe_origin(f.origin(cc.args[0]), deep=3)
                have = min_len_from(guard_len_facts(f, c.bb), recv)
                if have >= 1:
                    return True, "G1: %s() under a dominating len() >= %d test" % (cc.name, have), kind + ":" + cc.name
                return False, "%s() may be None: no dominating non-emptiness test" % cc.name, kind + ":" + cc.name + ":unguarded"
            if cc.name in ("pop", "pop_front", "pop_back") and cc.args:
                # `while !queue.is_empty() { let x = queue.pop().unwrap(); .. }`: a dominating non-emptiness test of the same collection, with nothing
                # that removes from it in between
                from unord import Unord as _U
                rb = _U._base_local(None, f, cc.args[0])
                for (a_, lab_) in f.edge_dominators(cc.bb):
                    try:
                        o_, out_ = f.cond_struct(a_, lab_)
                    except Exception:  # noqa
                        continue
                    while o_[0] == "un" and o_[1] == "Not" and out_ in ("true", "false"):
                        o_, out_ = o_[2], ("false" if out_ == "true" else "true")
                    if o_[0] == "call" and o_[1].name == "is_empty" and out_ == "false" and o_[1].args and _U._base_local(None, f, o_[1].args[0]) == rb and rb is not None:
                        REM = {"pop", "pop_front", "pop_back", "clear", "truncate", "drain", "retain", "remove", "swap_remove", "split_off", "take"}
                        between = [x for x in f.calls if x.bb != cc.bb and x.bb in f.reach_blocks and x.name in REM and x.args and _U._base_local(None, f, x.args[0]) == rb
                                   and f.dominates(a_, x.bb) and f.dominates(x.bb, cc.bb)]
                        if not between:
                            return True, "G1: %s() under a dominating is_empty() == false test of the same collection" % cc.name, kind + ":" + cc.name
                return False, "%s() may be None: no dominating non-emptiness test" % cc.name, kind + ":" + cc.name + ":unguarded"
            if cc.name in ("strip_suffix", "strip_prefix"):
                lit = cc.arg_str(1)
                view = sym.view_op(cc.args[0])
                n, pre, suf, facts = sym.min_len(view, c.bb) if view else (0, None, None, [])
                if lit is not None and ((cc.name == "strip_suffix" and suf == lit) or (cc.name == "strip_prefix" and pre == lit)):
                    return True, "G2: %s(%r) under a dominating %s" % (cc.name, lit, facts), kind + ":" + cc.name
                return False, "%s(%r) may be None: no dominating ends_with/starts_with of the same literal" % (cc.name, lit), kind + ":" + cc.name + ":unguarded"
            if cc.name == "as_object_mut":
                return False, "as_object_mut() may be None", "Option::unwrap:as_object_mut-after-is_object-repair"
            if c.exp and re.search(r"serde_json::(value::)?to_value", cc.path):
                ty = cc.generics[0] if cc.generics else ""
                if re.match(r"^&?(std::string::String|bool|&?str|std::option::Option<(std::collections::HashMap<std::string::String, std::string::String>|std::vec::Vec<std::string::String>)>)$", ty):
                    return True, "G4: json! of %s — serialisation of strings/bools/string maps cannot fail" % short_path(ty), kind + ":json!"
                return False, "json! serialises %s, which may fail" % ty, kind + ":json!:" + short_path(ty)
            if cc.name in ("as_ref", "as_mut", "as_deref"):
                inner = f.origin(cc.args[0])
                b2 = inner
                while b2[0] == "proj":
                    b2 = b2[1]
                if all_some(b2):
                    return True, "G4: the Option is Some(..) on every path reaching the unwrap", kind + ":always-some"
        if all_some(base):
            return True, "G4: the Option is Some(..) on every path reaching the unwrap", kind + ":always-some"
        return False, "value may be None/Err", sp
    if "RefCell" in p:
        return False, "RefCell borrow may already be held", "RefCell::" + (c.name or "borrow")
    if p.startswith("core::panicking::") or "begin_panic" in p or "panic_fmt" in p:
        return False, "explicit panic", "panic:" + sp
    return False, "partial function", sp


def all_some(o):
    if o[0] == "aggr":
        return o[1].get("variant") in ("Some", "Ok")
    if o[0] == "multi":
        return bool(o[2]) and all(all_some(x) for x in o[2])
    return False


def ex_side_condition(f, c, ident):
    """mechanical side conditions of the reviewed exemptions"""
    if ident == "Option::unwrap:as_object_mut-after-is_object-repair":
        # an is_object() test on the same variable dominates the unwrap
        return any(cc.name == "is_object" and f.dominates(cc.bb, c.bb) for cc in f.calls)
    if ident == "str-index:[1..]:after-ascii-quote":
        conds = f.must_conditions(c.bb)
        quotes = set()
        for blk in f.blocks:
            for st in blk["stmts"]:
                rv = st.get("rv")
                if rv and rv["k"] == "bin" and rv["op"] == "Eq":
                    for k in (op_const(rv["a"]), op_const(rv["b"])):
                        if k and "char" in k:
                            quotes.add(k["char"])
        return {'"', "'"} <= quotes and any("chars" in x or "next" in x for x in conds)
    return True

"""svlib — string-shape extraction (SV): a syntactic path enumeration of String-building Rust code.

It reads the syn AST dumped by srcfacts and, for a function, enumerates its control paths, keeping
for each path the list of branch conditions (as text) and the *shape* of the returned string:

  ("lit", s)                      literal text
  ("cat", [sv, ..])               concatenation
  ("rec", method, subject)        recursive rendering call on a sub-structure (visit_type(inner) ..)
  ("rep", sv, sep)                iter().map(|t| ..).collect::<Vec<_>>().join(sep)
  ("var", name)                   a string taken from data (field, parameter, binding)
  ("num", name)                   Display of a number
  ("maphit", table, key_sv)       value found in a lookup table (`mappings.get(name)`)
  ("call", fname, [sv ..])        call kept as a node (escapers, validators applied to a built schema)
  ("opaque", text)                construct outside the handled fragment (rules that need it fail closed)

Nothing is executed; values are never computed.  Branches are joined as alternatives.
"""
import re

from srclib import expr_text, pat_text, lit_str, pat_bindings

MAX_PATHS = 600


def lit(s):
    return ("lit", s)


def cat(parts):
    out = []
    for p in parts:
        if p[0] == "cat":
            out.extend(p[1])
        elif p[0] == "lit" and out and out[-1][0] == "lit":
            out[-1] = ("lit", out[-1][1] + p[1])
        elif p[0] == "lit" and p[1] == "":
            continue
        else:
            out.append(p)
    # `head` followed by (sep head)* is head joined by sep: x ++ rep_tail(x, sep) == rep(x, sep) over a non-empty list
    i = 0
    while i < len(out):
        p = out[i]
        if p[0] == "rep_tail":
            body = list(p[1][1]) if p[1][0] == "cat" else [p[1]]
            n = len(body)
            if n and i >= n and out[i - n:i] == body:
                out[i - n:i + 1] = [("rep", p[1], p[2])]
                i -= n
        i += 1
    if len(out) == 1:
        return out[0]
    return ("cat", out)


def parse_fmt(fmt, args):
    """format string -> list of sv pieces; args are already evaluated svs (positional / named dict)"""
    out = []
    i = 0
    n = 0
    buf = ""
    pos, named = args
    while i < len(fmt):
        ch = fmt[i]
        if ch == "{":
            if i + 1 < len(fmt) and fmt[i + 1] == "{":
                buf += "{"
                i += 2
                continue
            j = fmt.index("}", i)
            spec = fmt[i + 1:j]
            name = spec.split(":")[0]
            if buf:
                out.append(lit(buf))
                buf = ""
            if name == "":
                out.append(pos[n] if n < len(pos) else ("opaque", "fmt-arg"))
                n += 1
            elif name.isdigit():
                k = int(name)
                out.append(pos[k] if k < len(pos) else ("opaque", "fmt-arg"))
            else:
                out.append(named.get(name, ("var", name)))
            i = j + 1
            continue
        if ch == "}":
            if i + 1 < len(fmt) and fmt[i + 1] == "}":
                buf += "}"
                i += 2
                continue
        buf += ch
        i += 1
    if buf:
        out.append(lit(buf))
    return out


class Outcome:
    __slots__ = ("conds", "env", "value", "returned")

    def __init__(self, conds, env, value=None, returned=False):
        self.conds = conds
        self.env = env
        self.value = value
        self.returned = returned


TRANSPARENT_METHODS = {"to_string", "clone", "to_owned", "as_str", "as_ref", "into", "borrow", "deref", "as_deref", "trim"}
ENTRY_METHODS = {"visit_type", "visit_type_for_interface", "render_type"}


class SVEval:
    def __init__(self, S):
        self.S = S

    # ------------------------------------------------------------ public
    def fn_paths(self, fn, bind=None, self_methods=None, depth=0):
        """paths of the value returned by fn: list of (conds, sv).  bind: param name -> sv.
        self_methods: callable(name) -> FnInfo or None, used to inline `self.m(..)` calls."""
        env = {}
        for p in fn.sig["params"]:
            if p.get("self"):
                continue
            names = pat_bindings(p["pat"])
            for nm in names:
                env[nm] = (bind or {}).get(nm, self._default_param(nm, p.get("ty") or ""))
        self._self_methods = self_methods
        self._depth = depth
        self._ret_opt = re.sub(r"\s+", "", (fn.sig.get("ret") or "")).startswith(("Option<", "std::option::Option<"))
        outs = self.exec_block(fn.body or [], [Outcome([], env)])
        res = []
        for o in outs:
            if o.value is not None:
                res.append((o.conds, o.value))
        return res[:MAX_PATHS]

    def _default_param(self, name, ty):
        t = ty.replace(" ", "")
        if "TypeStructure" in t:
            return ("sub", name)
        if re.search(r"\b(u8|u16|u32|u64|usize|i32|i64|f32|f64)\b", t) and "Option" not in t:
            return ("num", name)
        return ("var", name)

    # ------------------------------------------------------------ blocks / statements
    def exec_block(self, stmts, states):
        """-> list[Outcome]; value of the block is the last expression without semicolon"""
        self._fn_depth = getattr(self, "_fn_depth", -1) + 1
        try:
            return self._exec_block(stmts, states)
        finally:
            self._fn_depth -= 1

    def _exec_block(self, stmts, states):
        cur = states
        for i, st in enumerate(stmts):
            nxt = []
            last = (i == len(stmts) - 1)
            for o in cur:
                if o.returned:
                    nxt.append(o)
                    continue
                nxt.extend(self.exec_stmt(st, o, last))
            cur = nxt[:MAX_PATHS]
        out = []
        for o in cur:
            out.append(o)
        return out

    def exec_stmt(self, st, o, last):
        k = st.get("k")
        if k == "let":
            init = st.get("init")
            if init is None:
                return [Outcome(o.conds, dict(o.env))]
            outs = []
            pat0 = st["pat"]["pat"] if st["pat"].get("k") == "typed" else st["pat"]
            if st.get("else") is not None and pat0.get("k") == "tstruct" and "::".join(pat0.get("path", [])) == "Some" and self.is_optionish(init) \
                    and not (init.get("k") == "mcall" and init["method"] == "get"):
                return self.bind_let(st, o.conds, dict(o.env), None, init)      # evaluated case by case there
            for (c2, v, ret, env2) in self.eval(init, o):
                if ret:
                    outs.append(Outcome(o.conds + c2, env2, v, True))
                    continue
                # let-else / pattern bindings
                outs.extend(self.bind_let(st, o.conds + c2, env2, v, init))
            return outs
        if k == "expr":
            e = st["e"]
            outs = []
            tail_opt = last and not st.get("semi") and getattr(self, "_ret_opt", False) and getattr(self, "_fn_depth", 0) == 0 and e.get("k") in ("mcall", "path", "field", "call")
            for (c2, v, ret, env2) in (self.eval_opt(e, o) if tail_opt else self.eval(e, o, stmt=not (last and not st.get("semi")))):
                if ret:
                    outs.append(Outcome(o.conds + c2, env2, v, True))
                elif last and not st.get("semi"):
                    outs.append(Outcome(o.conds + c2, env2, v, False))
                else:
                    outs.append(Outcome(o.conds + c2, env2, None, False))
            return outs
        return [o]

    def bind_let(self, st, conds, env, v, init):
        pat = st["pat"]
        env = dict(env)
        pk = pat.get("k")
        if pk == "typed":
            pat = pat["pat"]
            pk = pat.get("k")
        if pk == "ident":
            env[pat["name"]] = v
            return [Outcome(conds, env)]
        if pk == "tstruct" and "::".join(pat["path"]) == "Some" and st.get("else") is not None and self.is_optionish(init) \
                and not (init.get("k") == "mcall" and init["method"] == "get"):
            outs = []
            for (c, v2, r, en) in self.eval_opt(init, Outcome(conds, env)):
                if r:
                    outs.append(Outcome(conds + c, en, v2, True))
                elif v2[0] == "opt":
                    okenv = dict(en)
                    for b in pat_bindings(pat):
                        okenv[b] = v2[1]
                    outs.append(Outcome(conds + c, okenv))
                else:
                    for (c3, v3, ret3, env3) in self.eval(st["else"], Outcome(conds + c, en)):
                        if ret3:
                            outs.append(Outcome(conds + c + c3, env3, v3, True))
            return outs
        if pk == "tstruct" and "::".join(pat["path"]) in ("Some", "Ok") and st.get("else") is not None:
            # let Some(x) = e else { diverge }
            t = expr_text(init)
            outs = []
            okenv = dict(env)
            for b in pat_bindings(pat):
                okenv[b] = self.some_payload(init, v, env)
            outs.append(Outcome(conds + ["%s is Some" % t], okenv))
            for (c3, v3, ret3, env3) in self.eval(st["else"], Outcome(conds + ["%s is None" % t], env)):
                if ret3:
                    outs.append(Outcome(conds + ["%s is None" % t] + c3, env3, v3, True))
            return outs
        for b in pat_bindings(pat):
            env[b] = ("var", b)
        return [Outcome(conds, env)]

    def some_payload(self, init_expr, v, env):
        """value bound by `Some(x)` patterns: recognise table lookups"""
        e = init_expr
        while e.get("k") in ("ref",):
            e = e["expr"]
        if e.get("k") == "mcall" and e["method"] == "get" and len(e["args"]) == 1:
            table = expr_text(e["recv"])
            keys = [x for (_, x, _, _) in self.eval(e["args"][0], Outcome([], env))]
            return ("maphit", table, keys[0] if keys else ("opaque", "key"))
        if v is not None and v[0] in ("var", "field"):
            return ("var", v[1])
        return v if v is not None else ("var", expr_text(e))

    # ------------------------------------------------------------ expressions
    def eval(self, e, o, stmt=False):
        """-> list of (extra conds, sv or None, returned, env)"""
        k = e.get("k")
        env = o.env
        if k == "lit":
            l = e["lit"]
            if l["t"] in ("str", "char"):
                return [([], lit(l["v"]), False, env)]
            return [([], ("num", str(l["v"])), False, env)]
        if k == "path":
            name = "::".join(e["segs"])
            if len(e["segs"]) == 1 and name in env:
                return [([], env[name], False, env)]
            return [([], ("var", name), False, env)]
        if k == "ref":
            return self.eval(e["expr"], o)
        if k == "unary":
            if e["op"] == "*":
                return self.eval(e["expr"], o)
            return [([], ("opaque", expr_text(e)), False, env)]
        if k == "field":
            base = expr_text(e["base"])
            bv = env.get(base) if e["base"].get("k") == "path" else None
            if bv is not None and bv[0] == "var":
                return [([], ("var", "%s.%s" % (bv[1], e["member"])), False, env)]
            return [([], ("var", "%s.%s" % (base, e["member"])), False, env)]
        if k == "macro":
            return self.eval_macro(e, o)
        if k == "block":
            outs = self.exec_block(e["stmts"], [Outcome([], dict(env))])
            return [(x.conds, x.value, x.returned, x.env) for x in outs]
        if k == "return":
            if e.get("expr") is None:
                return [([], None, True, env)]
            return [(c, v, True, en) for (c, v, r, en) in self.eval(e["expr"], o)]
        if k == "if":
            return self.eval_if(e, o)
        if k == "match":
            return self.eval_match(e, o)
        if k == "mcall":
            return self.eval_mcall(e, o, stmt)
        if k == "call":
            return self.eval_call(e, o)
        if k == "assign":
            outs = []
            for (c, v, r, en) in self.eval(e["r"], o):
                en2 = dict(en)
                if e["l"].get("k") == "path" and len(e["l"]["segs"]) == 1:
                    en2[e["l"]["segs"][0]] = v
                outs.append((c, None, r, en2))
            return outs
        if k == "tuple":
            return [([], ("tuple", [self.first(x, o) for x in e["elems"]]), False, env)]
        if k == "closure":
            return [([], ("closure", e), False, env)]
        if k == "try":
            if getattr(self, "_ret_opt", False):
                # `x?` in a function returning Option: the payload, or an early `return None`
                outs = []
                for (c, v, r, en) in self.eval_opt(e["expr"], o):
                    if r:
                        outs.append((c, v, True, en))
                    elif v[0] == "none":
                        outs.append((c, ("none",), True, en))
                    else:
                        outs.append((c, v[1], False, en))
                return outs[:MAX_PATHS]
            return self.eval(e["expr"], o)
        if k == "for":
            r_ = self.eval_join_loop(e, o)
            if r_ is not None:
                return r_
        if k in ("binary", "cast", "index", "range", "struct", "array", "for", "while", "loop", "letcond"):
            return [([], ("opaque", expr_text(e)), False, env)]
        return [([], ("opaque", expr_text(e)), False, env)]

    # ------------------------------------------------------------ join written as a loop
    def eval_join_loop(self, e, o):
        """`for (i, x) in xs.iter().enumerate() { if i > 0 { acc.push_str(SEP); } acc.push_str(&f(x)); }` appends the same text as
        `xs.iter().map(f).collect::<Vec<_>>().join(SEP)`: the accumulator gains ("rep", f(x), SEP).  Anything else: None (opaque loop)."""
        env = o.env
        it = e["iter"]
        pat = e["pat"]
        idx = elem = None
        if it.get("k") == "mcall" and it["method"] == "enumerate" and pat.get("k") == "tuple" and len(pat["elems"]) == 2:
            b0, b1 = pat_bindings(pat["elems"][0]), pat_bindings(pat["elems"][1])
            if len(b0) == 1 and len(b1) == 1:
                idx, elem = b0[0], b1[0]
            src_e = it["recv"]
        else:
            b = pat_bindings(pat)
            if len(b) == 1:
                elem = b[0]
            src_e = it
        if elem is None:
            return None
        src = self.first(src_e, o)
        subject = src[1] if src and src[0] == "iter" else expr_text(src_e)
        benv = dict(env)
        benv[elem] = ("sub", subject + "[]") if (src and src[0] == "iter" and src[2]) else ("var", elem)
        stmts = list(e["body"])
        sep = ""
        acc = None
        if idx is not None and stmts and stmts[0].get("k") == "expr" and stmts[0]["e"].get("k") == "if" and stmts[0]["e"].get("else") is None:
            c = stmts[0]["e"]["cond"]
            ct = expr_text(c).replace(" ", "")
            if ct in ("%s>0" % idx, "%s!=0" % idx, "0<%s" % idx, "%s>=1" % idx):
                th = stmts[0]["e"]["then"]
                if len(th) == 1 and th[0].get("k") == "expr" and th[0]["e"].get("k") == "mcall" and th[0]["e"]["method"] in ("push_str", "push") \
                        and th[0]["e"]["args"] and lit_str(th[0]["e"]["args"][0]) is not None:
                    sep = lit_str(th[0]["e"]["args"][0])
                    acc = expr_text(th[0]["e"]["recv"])
                    stmts = stmts[1:]
                else:
                    return None
            else:
                return None
        tail = False
        if idx is None and len(stmts) == 2 and all(s_.get("k") == "expr" and s_["e"].get("k") == "mcall" and s_["e"]["method"] in ("push_str", "push") and s_["e"]["args"] for s_ in stmts) \
                and lit_str(stmts[0]["e"]["args"][0]) is not None and expr_text(stmts[0]["e"]["recv"]) == expr_text(stmts[1]["e"]["recv"]):
            # `for x in rest { acc.push_str(SEP); acc.push_str(&f(x)); }`: every element preceded by the separator — the tail of a join whose head
            # was appended before the loop (`[first, rest @ ..]`)
            sep = lit_str(stmts[0]["e"]["args"][0])
            stmts = stmts[1:]
            tail = True
        if len(stmts) != 1 or stmts[0].get("k") != "expr" or stmts[0]["e"].get("k") != "mcall" or stmts[0]["e"]["method"] not in ("push_str", "push"):
            return None
        ps = stmts[0]["e"]
        if acc is not None and expr_text(ps["recv"]) != acc:
            return None
        acc = expr_text(ps["recv"])
        if acc not in env or not ps["args"]:
            return None
        bv = self.first(ps["args"][0], Outcome(o.conds, benv))
        en2 = dict(env)
        en2[acc] = cat([env[acc], ("rep_tail" if tail else "rep", bv if bv is not None else ("opaque", "elem"), sep)])
        return [([], None, False, en2)]

    # ------------------------------------------------------------ Option algebra
    OPT_COMBINATORS = ("and_then", "map", "cloned", "copied", "as_ref", "as_deref", "as_mut", "or_else", "filter", "get", "ok")

    def is_optionish(self, e):
        """an expression built from Option combinators (…get(k) / .and_then(|x| ..) / .map(|x| ..) / .cloned() …), or a call of an own method
        that returns Option: evaluated case by case instead of as an opaque call"""
        while isinstance(e, dict) and e.get("k") in ("paren", "ref"):
            e = e["expr"]
        if isinstance(e, dict) and e.get("k") == "call":
            import srclib as _sl
            t_ = _sl._NEW_HELPERS.get(expr_text(e["func"]).split("::")[-1])
            return t_ is not None and re.sub(r"\s+", "", (t_.sig.get("ret") or "")).startswith(("Option<", "std::option::Option<"))
        if not isinstance(e, dict) or e.get("k") != "mcall":
            return False
        m = e["method"]
        if m in ("and_then", "map") and e["args"] and e["args"][0].get("k") == "closure":
            r = e["recv"]
            # only Option receivers: an iterator `.map(..)` keeps its old meaning
            return self.is_optionish(r) or (r.get("k") == "mcall" and r["method"] in ("get_config", "get", "first", "last", "as_ref", "as_deref")) or self._returns_option(r)
        if m in ("cloned", "copied", "as_ref", "as_deref", "as_mut"):
            return self.is_optionish(e["recv"])
        if m == "get" and len(e["args"]) == 1:
            return True
        return self._returns_option(e)

    def _returns_option(self, e):
        if not (isinstance(e, dict) and e.get("k") == "mcall" and expr_text(e["recv"]) == "self" and self._self_methods is not None):
            return False
        t = self._self_methods(e["method"])
        return t is not None and t.body is not None and re.sub(r"\s+", "", (t.sig.get("ret") or "")).startswith(("Option<", "std::option::Option<"))

    def eval_opt(self, e, o):
        """evaluate an Option-valued expression case by case: -> list of (conds, ("opt", sv) | ("none",), returned, env)"""
        env = o.env
        while isinstance(e, dict) and e.get("k") in ("paren", "ref"):
            e = e["expr"]
        k = e.get("k")
        if k == "path" and len(e["segs"]) == 1 and e["segs"][0] in env and env[e["segs"][0]] is not None and env[e["segs"][0]][0] in ("opt", "none"):
            return [([], env[e["segs"][0]], False, env)]
        if k == "path" and e["segs"] == ["None"]:
            return [([], ("none",), False, env)]
        if k == "call" and expr_text(e["func"]) == "Some" and e["args"]:
            return [(c, ("opt", v), r, en) for (c, v, r, en) in self.eval(e["args"][0], o)]
        if k == "mcall":
            m = e["method"]
            recv = e["recv"]
            if m in ("cloned", "copied", "as_ref", "as_deref", "as_mut") and not e["args"]:
                return self.eval_opt(recv, o)
            if m == "get" and len(e["args"]) == 1:
                t = expr_text(e)
                table = expr_text(recv)
                keys = [x for (_, x, _, _) in self.eval(e["args"][0], Outcome([], env))]
                hit = ("maphit", table, keys[0] if keys else ("opaque", "key"))
                return [(["if-let Some(hit) = " + t], ("opt", hit), False, env), (["not(if-let Some(hit) = " + t + ")"], ("none",), False, env)]
            if m in ("and_then", "map") and e["args"] and e["args"][0].get("k") == "closure":
                clo = e["args"][0]
                params = [b for p in clo["params"] for b in pat_bindings(p)]
                outs = []
                self._force_opt = False
                for (c, v, r, en) in self.eval_opt(recv, o):
                    if r or v[0] == "none":
                        outs.append((c, v, r, en))
                        continue
                    cenv = dict(en)
                    for b in params:
                        cenv[b] = v[1]
                    inner = Outcome(o.conds + c, cenv)
                    if m == "and_then":
                        for (c2, v2, r2, en2) in self.eval_opt(clo["body"], inner):
                            outs.append((c + c2, v2, False, en))
                    else:
                        for (c2, v2, r2, en2) in self.eval(clo["body"], inner):
                            outs.append((c + c2, ("opt", v2), False, en))
                return outs[:MAX_PATHS]
            if self._returns_option(e) and self._depth < 8:
                target = self._self_methods(m)
                args = [self.first(a, o) for a in e["args"]]
                bind = {}
                pnames = [b for p in target.sig["params"] if not p.get("self") for b in pat_bindings(p["pat"])]
                for nm, av in zip(pnames, args):
                    bind[nm] = av
                sub = SVEval(self.S)
                outs = []
                for (cs, v) in sub.fn_paths(target, bind, self._self_methods, self._depth + 1):
                    cs2 = ["%s: %s" % (m, c) for c in cs]
                    if v is not None and v[0] in ("opt", "none"):
                        outs.append((cs2, v, False, env))
                    elif v is not None and v[0] == "maphit":
                        outs.append((cs2, ("opt", v), False, env))
                    else:
                        t = "%s: %s" % (m, render(v) if v is not None else "?")
                        outs.append((cs2 + [t + " is Some"], ("opt", v if v is not None else ("opaque", m)), False, env))
                        outs.append((cs2 + [t + " is None"], ("none",), False, env))
                return outs[:MAX_PATHS] or [([], ("opt", ("opaque", m)), False, env)]
        if k == "call" and self.is_optionish(e):
            outs = []
            for (c, v, r, en) in self.eval(e, o):
                if v is not None and v[0] in ("opt", "none"):
                    outs.append((c, v, r, en))
                elif v == ("var", "None"):
                    outs.append((c, ("none",), r, en))
                else:
                    outs.append((c, ("opt", v if v is not None else ("opaque", "call")), r, en))
            return outs
        if k == "field" or k == "mcall" or k == "path" or k == "call":
            # an Option we know nothing about: both cases, named after the expression
            t = expr_text(e)
            guard = self.__dict__.setdefault("_opt_guard", set())
            if id(e) in guard:
                # we are already evaluating this very expression as an Option (eval -> eval_mcall -> eval_opt): name it and stop
                return [([t + " is Some"], ("opt", ("var", t)), False, env), ([t + " is None"], ("none",), False, env)]
            guard.add(id(e))
            try:
                vals = self.eval(e, o)
            finally:
                guard.discard(id(e))
            v0 = vals[0][1] if vals else ("var", t)
            if v0 is not None and v0[0] in ("opt", "none"):
                return [(c, v, r, en) for (c, v, r, en) in vals]
            pv = v0 if (v0 is not None and v0[0] in ("var", "maphit")) else ("var", t)
            return [([t + " is Some"], ("opt", pv), False, env), ([t + " is None"], ("none",), False, env)]
        if k == "block":
            outs = []
            for x in self.exec_block(e["stmts"], [Outcome([], dict(env))]):
                v = x.value
                if v is not None and v[0] in ("opt", "none"):
                    outs.append((x.conds, v, x.returned, x.env))
                else:
                    outs.append((x.conds, ("opt", v if v is not None else ("opaque", "block")), x.returned, x.env))
            return outs
        t = expr_text(e)
        return [([t + " is Some"], ("opt", ("var", t)), False, env), ([t + " is None"], ("none",), False, env)]

    def first(self, e, o):
        r = self.eval(e, o)
        return r[0][1] if r else ("opaque", "?")

    def eval_macro(self, e, o):
        name = e["name"]
        env = o.env
        if name in ("eprintln", "println", "print", "eprint", "debug_assert", "log"):
            return [([], None, False, env)]
        if name == "format" and e.get("args"):
            fmt = lit_str(e["args"][0])
            if fmt is None:
                return [([], ("opaque", "format!(non-literal)"), False, env)]
            pos = []
            named = {}
            combos = [([], [], {})]
            for a in e["args"][1:]:
                if a.get("k") == "assign":
                    nm = expr_text(a["l"])
                    alts = self.eval(a["r"], o)
                    combos = [(c + c2, p, dict(nd, **{nm: v})) for (c, p, nd) in combos for (c2, v, r, en) in alts]
                else:
                    alts = self.eval(a, o)
                    combos = [(c + c2, p + [v if v is not None else ("opaque", "unit")], nd) for (c, p, nd) in combos for (c2, v, r, en) in alts]
                combos = combos[:MAX_PATHS]
            out = []
            for (c, p, nd) in combos:
                # implicit captures `{name}`
                for m in re.finditer(r"\{(\w+)(?::[^}]*)?\}", fmt):
                    nm = m.group(1)
                    if not nm.isdigit() and nm not in nd:
                        nd[nm] = env.get(nm, ("var", nm))
                out.append((c, cat(parse_fmt(fmt, (p, nd))), False, env))
            return out
        if name == "matches":
            return [([], ("opaque", "matches!(..)"), False, env)]
        if name == "vec":
            return [([], ("opaque", "vec![..]"), False, env)]
        return [([], ("opaque", "%s!(..)" % name), False, env)]

    def cond_text(self, c, env):
        return expr_text(c)

    def eval_if(self, e, o):
        env = o.env
        cond = e["cond"]
        outs = []
        if cond.get("k") == "letcond" and cond["pat"].get("k") == "tstruct" and "::".join(cond["pat"].get("path", [])) == "Some" \
                and self.is_optionish(cond["expr"]) and not (cond["expr"].get("k") == "mcall" and cond["expr"]["method"] == "get"):
            # the subject is evaluated case by case: `if let Some(x) = self.lookup(k)` / `= a.and_then(..)`
            binds = pat_bindings(cond["pat"])
            for (c, v, r, en) in self.eval_opt(cond["expr"], o):
                if r:
                    outs.append((c, v, r, en))
                elif v[0] == "opt":
                    then_env = dict(en)
                    for b in binds:
                        then_env[b] = v[1]
                    for x in self.exec_block(e["then"], [Outcome([], then_env)]):
                        outs.append((c + x.conds, x.value, x.returned, self.merge_env(env, x.env, then_env)))
                elif e.get("else") is not None:
                    for (c2, v2, r2, en2) in self.eval(e["else"], Outcome(o.conds + c, dict(en))):
                        outs.append((c + c2, v2, r2, en2))
                else:
                    outs.append((c, None, False, en))
            return outs[:MAX_PATHS]
        if cond.get("k") == "letcond":
            t = "%s = %s" % (pat_text(cond["pat"]), expr_text(cond["expr"]))
            then_env = dict(env)
            pat = cond["pat"]
            init = cond["expr"]
            vals = self.eval(init, o)
            v0 = vals[0][1] if vals else None
            path = "::".join(pat.get("path", [])) if pat.get("k") == "tstruct" else ""
            if pat.get("k") == "tstruct" and path in ("Some", "Ok"):
                for b in pat_bindings(pat):
                    then_env[b] = self.some_payload(init, v0, env)
            elif pat.get("k") == "tuple" and init.get("k") == "tuple":
                # if let (Some(a), Some(b)) = (x.a, x.b)
                for sp, se in zip(pat["elems"], init["elems"]):
                    for b in pat_bindings(sp):
                        then_env[b] = self.payload_of(se, env)
            else:
                for b in pat_bindings(pat):
                    then_env[b] = ("var", b)
            tc = "if-let " + t
            fc = "not(if-let " + t + ")"
        else:
            from srclib import literal_set_guard
            g = literal_set_guard(self.S, cond)
            if g is not None and len(g[1]) <= 32 and re.fullmatch(r"\w+", g[0] or ""):
                # `if TABLE.contains(&x) { f(x) }`: one path per listed literal with x bound to it (as a match on x would give)
                t = self.cond_text(cond, env)
                for l_ in sorted(g[1]):
                    then_env = dict(env)
                    then_env[g[0]] = lit(l_)
                    tc_ = '%s matches "%s"' % (g[0], l_)
                    for x in self.exec_block(e["then"], [Outcome([], then_env)]):
                        env_back = self.merge_env(env, x.env, then_env)
                        env_back[g[0]] = env.get(g[0], ("var", g[0]))
                        outs.append(([tc_] + x.conds, x.value, x.returned, env_back))
                fc = "not(" + t + ")"
                if e.get("else") is not None:
                    for (c, v, r, en) in self.eval(e["else"], Outcome(o.conds, dict(env))):
                        outs.append(([fc] + c, v, r, en))
                else:
                    outs.append(([fc], None, False, env))
                return outs[:MAX_PATHS]
            t = self.cond_text(cond, env)
            then_env = dict(env)
            tc = t
            fc = "not(" + t + ")"
        for x in self.exec_block(e["then"], [Outcome([], then_env)]):
            outs.append(([tc] + x.conds, x.value, x.returned, self.merge_env(env, x.env, then_env)))
        if e.get("else") is not None:
            for (c, v, r, en) in self.eval(e["else"], Outcome(o.conds, dict(env))):
                outs.append(([fc] + c, v, r, en))
        else:
            outs.append(([fc], None, False, env))
        return outs[:MAX_PATHS]

    def payload_of(self, se, env):
        t = expr_text(se)
        # range.min / length.max : numbers; *.message : strings
        if re.search(r"\.(min|max)$", t):
            return ("num", t)
        return ("var", t)

    def merge_env(self, outer, inner, scope_env):
        """variables of the outer scope mutated inside a branch stay visible; branch-local bindings vanish"""
        out = dict(outer)
        for k, v in inner.items():
            if k in outer:
                out[k] = v
        return out

    def eval_match(self, e, o):
        env = o.env
        subj = e["expr"]
        if self.is_optionish(subj) and not (subj.get("k") == "mcall" and subj["method"] == "get") and e["arms"] and all(
                (a["pat"].get("k") == "tstruct" and "::".join(a["pat"].get("path", [])) == "Some") or pat_text(a["pat"]).strip() in ("None", "_") for a in e["arms"]):
            outs = []
            for (c, v, r, en) in self.eval_opt(subj, o):
                if r:
                    outs.append((c, v, r, en))
                    continue
                for arm in e["arms"]:
                    is_some = arm["pat"].get("k") == "tstruct"
                    wild = pat_text(arm["pat"]).strip() == "_"
                    if (v[0] == "opt" and (is_some or wild)) or (v[0] == "none" and not is_some):
                        aenv = dict(en)
                        if is_some and v[0] == "opt":
                            for b in pat_bindings(arm["pat"]):
                                aenv[b] = v[1]
                        for (c2, v2, r2, en2) in self.eval(arm["body"], Outcome(o.conds + c, aenv)):
                            outs.append((c + c2, v2, r2, self.merge_env(env, en2, aenv)))
                        break
            return outs[:MAX_PATHS]
        st = expr_text(subj)
        sv_subj = self.first(subj, o)
        outs = []
        for arm in e["arms"]:
            pat = arm["pat"]
            aenv = dict(env)
            ptxt = pat_text(pat)
            cond = "%s matches %s" % (st, ptxt)
            # bindings
            if pat.get("k") in ("tstruct", "struct"):
                path = "::".join(pat.get("path", []))
                binds = pat_bindings(pat)
                for b in binds:
                    if "TypeStructure" in path or (sv_subj and sv_subj[0] == "sub"):
                        aenv[b] = ("sub", b) if path.split("::")[-1] not in ("Primitive", "Custom") else ("var", b)
                    elif path in ("Some", "Ok"):
                        aenv[b] = self.some_payload(subj, sv_subj, env)
                    else:
                        aenv[b] = ("var", b)
            elif pat.get("k") == "slice":
                # `match xs { [] => .., [first, rest @ ..] => .. }`: emptiness, the head element and the remaining elements of the same list
                elems_ = pat.get("elems", [])
                has_rest = any(x_.get("k") == "rest" or (x_.get("sub") or {}).get("k") == "rest" for x_ in elems_)
                if not elems_:
                    cond = "%s.is_empty()" % st
                elif has_rest and len(elems_) == 2:
                    cond = "!%s.is_empty()" % st
                is_sub_ = bool(sv_subj and sv_subj[0] == "sub")
                subject_ = sv_subj[1] if sv_subj and sv_subj[0] in ("sub", "var") else st
                for x_ in elems_:
                    if x_.get("k") == "ident" and (x_.get("sub") or {}).get("k") == "rest":
                        aenv[x_["name"]] = ("iter", subject_, is_sub_)
                    elif x_.get("k") == "ident":
                        aenv[x_["name"]] = ("sub", subject_ + "[]") if is_sub_ else ("var", x_["name"])
                    else:
                        for b in pat_bindings(x_):
                            aenv[b] = ("var", b)
            elif pat.get("k") == "ident":
                aenv[pat["name"]] = sv_subj
            elif pat.get("k") == "tuple":
                se = subj
                while se.get("k") in ("paren", "ref"):
                    se = se["expr"]
                if se.get("k") == "tuple" and len(se["elems"]) == len(pat["elems"]):
                    # `match (a, b) { (Some(x), None) => .. }`: each binding names (the payload of) its own component
                    for sub_p, sub_e in zip(pat["elems"], se["elems"]):
                        sp_ = sub_p
                        while sp_.get("k") in ("ref", "paren") and sp_.get("pat") is not None:
                            sp_ = sp_["pat"]
                        binds = pat_bindings(sp_)
                        if not binds:
                            continue
                        sub_sv = self.first(sub_e, o)
                        if sp_.get("k") in ("tstruct", "struct") and "::".join(sp_.get("path", [])) in ("Some", "Ok"):
                            for b in binds:
                                aenv[b] = self.some_payload(sub_e, sub_sv, env)
                        elif sp_.get("k") == "ident":
                            aenv[sp_["name"]] = sub_sv
                        else:
                            for b in binds:
                                aenv[b] = ("var", b)
            if arm.get("guard"):
                cond += " if " + expr_text(arm["guard"])
            for (c, v, r, en) in self.eval(arm["body"], Outcome(o.conds, aenv)):
                outs.append(([cond] + c, v, r, self.merge_env(env, en, aenv)))
        return outs[:MAX_PATHS]

    def eval_mcall(self, e, o, stmt=False):
        env = o.env
        m = e["method"]
        recv = e["recv"]
        rt = expr_text(recv)
        # push_str / push on a local accumulator
        if m in ("push_str", "push") and recv.get("k") == "path" and len(recv["segs"]) == 1 and recv["segs"][0] in env:
            outs = []
            for (c, v, r, en) in self.eval(e["args"][0], o):
                en2 = dict(en)
                en2[recv["segs"][0]] = cat([env[recv["segs"][0]], v if v is not None else ("opaque", "unit")])
                outs.append((c, None, r, en2))
            return outs
        if m in TRANSPARENT_METHODS and not e["args"]:
            return self.eval(recv, o)
        if m == "join" and len(e["args"]) == 1:
            sep = lit_str(e["args"][0])
            inner = self.first(recv, o)
            if inner and inner[0] == "list":
                return [([], ("rep", inner[1], sep if sep is not None else "?"), False, env)]
            return [([], ("rep", ("opaque", rt), sep if sep is not None else "?"), False, env)]
        if m == "collect":
            return self.eval(recv, o)
        if m in ("concat", "join") and recv.get("k") in ("array", "ref", "paren"):
            # `["z.array(", inner.as_str(), ")"].concat()`: the pieces in order (with the separator between them for join)
            r_ = recv
            while r_.get("k") in ("ref", "paren"):
                r_ = r_["expr"]
            if r_.get("k") == "array" and r_.get("elems") is not None:
                sep_ = lit_str(e["args"][0]) if (m == "join" and e["args"]) else ""
                if sep_ is not None:
                    parts = []
                    for i_, el in enumerate(r_["elems"]):
                        if i_ and sep_:
                            parts.append(lit(sep_))
                        v_ = self.first(el, o)
                        parts.append(v_ if v_ is not None else ("opaque", expr_text(el)))
                    return [([], cat(parts) if parts else lit(""), False, env)]
        if m == "map" and e["args"] and e["args"][0].get("k") == "closure":
            clo = e["args"][0]
            src = self.first(recv, o)
            cenv = dict(env)
            params = [b for p in clo["params"] for b in pat_bindings(p)]
            subject = src[1] if src and src[0] in ("iter",) else rt
            for b in params:
                cenv[b] = ("sub", subject + "[]") if (src and src[0] == "iter" and src[2]) else ("var", b)
            body = self.eval(clo["body"], Outcome(o.conds, cenv))
            bv = body[0][1] if body else ("opaque", "closure")
            return [([], ("list", bv), False, env)]
        if m == "map" and e["args"] and e["args"][0].get("k") == "path":
            # .map(Self::type_to_string)
            return [([], ("list", ("call", expr_text(e["args"][0]), [("var", "elem")])), False, env)]
        if m in ("iter", "into_iter"):
            v = self.first(recv, o)
            is_sub = bool(v and v[0] == "sub")
            return [([], ("iter", v[1] if v and v[0] in ("sub", "var") else rt, is_sub), False, env)]
        if m == "get" and len(e["args"]) == 1:
            return [([], ("opaque", expr_text(e)), False, env)]
        if m in ("ok_or", "ok_or_else") and e["args"] and (self.is_optionish(recv) or (recv.get("k") == "mcall" and recv["method"] in ("map", "and_then") and recv["args"] and recv["args"][0].get("k") == "closure")):
            # Option -> Result: the payload on the Some path, the error value otherwise
            outs = []
            self._force_opt = True
            try:
                alts = self.eval_opt(recv, o)
            finally:
                self._force_opt = False
            for (c, v, r, en) in alts:
                if r:
                    outs.append((c, v, r, en))
                elif v[0] == "opt":
                    outs.append((c, v[1], False, en))
                else:
                    d_ = e["args"][0]
                    body = d_["body"] if d_.get("k") == "closure" else d_
                    for (c2, v2, r2, en2) in self.eval(body, Outcome(o.conds + c, dict(en))):
                        outs.append((c + c2, ("call", "Err", [v2 if v2 is not None else ("opaque", "err")]), r2, en))
            return outs[:MAX_PATHS]
        if m in ("unwrap_or", "unwrap_or_else") and e["args"] and self.is_optionish(recv):
            outs = []
            dflt = e["args"][0]
            for (c, v, r, en) in self.eval_opt(recv, o):
                if r:
                    outs.append((c, v, r, en))
                elif v[0] == "opt":
                    outs.append((c, v[1], False, en))
                else:
                    body = dflt["body"] if dflt.get("k") == "closure" else dflt
                    for (c2, v2, r2, en2) in self.eval(body, Outcome(o.conds + c, dict(en))):
                        outs.append((c + c2, v2, r2, en))
            return outs[:MAX_PATHS]
        if m in ("unwrap_or", "unwrap_or_default", "unwrap", "expect", "unwrap_or_else"):
            return self.eval(recv, o)
        if self.is_optionish(e) and m != "get":
            return [(c, v, r, en) for (c, v, r, en) in self.eval_opt(e, o)]
        if m == "replace" and len(e["args"]) == 2:
            inner = self.first(recv, o)
            a = e["args"][0]
            b = e["args"][1]
            av = a["lit"]["v"] if a.get("k") == "lit" else expr_text(a)
            bv = b["lit"]["v"] if b.get("k") == "lit" else expr_text(b)
            return [([], ("replace", inner, av, bv), False, env)]
        # self.method(args): inline or recursive rendering
        if rt == "self" or rt.startswith("self."):
            args = [self.first(a, o) for a in e["args"]]
            if m in ENTRY_METHODS and args and args[0] is not None and args[0][0] == "sub":
                extra = [self.arg_text(a, env) for a in e["args"][1:]]
                return [([], ("rec", m if rt == "self" else rt + "." + m, args[0][1], tuple(extra)), False, env)]
            if rt == "self" and self._depth < 8:
                import srclib as _sl
                target = self._self_methods(m) if self._self_methods is not None else None
                if target is None:
                    target = _sl._NEW_HELPERS.get(m)        # a helper extracted by a clean-up: part of the function that calls it
                if target is not None and target.body is not None:
                    bind = {}
                    pnames = [b for p in target.sig["params"] if not p.get("self") for b in pat_bindings(p["pat"])]
                    for nm, av in zip(pnames, args):
                        bind[nm] = av
                    sub = SVEval(self.S)
                    paths = sub.fn_paths(target, bind, self._self_methods, self._depth + 1)
                    return [(["%s: %s" % (m, c) for c in cs], v, False, env) for (cs, v) in paths][:MAX_PATHS] or [([], ("opaque", m), False, env)]
            return [([], ("call", (rt + "." if rt != "self" else "") + m, args), False, env)]
        args = [self.first(a, o) for a in e["args"]]
        inner = self.first(recv, o)
        return [([], ("call", m, [inner] + args), False, env)]

    def arg_text(self, a, env):
        if a.get("k") == "lit":
            return str(a["lit"]["v"]).lower() if a["lit"]["t"] == "bool" else str(a["lit"]["v"])
        t = expr_text(a)
        return t

    def eval_call(self, e, o):
        env = o.env
        f = expr_text(e["func"])
        if len(e["args"]) == 1 and f.split("::")[-1] in ("String", "Some", "Ok", "from", "new") or (len(e["args"]) == 1 and f in ("Value::String", "serde_json::Value::String", "tera::Value::String")):
            # a wrapper around one value: every alternative of the value is an alternative of the wrapped value
            alts = self.eval(e["args"][0], o)
            if len(alts) > 1:
                outs = []
                for (c, v, r, en) in alts:
                    if r:
                        outs.append((c, v, r, en))
                    elif f in ("String::from", "Some", "Ok", "Box::new", "String::new"):
                        outs.append((c, v, False, en))
                    else:
                        outs.append((c, ("call", f, [v]), False, en))
                return outs[:MAX_PATHS]
        # a closure held in a variable (a parameter of a spliced-in higher-order helper: `transform(text)`) is applied to its arguments
        if e["func"].get("k") == "path" and len(e["func"]["segs"]) == 1 and isinstance(env.get(f), tuple) and env[f][0] == "closure" and self._depth < 8:
            clo = env[f][1]
            cenv = dict(env)
            params = [b for p in clo.get("params", []) for b in pat_bindings(p)]
            for nm, a in zip(params, e["args"]):
                cenv[nm] = self.first(a, o)
            outs = []
            for (c, v, r, en) in self.eval(clo["body"], Outcome(o.conds, cenv)):
                outs.append((c, v, False, env))
            if outs:
                return outs[:MAX_PATHS]
        args = [self.first(a, o) for a in e["args"]]
        import srclib as _sl
        last = f.split("::")[-1]
        if last in _sl._NEW_HELPERS and self._depth < 8 and (f == last or f.startswith("Self::") or "::" in f):
            # `Self::helper(..)` / `helper(..)` where helper is new: evaluated as part of the caller
            target = _sl._NEW_HELPERS[last]
            bind = {}
            pnames = [b for p in target.sig["params"] if not p.get("self") for b in pat_bindings(p["pat"])]
            for nm, av in zip(pnames, args):
                bind[nm] = av
            sub = SVEval(self.S)
            paths = sub.fn_paths(target, bind, self._self_methods, self._depth + 1)
            if paths:
                return [(["%s: %s" % (last, c) for c in cs], v, False, env) for (cs, v) in paths][:MAX_PATHS]
        if f.startswith("Self::") and f.count("::") == 1 and self._self_methods is not None and self._depth < 8:
            # `Self::method(args)`: a method of the same type that takes no receiver (or was turned into an associated function) — the same
            # text as `self.method(args)`
            if last in ENTRY_METHODS and args and args[0] is not None and args[0][0] == "sub":
                extra = [self.arg_text(a, env) for a in e["args"][1:]]
                return [([], ("rec", last, args[0][1], tuple(extra)), False, env)]
            target = self._self_methods(last)
            if target is not None and target.body is not None:
                bind = {}
                pnames = [b for p in target.sig["params"] if not p.get("self") for b in pat_bindings(p["pat"])]
                for nm, av in zip(pnames, args):
                    bind[nm] = av
                sub = SVEval(self.S)
                paths = sub.fn_paths(target, bind, self._self_methods, self._depth + 1)
                if paths:
                    return [(["%s: %s" % (last, c) for c in cs], v, False, env) for (cs, v) in paths][:MAX_PATHS]
            return [([], ("call", last, args), False, env)]     # kept symbolic under the name `self.method(..)` would have
        if f in ("String::with_capacity", "std::string::String::with_capacity"):
            return [([], lit(""), False, env)]
        if f in ("String::from", "Some", "Ok", "Box::new", "String::new") :
            if not args:
                return [([], lit(""), False, env)]
            return [([], args[0], False, env)]
        return [([], ("call", f, args), False, env)]


# ------------------------------------------------------------------ rendering / utilities

def render(sv):
    if sv is None:
        return "∅"
    t = sv[0]
    if t == "lit":
        return sv[1]
    if t == "cat":
        return "".join(render(x) for x in sv[1])
    if t == "rec":
        return "⟨%s(%s)⟩" % (sv[1].split(".")[-1], sv[2])
    if t == "rep":
        return "⟨%s⟩*%r" % (render(sv[1]), sv[2])
    if t == "var":
        return "‹%s›" % sv[1]
    if t == "num":
        return "#%s#" % sv[1]
    if t == "maphit":
        return "‹%s[%s]›" % (sv[1], render(sv[2]))
    if t == "call":
        return "%s(%s)" % (sv[1], ", ".join(render(x) for x in sv[2]))
    if t == "replace":
        return "%s.replace(%r,%r)" % (render(sv[1]), sv[2], sv[3])
    if t == "sub":
        return "«%s»" % sv[1]
    if t == "list":
        return "[%s]" % render(sv[1])
    if t == "rep_tail":
        return "⟨%r %s⟩*" % (sv[2], render(sv[1]))
    if t in ("opt",) and len(sv) > 1 and isinstance(sv[1], tuple):
        return "Some(%s)" % render(sv[1])
    return "⟪%s⟫" % (str(sv[1]) if len(sv) > 1 else t,)


def leaves(sv):
    if sv is None:
        return []
    t = sv[0]
    if t == "cat":
        return [l for x in sv[1] for l in leaves(x)]
    if t in ("rep", "list", "replace"):
        return leaves(sv[1])
    if t == "call":
        return [sv] + [l for x in sv[2] for l in leaves(x)]
    return [sv]


def has_opaque(sv):
    return any(l[0] == "opaque" for l in leaves(sv))


# ------------------------------------------------------------------------------------------------ option tables
def _norm_subject(t):
    t = t.strip()
    t = re.sub(r"^\(+|\)+$", "", t) if t.startswith("(") and t.endswith(")") and "," not in t else t
    t = re.sub(r"^[&*]+", "", t)
    t = re.sub(r"\.(as_ref|as_deref|as_mut|clone|to_owned|cloned)\(\)", "", t)
    return t.strip()


def _split_top(t):
    out, depth, cur = [], 0, ""
    for ch in t:
        if ch in "([{<":
            depth += 1
        elif ch in ")]}>":
            depth -= 1
        if ch == "," and depth == 0:
            out.append(cur.strip())
            cur = ""
        else:
            cur += ch
    if cur.strip():
        out.append(cur.strip())
    return out


def _pat_state(p):
    p = p.strip()
    p = re.sub(r"^&+", "", p)
    if re.match(r"^(Some|Ok)\s*\(", p):
        return "Some"
    if p in ("None",) or re.match(r"^Err\s*\(", p):
        return "None"
    return None      # `_`, a binding: matches anything


def cond_holds(cond, asg):
    """does a path condition (SV condition text) hold when the Option-valued subjects are as in `asg` ({subject text: "Some"|"None"})?
    -> True / False / None (the condition is about something else).  Understands if-let, let-else (`X is Some`), is_some()/is_none(), and
    `match` on a subject or on a tuple of subjects."""
    c = cond.strip()
    neg = False
    while c.startswith("not(") and c.endswith(")"):
        c = c[4:-1].strip()
        neg = not neg
    res = None
    if isinstance(asg.get(c), bool):
        res = asg[c]
    m = re.match(r"^if-let\s+(.+?)\s+=\s+(.+)$", c)
    if m:
        st_, subj = _pat_state(m.group(1)), _norm_subject(m.group(2))
        if st_ and subj in asg:
            res = asg[subj] == st_
        elif m.group(1).strip().startswith("("):
            c = "%s matches %s" % (m.group(2).strip(), m.group(1).strip())      # tuple pattern: same as a one-armed match
    if res is None:
        m = re.match(r"^(.+?)\s+is\s+(Some|None)$", c)
        if m and _norm_subject(m.group(1)) in asg:
            res = asg[_norm_subject(m.group(1))] == m.group(2)
    if res is None:
        m = re.match(r"^(.+?)\.is_(some|none)\(\)$", c)
        if m and _norm_subject(m.group(1)) in asg:
            res = asg[_norm_subject(m.group(1))] == ("Some" if m.group(2) == "some" else "None")
    if res is None:
        m = re.match(r"^(.+?)\s+matches\s+(.+?)(\s+if\s+.+)?$", c)
        if m:
            subj, pat, guard = m.group(1).strip(), m.group(2).strip(), m.group(3)
            subs = _split_top(subj[1:-1]) if subj.startswith("(") and subj.endswith(")") else [subj]
            alts = []
            for alt in _split_top(pat.replace(" | ", " ,| ")) if False else [pat]:
                pats = _split_top(alt[1:-1]) if alt.startswith("(") and alt.endswith(")") and len(subs) > 1 else [alt]
                if len(pats) != len(subs):
                    alts.append(None)
                    continue
                ok = True
                unknown = False
                for sb, pt in zip(subs, pats):
                    ps = _pat_state(pt)
                    if ps is None:
                        if not re.match(r"^(_|[a-z_]\w*)$", pt.strip().lstrip("&")):
                            unknown = True     # a refutable pattern on something else (`Some(RenameRule::CamelCase)` is handled by _pat_state)
                        continue
                    key = _norm_subject(sb)
                    if key not in asg:
                        unknown = True
                        continue
                    if asg[key] != ps:
                        ok = False
                    elif re.match(r"^(Some|Ok)\s*\(\s*(_|[a-z_]\w*)\s*\)$", pt.strip().lstrip("&")) is None:
                        unknown = True     # Some(<refutable inner pattern>): holds only for some payloads
                alts.append(False if not ok else (None if unknown or guard else True))
            res = alts[0] if alts else None
    if res is None:
        return None
    return (not res) if neg else res


def select_path(paths, asg):
    """the alternative taken for an assignment of the Option-valued subjects: the first path (in evaluation order, as SVEval lists them) none of
    whose conditions is false; `certain` says whether every condition was decided"""
    for (conds, sv) in paths:
        vals = [cond_holds(c, asg) for c in conds]
        if any(v is False for v in vals):
            continue
        return conds, sv, all(v is True for v in vals)
    return None


def atom_polarity(cond, atom_re):
    """is the boolean atom matching atom_re asserted true or false by this condition text?  `not(..)` wrappers, a leading `!` and the
    "callee: " prefixes of inlined methods are peeled off.  -> True / False / None (the condition is about something else)"""
    c = cond.strip()
    c = re.sub(r"^(\w+: )+", "", c)
    pol = True
    changed = True
    while changed:
        changed = False
        if c.startswith("not(") and c.endswith(")"):
            c = c[4:-1].strip()
            pol = not pol
            changed = True
        elif c.startswith("!"):
            c = c[1:].strip()
            pol = not pol
            changed = True
        elif c.startswith("(") and c.endswith(")"):
            c = c[1:-1].strip()
            changed = True
    return pol if re.fullmatch(atom_re, c) else None

"""unord — UNORD rule kind: every consumption of an unordered iteration source is classified.

Sources are recognised by *type*: an Iterator/IntoIterator/Extend/FromIterator call whose receiver
(or collected-from) type mentions std hash_map/hash_set iterators, HashMap/HashSet themselves,
std::fs::ReadDir or walkdir.  Iterator adaptor types nest their source type, so whole chains are
covered without following dataflow.

Classification of a consumption site:
  erased      result goes into an unordered or self-sorting container (HashMap/HashSet/BTreeMap/BTreeSet),
              or a loop/closure body with no order-sensitive sink
  sorted      collected Vec is the receiver of a sort* call dominated by the collect
  scalar      order-insensitive reduction (count/len/any/all/sum/min/max/contains)
  leak        order-sensitive sink reached (Vec/String push, push_str, extend, write, recursion into such),
              early exit from the loop, order-dependent pick (find/next/last/position/nth), or unsorted collect
"""
import re
from collections import deque

from mirlib import Call, short_path, op_place, op_const
from rulelib import strip_generics, is_fs_mut

# iterator types of unordered sources may appear nested anywhere (adaptors nest their source);
# the collections themselves only count at the head of the type (`for x in &map`), so that a
# Vec<HashSet<..>> or a sorted Vec<(&K, &HashSet<..>)> is not mistaken for an unordered source.
_UN_ITER = re.compile(r"std::collections::hash_map::\w+<|std::collections::hash_set::\w+<|std::fs::ReadDir|walkdir::")
_UN_HEAD = re.compile(r"^(?:&(?:'\w+ )?(?:mut )?)?std::collections::(?:HashMap|HashSet)<")


class _Un:
    @staticmethod
    def search(t):
        return _UN_ITER.search(t) or _UN_HEAD.match(t)


UNORDERED_TY = _Un
ERASING_TY = re.compile(r"^(&(mut )?)?std::collections::(HashMap|HashSet|BTreeMap|BTreeSet)<")
SEQ_TY = re.compile(r"^(std::vec::Vec|std::string::String|std::collections::VecDeque|std::boxed::Box<\[)")

ITER_TRAITS = ("std::iter::Iterator", "std::iter::IntoIterator", "std::iter::Extend", "std::iter::FromIterator",
               "std::iter::DoubleEndedIterator")
SCALAR_CONSUMERS = {"count", "any", "all", "sum", "product", "max", "min", "len", "is_empty", "size_hint"}
PICK_CONSUMERS = {"find", "find_map", "position", "nth", "last", "next_back", "max_by", "min_by", "max_by_key",
                  "min_by_key", "reduce", "fold", "try_fold", "rposition", "take", "skip", "step_by", "unzip", "partition"}

# order-sensitive sinks (short paths, generics removed)
SINKS = {
    "Vec::push", "Vec::insert", "Vec::extend_from_slice", "Vec::append", "String::push_str", "String::push",
    "String::insert_str", "String::insert", "VecDeque::push_back", "VecDeque::push_front", "fs::write",
}
SINK_TRAIT_METHODS = {("std::iter::Extend", "extend"), ("std::fmt::Write", "write_str"), ("std::fmt::Write", "write_fmt"),
                      ("std::io::Write", "write_all"), ("std::io::Write", "write"), ("std::io::Write", "write_fmt"),
                      ("std::ops::AddAssign", "add_assign")}

# diagnostics-only module: everything in here prints to stdout/stderr (re-checked: reaches no fs mutator)
STDOUT_MODULE = "tauri_typegen::interface::output::"


def is_sink_call(c):
    sp = short_path(c.path)
    if sp in SINKS:
        return True
    if c.trait and (c.trait, c.name) in SINK_TRAIT_METHODS:
        st = c.self_ty or ""
        if c.trait == "std::iter::Extend":
            return bool(SEQ_TY.match(st))
        if c.trait == "std::ops::AddAssign":
            return st.startswith("std::string::String")
        return True
    return False


class Site:
    def __init__(self, call, source, kind, why, detail=None):
        self.call = call
        self.source = source
        self.kind = kind
        self.why = why
        self.detail = detail or {}

    @property
    def fn(self):
        return self.call.fn

    def ident(self):
        """position-free identity: consumer + source type family + what it feeds"""
        return "%s<-%s:%s" % (self.call.name, self.source, self.why_key())

    def why_key(self):
        return self.detail.get("key", self.kind)


def source_family(ty):
    if "walkdir::" in ty:
        return "walkdir"
    if "ReadDir" in ty:
        return "read_dir"
    m = re.search(r"hash_map::(\w+)|hash_set::(\w+)|collections::(HashMap|HashSet)<", ty)
    if m:
        fam = "hash_map" if (m.group(1) or (m.group(3) == "HashMap")) else "hash_set"
        # element type family to tell sources apart without positions
        inner = re.search(r"(?:HashMap|HashSet|Iter|Keys|Values|IntoIter|IntoKeys|IntoValues|Drain)<(?:'_, )?([^>]*)", ty)
        el = short_ty(inner.group(1)) if inner else ""
        return "%s<%s>" % (fam, el)
    return "unordered"


def short_ty(t):
    parts = [short_path(x.strip()) .split("::")[-1] for x in re.split(r",", t) if x.strip()]
    return ",".join(parts)


class Unord:
    def __init__(self, P):
        self.P = P
        self._sink_memo = {}

    def fn_reaches_sink(self, fid):
        """does function fid (transitively) perform an order-sensitive append?"""
        if fid.startswith(STDOUT_MODULE):
            return False
        return self.P.reaches(fid, lambda c: is_sink_call(c) and not c.fn.id.startswith(STDOUT_MODULE), self._sink_memo) \
            if not fid.startswith(STDOUT_MODULE) else False

    def call_is_sink(self, c):
        if is_sink_call(c):
            return True, short_path(c.path) if not c.trait else "%s::%s" % (short_path(c.trait).split("::")[-1], c.name)
        for t in self.P.targets(c):
            if t.startswith(STDOUT_MODULE):
                continue
            if self._reaches_sink_excluding_stdout(t):
                return True, "call " + short_path(t)
        return False, None

    def _reaches_sink_excluding_stdout(self, fid, seen=None):
        memo = self._sink_memo
        if fid in memo:
            return memo[fid]
        memo[fid] = False
        f = self.P.fns.get(fid)
        res = False
        if f and not fid.startswith(STDOUT_MODULE):
            for c in f.calls:
                if is_sink_call(c):
                    res = True
                    break
            if not res:
                for t in self.P.callgraph.get(fid, ()):
                    if t.startswith(STDOUT_MODULE):
                        continue
                    if self._reaches_sink_excluding_stdout(t):
                        res = True
                        break
        memo[fid] = res
        return res

    # ------------------------------------------------------------------
    def sites(self, fns):
        out = []
        for f in fns:
            if "{promoted#" in f.id:
                continue
            for c in f.calls:
                if c.trait not in ITER_TRAITS:
                    continue
                st = c.self_ty or ""
                gens = " ".join(c.generics)
                src_ty = None
                if UNORDERED_TY.search(st):
                    src_ty = st
                elif c.name in ("extend", "from_iter", "collect") and any(UNORDERED_TY.search(g) for g in c.generics):
                    # Extend::extend(dst, src) / FromIterator: source type among the generics
                    for g in c.generics:
                        if UNORDERED_TY.search(g) and g != st:
                            src_ty = g
                            break
                if src_ty is None:
                    continue
                dest_ty = c.term.get("dest_ty", "")
                # adaptor: result is still an iterator over the unordered source
                if UNORDERED_TY.search(dest_ty) and not ERASING_TY.match(dest_ty) and c.name not in ("next",):
                    continue
                out.append(self.classify(f, c, src_ty, dest_ty))
        return out

    def classify(self, f, c, src_ty, dest_ty):
        fam = source_family(src_ty)
        name = c.name
        if name in ("collect", "from_iter"):
            if ERASING_TY.match(dest_ty):
                return Site(c, fam, "erased", "collected into " + short_path(re.sub(r"<.*", "", dest_ty)))
            # Result<Vec<..>>, Option<Vec<..>> etc: look inside one level
            inner = dest_ty
            m = re.match(r"^std::(?:result::Result|option::Option)<(.*)", dest_ty)
            if m:
                inner = m.group(1)
            if ERASING_TY.match(inner):
                return Site(c, fam, "erased", "collected into map/set")
            if self._sorted_after(f, c):
                return Site(c, fam, "sorted", "collected Vec is sorted before use")
            return Site(c, fam, "leak", "collected into an ordered container (%s) without sorting" % short_path(re.sub(r"<.*", "", inner)),
                        {"key": "unsorted-collect:" + short_path(re.sub(r"<.*", "", inner))})
        if name == "extend":
            st = c.self_ty or ""
            if ERASING_TY.match(st):
                return Site(c, fam, "erased", "extends a map/set")
            return Site(c, fam, "leak", "extends an ordered container", {"key": "extend-ordered"})
        if name in SCALAR_CONSUMERS:
            return Site(c, fam, "scalar", "order-insensitive reduction " + name)
        if name == "for_each":
            return self._classify_closure(f, c, fam)
        if name == "next":
            return self._classify_loop(f, c, fam)
        if name in PICK_CONSUMERS:
            return Site(c, fam, "leak", "order-dependent consumer `%s`" % name, {"key": "pick:" + name})
        return Site(c, fam, "leak", "unclassified consumer `%s`" % name, {"key": "consumer:" + name})

    def _sorted_after(self, f, c):
        if c.dest.get("p"):
            return False
        # locals that alias the collected vec: follow moves
        aliases = {c.dest["l"]}
        changed = True
        while changed:
            changed = False
            for blk in f.blocks:
                for st in blk["stmts"]:
                    rv = st.get("rv")
                    if rv and rv["k"] == "use" and not st["lhs"].get("p"):
                        p = op_place(rv["op"])
                        if p and not p.get("p") and p["l"] in aliases and st["lhs"]["l"] not in aliases:
                            aliases.add(st["lhs"]["l"])
                            changed = True
        for s in f.calls:
            if not (s.name or "").startswith("sort"):
                continue
            o = f.origin(s.args[0]) if s.args else ("unknown",)
            # receiver: &mut [T] from deref_mut(&mut vec)
            base = self._base_local(f, s.args[0])
            if base in aliases and f.dominates(c.bb, s.bb) and self._total_order(f, s):
                return True
        return False

    # keys that identify an element although they are only a part of it (one line of reason each)
    UNIQUE_KEYS = {
        "(tuple).0": "entry (key, value) of a map iteration: keys are unique",
        "tauri_typegen::models::StructInfo.name": "values of the discovered-struct map, which is keyed by this name",
    }

    def _total_order(self, f, s):
        """does this sort call order the elements totally (so that the result does not depend on the input order)?
        sort()/sort_unstable() compare whole elements; sort_by/sort_by_key are accepted only when the comparator compares, or the key
        is, a projection listed in UNIQUE_KEYS — a key such as file_name() ties on distinct elements and leaves them in hash order"""
        if s.name in ("sort", "sort_unstable"):
            return True
        cl = None
        for a in s.args:
            o = f.origin(a)
            if o[0] == "aggr" and o[1].get("agg") == "closure":
                cl = o[1]["closure"]
            k = op_const(a)
            if k and "closure" in k:
                cl = k["closure"]
        g = self.P.fns.get(cl) if cl else None
        if g is None:
            return False

        def last_field(o):
            while o[0] == "proj":
                for name in reversed(o[2]):
                    if name != "deref":
                        return name
                o = o[1]
            return None
        if s.name in ("sort_by", "sort_unstable_by"):
            cmps = [c for c in g.calls if c.name in ("cmp", "partial_cmp") and c.bb in g.reach_blocks]
            if len(cmps) != 1 or len(cmps[0].args) != 2:
                return False
            keys = [last_field(g.origin(a)) for a in cmps[0].args]
            return keys[0] is not None and keys[0] == keys[1] and keys[0] in self.UNIQUE_KEYS
        if s.name in ("sort_by_key", "sort_unstable_by_key", "sort_by_cached_key"):
            ds = [d for d in g.defs.get(0, []) if d[0] == "stmt" and d[1] in g.reach_blocks]
            if len(ds) == 1 and ds[0][3]["k"] in ("use", "ref", "copy_for_deref"):
                src = ds[0][3].get("op") or ds[0][3].get("place")
                return last_field(g.origin(src)) in self.UNIQUE_KEYS
            if any(d[0] == "call" and d[2].name in ("clone", "to_string", "to_owned") for d in g.defs.get(0, [])):
                d = [d for d in g.defs.get(0, []) if d[0] == "call"][0]
                return last_field(g.origin(d[2].args[0])) in self.UNIQUE_KEYS
            return False
        return False

    def _base_local(self, f, op, depth=8):
        p = op_place(op)
        while p is not None and depth > 0:
            depth -= 1
            l = p["l"]
            ds = f.defs.get(l, [])
            if len(ds) != 1:
                return l
            d = ds[0]
            if d[0] == "stmt":
                rv = d[3]
                if rv["k"] in ("ref", "copy_for_deref", "rawptr"):
                    p = rv["place"]
                    if not f.defs.get(p["l"]) or len(f.defs.get(p["l"])) != 1 or f.defs[p["l"]][0][0] != "stmt":
                        # stop at a local that is a real variable or call result
                        nxt = f.defs.get(p["l"], [])
                        if len(nxt) == 1 and nxt[0][0] == "call" and short_path(nxt[0][2].path).endswith(("deref_mut", "deref", "as_mut_slice", "as_mut")):
                            p = op_place(nxt[0][2].args[0])
                            continue
                        return p["l"]
                    continue
                if rv["k"] == "use":
                    p = op_place(rv["op"])
                    continue
                return l
            if d[0] == "call":
                cc = d[2]
                if short_path(cc.path).endswith(("deref_mut", "deref", "as_mut_slice", "as_mut")):
                    p = op_place(cc.args[0])
                    continue
                return l
            return l
        return p["l"] if p else None

    def _closure_of(self, f, c):
        for g in c.generics:
            m = re.match(r"^\{closure@", g)
        for a in c.args:
            o = f.origin(a)
            if o[0] == "aggr" and o[1].get("agg") == "closure":
                return o[1]["closure"]
            k = op_const(a)
            if k and "closure" in k:
                return k["closure"]
        return None

    def _classify_closure(self, f, c, fam):
        cid = self._closure_of(f, c)
        if cid is None or cid not in self.P.fns:
            return Site(c, fam, "leak", "for_each with an unresolved closure", {"key": "for_each:unresolved"})
        g = self.P.fns[cid]
        sinks = []
        for cc in g.calls:
            s, what = self.call_is_sink(cc)
            if s:
                sinks.append(what)
        if sinks:
            return Site(c, fam, "leak", "closure body appends in iteration order: " + ", ".join(sorted(set(sinks))),
                        {"key": "body-sink:" + ",".join(sorted(set(sinks)))})
        return Site(c, fam, "erased", "closure body has no order-sensitive sink")

    def _classify_loop(self, f, c, fam):
        """`next` call: find the loop around it and inspect the body."""
        head = c.bb
        tb = c.target
        if tb is None:
            return Site(c, fam, "leak", "diverging next()", {"key": "next:diverging"})
        sw = f.blocks[tb]["term"]
        body_entry = None
        if sw["k"] == "switch":
            o = f.origin(sw["discr"])
            if o[0] == "discr":
                for v, tgt in sw["targets"]:
                    if o[2].get(str(v)) == "Some":
                        body_entry = tgt
                if body_entry is None:
                    named = {o[2].get(str(v)) for v, _ in sw["targets"]}
                    if "Some" not in named:
                        body_entry = sw["otherwise"]
        if body_entry is None:
            # `while let Some(x) = it.next()` shapes or a lone next(): order-dependent pick
            return Site(c, fam, "leak", "next() outside a recognisable loop (order-dependent pick)", {"key": "pick:next"})
        # body = blocks reachable from body_entry (without passing the head) ; loop iff head reachable
        seen = {body_entry}
        dq = deque([body_entry])
        loops = False
        while dq:
            x = dq.popleft()
            for y in f.succ[x]:
                if y == head:
                    loops = True
                    continue
                if y not in seen:
                    seen.add(y)
                    dq.append(y)
        if not loops:
            return Site(c, fam, "leak", "single next() (order-dependent pick)", {"key": "pick:next"})
        # restrict to blocks that can return to the head (the loop body proper)
        can_return = set()
        for b in seen:
            # b reaches head?
            s2 = {b}
            d2 = deque([b])
            ok = False
            while d2 and not ok:
                x = d2.popleft()
                for y in f.succ[x]:
                    if y == head:
                        ok = True
                        break
                    if y not in s2 and y in seen:
                        s2.add(y)
                        d2.append(y)
            if ok:
                can_return.add(b)
        sinks = []
        for b in sorted(can_return):
            cc = f.call_at(b)
            if cc is None:
                continue
            s, what = self.call_is_sink(cc)
            if s:
                sinks.append(what)
        # early exits carrying a value (not error propagation): blocks in `seen` not returning to head
        exits = seen - can_return
        early = False
        for b in exits:
            cc = f.call_at(b)
            if cc is None:
                continue
            p = strip_generics(cc.path)
            if p in ("std::ops::FromResidual::from_residual", "std::convert::From::from", "std::convert::Into::into") or cc.path.startswith("core::ptr::drop_in_place"):
                continue
            # does this exit path avoid the loop's normal exit (None edge)?  treat any call as "work after break"
            early = True
        # the None edge also leads to `exits`-like blocks; distinguish: blocks reachable from body but only via body
        # (approximation: early exit if a Return is reachable from body without passing head, through a block with a call)
        if sinks:
            return Site(c, fam, "leak", "loop body appends in iteration order: " + ", ".join(sorted(set(sinks))),
                        {"key": "body-sink:" + ",".join(sorted(set(sinks)))})
        if early and self._has_value_break(f, seen, can_return, head):
            return Site(c, fam, "leak", "loop exits early with a value chosen by iteration order", {"key": "early-exit"})
        return Site(c, fam, "erased", "loop body has no order-sensitive sink")

    def _has_value_break(self, f, seen, can_return, head):
        # conservative but quiet: only flag when an exit block assigns a non-unit aggregate `Some(..)`/tuple to the return place
        for b in seen - can_return:
            for st in f.blocks[b]["stmts"]:
                if "lhs" in st and st["lhs"]["l"] == 0:
                    rv = st["rv"]
                    if rv["k"] == "aggr" and rv.get("variant") in ("Some",):
                        return True
                    if rv["k"] == "use" and op_place(rv["op"]) is not None:
                        return True
        return False

"""C03 — exactly one wrapper per discovered command, invoking exactly its Rust name.

Decided clauses:
  D1  TABLE   the attribute predicate is  (len==2 ∧ seg0=="tauri" ∧ seg1=="command") ∨ is_ident("command"), over `any` attribute
  D2  CTRL    discovery is unfiltered: extract_command_info runs under exactly {item is Fn, is_tauri_command}; it has no None exit;
              the iteration is over the file's top-level items
  D3  CTRL/CALLS/PATHSHAPE  the directory walk inserts a file under exactly {is_file, extension "rs", not excluded, readable, parses};
              no depth limit / entry filter on the walker; the exclusion test looks at the path *below* the project root only
  D4  CTRL    per-file results are appended under no other guard than "file was cached"
  D5  TPATH   every path of both command_function templates has exactly one exported async function named by tsFunctionName and
              exactly one invoke whose first argument is the literal '{{ command.name }}'; commands.ts loops over all commands unfiltered;
              the return annotation is Promise<{{ returnTypeTs | add_types_prefix }}>
"""
import re

from common import Rule, V, finish
from mirlib import ENTRY_POINTS, short_path, op_const
from rulelib import strip_generics, forward_uses, is_try_branch
from srclib import walk_block, walk, lit_str, expr_text
from tplpaths import Templates, consistent
from shapes import Shaper, render, alternatives

PROP = "C03"
GEN_MODELS_PATH = "tauri_typegen::generators::base::BaseBindingsGenerator::generate_models"


def atoms_dnf(e):
    """DNF of a boolean expression over semantic atoms (variable names abstracted away)"""
    k = e.get("k")
    if k == "binary" and e["op"] == "||":
        return atoms_dnf(e["l"]) + atoms_dnf(e["r"])
    if k == "binary" and e["op"] == "&&":
        out = []
        for a in atoms_dnf(e["l"]):
            for b in atoms_dnf(e["r"]):
                out.append(a | b)
        return out
    return [frozenset([atom(e)])]


def atom(e):
    k = e.get("k")
    if k == "binary" and e["op"] in ("==", "!="):
        for x, y in ((e["l"], e["r"]), (e["r"], e["l"])):
            t = expr_text(x)
            if y.get("k") == "lit":
                v = y["lit"]["v"]
                m = re.search(r"\.segments\.len\(\)$", t)
                if m:
                    return ("len", e["op"], str(v))
                m = re.search(r"\.segments\[(\d+)\]\.ident$", t)
                if m:
                    return ("seg", int(m.group(1)), e["op"], v)
    if k == "mcall" and e["method"] == "is_ident" and e["args"] and lit_str(e["args"][0]) is not None:
        return ("is_ident", lit_str(e["args"][0]))
    return ("other", expr_text(e))


def classify_cond(f, a, lab, P):
    """category of a dominating branch outcome in the directory walk"""
    o, outcome = f.cond_struct(a, lab)
    txt = f.describe_origin(o, deep=1)
    if o[0] == "call":
        c = o[1]
        sp = short_path(c.best)
        if c.name == "next" and "walkdir" in (c.self_ty or "") and outcome == "Some":
            return "walk"
        if is_try_branch(c) and outcome == "Continue":
            inner = f.origin(c.args[0])
            t2 = f.describe_origin(inner, deep=1)
            if "read_to_string" in t2:
                return "read-ok"
            if "next" in t2:
                return "entry-ok"
            return "try:" + t2
        if sp == "Path::is_file" and outcome == "true":
            return "is_file"
        if c.name == "is_some_and" and outcome == "true":
            return "ext"
        if strip_generics(c.path) == "syn::parse_file" and outcome == "Ok":
            return "parse-ok"
        if c.name == "contains" and c.self_ty == "str" and outcome == "false":
            return "excl:" + str(c.arg_str(1))
        if c.name == "any" and outcome == "false":
            return "excl:any"
        # the same test written as a loop over the path's components: `component == "target"` false for every component
        if c.name in ("eq", "ne") and len(c.args) == 2 and outcome == ("false" if c.name == "eq" else "true"):
            lit = c.arg_lit(1, P) or c.arg_lit(0, P)
            if lit is not None:
                return "excl:=" + lit
        if c.name == "next" and "walkdir" not in (c.self_ty or "") and ("Components" in (c.self_ty or "") or "option::IntoIter" in (c.self_ty or "") or "Flatten" in (c.self_ty or "") or "FlatMap" in (c.self_ty or "")):
            return "iter"
    return "other:%s=%s" % (txt, outcome)


def check(ctx):
    P = ctx.P
    S = ctx.S
    reach = P.reachable(ENTRY_POINTS)
    rules = []

    # ---------------------------------------------------------------- D1
    r1 = Rule("C03-D1-attribute-predicate", "D1",
              "is_tauri_command = attrs.any(|a| (a.path.segments.len()==2 ∧ segments[0]==\"tauri\" ∧ segments[1]==\"command\") ∨ a.path.is_ident(\"command\"))",
              "a wider predicate generates wrappers for non-commands; a narrower one drops #[command] or #[tauri::command(...)] functions")
    # read from the type-checked body: the accepting paths of the per-attribute predicate, wherever it is written (a closure handed to `any`,
    # or the body of a loop over the attributes with an early `return true`)
    from predtable import accept_paths, len_range, positive
    roots = P.find("CommandParser::is_tauri_command")
    if not roots:
        r1.bad(V(r1.id, "<anchor>", "missing:is_tauri_command", "predicate not found"))
    else:
        f0 = roots[0]
        cands = []
        for k_ in P.family(f0.id):
            if "{promoted" in k_:
                continue
            g_ = P.fns[k_]
            aps = accept_paths(P, g_, "true")
            if aps and any(a_["seg"] for a_ in aps):
                cands.append((g_, aps))
        if len(cands) != 1:
            r1.bad(V(r1.id, "CommandParser::is_tauri_command", "predicate-bodies:%d" % len(cands), "expected exactly one body that tests attribute paths, found %d" % len(cands)))
        for (g_, aps) in cands[:1]:
            kinds = set()
            bad = []
            for a_ in aps:
                segs = {k2: positive(v2) for k2, v2 in a_["seg"].items()}
                lo, hi = len_range(a_["len"])
                if a_["other"] or a_["opaque_value"] or a_.get("kind"):
                    bad.append("opaque:%s" % ";".join(a_["other"] + ["%s=%s" % (k2[0][:30], k2[1]) for k2 in a_.get("kind", [])])[:70])
                elif segs.get("is_ident") == "command":
                    kinds.add("bare")
                elif segs == {0: "command"} and (lo, hi) == (1, 1):
                    kinds.add("bare")       # what is_ident("command") tests, spelled out: exactly one segment, and it is `command`
                elif segs.get(0) == "tauri" and segs.get(1) == "command" and (lo, hi) == (2, 2):
                    kinds.add("qualified")
                else:
                    bad.append("len%s-%s:%s" % (lo, hi, sorted((str(k2), v2) for k2, v2 in segs.items())))
            if bad or kinds != {"bare", "qualified"}:
                r1.bad(V(r1.id, "CommandParser::is_tauri_command", "dnf:+%s:-%s" % (sorted(set(bad)), sorted({"bare", "qualified"} - kinds)),
                         "attribute predicate differs from the documented one: unexpected accepting alternatives %s, missing %s" % (sorted(set(bad)), sorted({"bare", "qualified"} - kinds))))
            else:
                r1.ok("accepting alternatives = {len==2 ∧ seg0==tauri ∧ seg1==command} ∨ {is_ident(command)}")
            # quantifier: ANY attribute of the function
            if g_ is not f0:
                anys = [c for c in f0.calls if c.bb in f0.reach_blocks and c.args and (lambda o_: o_[0] in ("aggr", "const") and isinstance(o_[1], dict) and o_[1].get("closure") == g_.id)(f0.origin(c.args[-1]))]
                if len(anys) == 1 and anys[0].name == "any" and "ItemFn.attrs" in f0.describe_origin(f0.origin(anys[0].args[0]), deep=6):
                    r1.ok("the predicate is applied with Iterator::any over the function's attributes")
                else:
                    r1.bad(V(r1.id, "CommandParser::is_tauri_command", "quantifier:%s" % ",".join(sorted(c.name or "?" for c in anys)), "the predicate must hold for ANY attribute of the function"))
            else:
                # loop form: accepting return inside a loop over attrs, `false` only once the iterator is exhausted
                srcs = []
                for b_ in sorted(f0.reach_blocks):
                    for st in f0.blocks[b_]["stmts"]:
                        if "lhs" in st and st["lhs"]["l"] == 0 and (st.get("rv") or {}).get("k") == "use" and (st["rv"]["op"].get("const") or {}).get("bool") is True:
                            # the accepting exit leaves the loop, so it is not *in* it: it is dominated by `next() = Some(attr)` of the attribute iterator
                            for (a2, lab2) in f0.edge_dominators(b_):
                                o2, out2 = f0.cond_struct(a2, lab2)
                                if o2[0] == "call" and o2[1].name == "next" and out2 == "Some":
                                    srcs.append(f0.describe_origin(f0.origin(o2[1].args[0]), deep=6))
                rej = []
                for b_ in sorted(f0.reach_blocks):
                    for st in f0.blocks[b_]["stmts"]:
                        if "lhs" in st and st["lhs"]["l"] == 0 and (st.get("rv") or {}).get("k") == "use" and (st["rv"]["op"].get("const") or {}).get("bool") is False:
                            rej.append(b_)
                rej_ok = bool(rej) and all(any(txt_.endswith("=None") and "next" in txt_ for txt_ in f0.must_conditions(b_)) for b_ in rej)
                if srcs and all("ItemFn.attrs" in s_ for s_ in srcs) and rej_ok:
                    r1.ok("the predicate is applied to every attribute in a loop (true on the first match, false after the last)")
                else:
                    r1.bad(V(r1.id, "CommandParser::is_tauri_command", "quantifier:loop:%s" % ("no-loop" if not srcs else "reject-inside-loop" if not rej_ok else "source"), "the predicate must hold for ANY attribute of the function"))
    r1.require_floor(1, "predicate")
    rules.append(r1)

    # ---------------------------------------------------------------- D2
    r2 = Rule("C03-D2-unfiltered-discovery", "D2",
              "extract_command_info is called under exactly {item is Item::Fn, is_tauri_command()=true}, returns Some on every path, and the "
              "closure ranges over ast.items; the collected Vec is returned",
              "an extra condition (visibility, asyncness, attribute order) silently hides commands")
    cl = [f for k, f in P.fns.items() if k.startswith("tauri_typegen::analysis::command_parser::CommandParser::extract_commands_from_ast::{closure")]
    outer = P.fns.get("tauri_typegen::analysis::command_parser::CommandParser::extract_commands_from_ast")
    eci = P.fns.get("tauri_typegen::analysis::command_parser::CommandParser::extract_command_info")
    if outer is None or eci is None:
        r2.bad(V(r2.id, "<anchor>", "missing:extract_commands_from_ast", "anchors not found"))
    else:
        calls = [(f, c) for f in cl + [outer] for c in f.calls if eci.id in P.targets(c)]
        if len(calls) != 1:
            r2.bad(V(r2.id, outer.id, "eci-calls:%d" % len(calls), "expected one call of extract_command_info, found %d" % len(calls)))
        for f, c in calls:
            conds = f.must_conditions(c.bb)
            want_c = {"call CommandParser::is_tauri_command()=true"}
            fn_c = [x for x in conds if re.match(r"arg:\w+\.deref=Fn$", x)]
            loop_c = []
            if f is outer:
                # the same discovery written as a `for` loop over the items: being in the loop (`next() = Some`) is no filter, and the item is the
                # loop's element instead of a closure parameter
                loop_c = [x for x in conds if re.search(r"::next\(\)=Some$", x)]
                fn_c = fn_c or [x for x in conds if re.search(r"=Fn$", x) and "next(" in x]
            rest = set(conds) - want_c - set(fn_c) - set(loop_c)
            if len(fn_c) == 1 and want_c <= set(conds) and not rest:
                r2.ok("extract_command_info under exactly {Item::Fn, is_tauri_command}")
            else:
                r2.bad(V(r2.id, f.id, "discovery-guards:%s" % ",".join(sorted(rest)) + (":missing" if not (len(fn_c) == 1 and want_c <= set(conds)) else ""),
                         "extract_command_info is called under %s (expected exactly Item::Fn ∧ is_tauri_command)" % conds, c.file, c.line))
        for f, c in calls:
            extra = []
            for (b, keep, lose) in f.filter_branches(0, c.bb):
                o, outcome = f.cond_struct(b, keep[0])
                t = f.describe_origin(o, deep=1)
                if re.match(r"arg:\w+\.deref$", t) or (o[0] == "call" and short_path(o[1].best) == "CommandParser::is_tauri_command"):
                    continue
                if f is outer and ((o[0] == "call" and o[1].name == "next") or "next(" in f.describe_origin(o, deep=3)):
                    continue        # the loop's own iteration / the variant test on the loop's element
                # bool temporaries of && / matches! lowering
                if o[0] == "multi" and f.locals[f.blocks[b]["term"]["discr"].get("move", f.blocks[b]["term"]["discr"].get("copy", {"l": 0}))["l"]] == "bool":
                    continue
                extra.append(t)
            if extra:
                r2.bad(V(r2.id, f.id, "discovery-filters:%s" % ",".join(sorted(extra)),
                         "branches on %s can divert a tauri command away from extract_command_info" % extra, c.file, c.line))
            else:
                r2.ok("no other branch between the item and extract_command_info")
        nones = 0
        somes = 0
        for b in sorted(eci.reach_blocks):
            for st in eci.blocks[b]["stmts"]:
                rv = st.get("rv")
                if rv and st["lhs"]["l"] == 0 and not st["lhs"].get("p") and rv["k"] == "aggr":
                    if rv.get("variant") == "None":
                        nones += 1
                    elif rv.get("variant") == "Some":
                        somes += 1
        trys = [c for c in eci.calls if is_try_branch(c)]
        if nones == 0 and not trys and somes >= 1:
            r2.ok("extract_command_info has no None exit")
        else:
            r2.bad(V(r2.id, eci.id, "none-exit:%d:%d" % (nones, len(trys)), "extract_command_info can return None (%d None returns, %d `?`): a discovered command may be dropped" % (nones, len(trys))))
        its = [c for c in outer.calls if c.name in ("iter", "into_iter")]
        ok_items = any("File.items" in outer.describe_origin(outer.origin(c.args[0]), deep=2) for c in its)
        if ok_items:
            r2.ok("iterates syn::File.items (top-level items)")
        else:
            r2.bad(V(r2.id, outer.id, "iteration-source", "discovery does not iterate the file's top-level items"))
        fm = [c for c in outer.calls if c.name in ("filter_map", "filter", "take", "skip", "take_while", "skip_while", "step_by")]
        if [c.name for c in fm] == ["filter_map"] or (not fm and not cl and any(c_.name == "next" for c_ in outer.calls)):
            r2.ok("single filter_map adaptor" if fm else "a plain loop over the items, no adaptor")
        else:
            r2.bad(V(r2.id, outer.id, "adaptors:%s" % ",".join(c.name for c in fm), "unexpected iterator adaptors on the item list: %s" % [c.name for c in fm]))
    r2.require_floor(4, "discovery facts")
    rules.append(r2)

    # ---------------------------------------------------------------- D3
    r3 = Rule("C03-D3-directory-walk", "D3",
              "a file enters the AST cache under exactly {walk yields it, is_file, extension == \"rs\", not under target/ or .git/ below the "
              "project root, readable, parses}; the walker has no depth limit or entry filter",
              "an extra guard hides files; an exclusion evaluated on the absolute path hides whole projects that live under a directory named target")
    pf = P.find("AstCache::parse_and_cache_all_files")
    if not pf:
        r3.bad(V(r3.id, "<anchor>", "missing:parse_and_cache_all_files", "anchor not found"))
    else:
        f = pf[0]
        ins = [c for c in f.calls if short_path(c.path) == "HashMap::insert"]
        if len(ins) != 1:
            r3.bad(V(r3.id, f.id, "inserts:%d" % len(ins), "expected one cache insert in the walk"))
        for c in ins:
            cats = sorted(classify_cond(f, a, lab, P) for (a, lab) in f.edge_dominators(c.bb))
            need = {"walk", "entry-ok", "is_file", "ext", "read-ok", "parse-ok"}
            have = set(cats) - {"iter"}
            excl = {x for x in have if x.startswith("excl:")}
            other = {x for x in have if x.startswith(("other:", "try:"))}
            miss = need - have
            if miss or other:
                r3.bad(V(r3.id, f.id, "walk-guards:+%s:-%s" % (",".join(sorted(other)), ",".join(sorted(miss))),
                         "cache insert runs under %s; unexpected: %s, missing: %s" % (cats, sorted(other), sorted(miss)), c.file, c.line))
            else:
                r3.ok("insert under exactly %s" % sorted(have))
            heads = [x.bb for x in f.calls if x.name == "next" and "walkdir" in (x.self_ty or "")]
            excl_seen = set()
            if heads:
                body_entry = f.blocks[heads[0]]["term"].get("target")
                extra = []
                for (b, keep, lose) in f.filter_branches(body_entry, c.bb, stops=heads):
                    cat = classify_cond(f, b, keep[0], P)
                    if cat.startswith("excl:"):
                        excl_seen.add(cat)
                    if cat.startswith(("other:", "try:")):
                        o, outcome = f.cond_struct(b, keep[0])
                        if o[0] == "multi":
                            continue  # bool temporaries of && lowering
                        extra.append(cat)
                if extra:
                    r3.bad(V(r3.id, f.id, "walk-filters:%s" % ",".join(sorted(extra)),
                             "branches on %s can divert a file away from the cache insert" % extra, c.file, c.line))
                else:
                    r3.ok("every branch between a directory entry and the insert is one of the documented tests")
            excl = excl | excl_seen
            if excl in ({"excl:/target/", "excl:/.git/"}, {"excl:any"}, {"excl:=target", "excl:=.git"}):
                r3.ok("exclusions: %s" % sorted(excl))
            else:
                r3.bad(V(r3.id, f.id, "exclusions:%s" % ",".join(sorted(excl)), "exclusion tests are %s (expected target/ and .git/)" % sorted(excl), c.file, c.line))
        # extension literal
        ext_ok = False
        for k2, g in P.fns.items():
            if k2 in P.family(f.id) and "::{closure" in k2:
                for cc in g.calls:
                    for i in range(len(cc.args)):
                        if cc.arg_str(i) == "rs":
                            ext_ok = True
                for blk in g.blocks:
                    for st in blk["stmts"]:
                        rv = st.get("rv")
                        if rv and rv["k"] == "use" and (op_const(rv["op"]) or {}).get("str") == "rs":
                            ext_ok = True
        if ext_ok:
            r3.ok("extension compared with \"rs\"")
        else:
            r3.bad(V(r3.id, f.id, "extension-literal", "the extension test does not compare with \"rs\""))
        # exclusion literals when expressed through a closure
        lits = set()
        for k2 in P.family(f.id):
            g = P.fns[k2]
            if True:
                for s_ in g.const_strs():
                    if s_ in ("target", ".git", "/target/", "/.git/") or re.match(r"^/?\.?[a-z_]+/?$", s_) and s_ not in ("rs",):
                        lits.add(s_)
        if lits in ({"target", ".git"}, {"/target/", "/.git/"}):
            r3.ok("excluded directory names: %s" % sorted(lits))
        else:
            r3.bad(V(r3.id, f.id, "excluded-names:%s" % ",".join(sorted(lits)), "excluded directory literals are %s" % sorted(lits)))
        # walker configuration
        for cc in f.calls:
            if "walkdir::" in cc.path and cc.name in ("max_depth", "min_depth", "filter_entry", "same_file_system", "contents_first"):
                r3.bad(V(r3.id, f.id, "walker-option:%s" % cc.name, "the directory walker is restricted by %s" % cc.name, cc.file, cc.line))
        wd = [cc for cc in f.calls if strip_generics(cc.path) == "walkdir::WalkDir::new"]
        if len(wd) == 1 and "arg:project_path" in f.describe_origin(f.origin(wd[0].args[0]), deep=2):
            r3.ok("WalkDir::new(project_path) without depth limit / entry filter")
        else:
            r3.bad(V(r3.id, f.id, "walk-root", "the walk does not start at the project path"))
        # PATHSHAPE of the exclusion operand: must be relative to the walk root
        excl_calls = [cc for cc in f.calls if (cc.name == "contains" and cc.self_ty == "str" and cc.arg_str(1) in ("/target/", "/.git/")) or cc.name == "any"
                      or (cc.name in ("eq", "ne") and len(cc.args) == 2 and (cc.arg_lit(1, P) or cc.arg_lit(0, P)) in ("target", ".git"))]
        for cc in excl_calls:
            recv = f.describe_origin(f.origin(cc.args[0]), deep=12) + f.describe_origin(f.origin(cc.args[1]), deep=12) if cc.name in ("eq", "ne") else f.describe_origin(f.origin(cc.args[0]), deep=6)
            if "strip_prefix" in recv:
                r3.ok("exclusion test on the path below the project root (%s)" % short_path(cc.best))
            else:
                r3.bad(V(r3.id, f.id, "exclusion-on-absolute-path:%s" % (cc.arg_str(1) or cc.name),
                         "the exclusion test %s is applied to the full path (%s), not to the part below the project root: a project located under a "
                         "directory named target/ or .git/ yields no commands" % (cc.arg_str(1) or cc.name, recv[:80]), cc.file, cc.line))
        # Err arm of parse_file continues the loop (shared with C15 isolation)
        pcs = [c for c in f.calls if strip_generics(c.path) == "syn::parse_file"]
        for pc in pcs:
            sinks = forward_uses(f, pc.dest["l"])
            if any(s[0] == "call" and is_try_branch(s[1]) for s in sinks) or any(s[0] == "ret" for s in sinks):
                r3.bad(V(r3.id, f.id, "parse-error-propagated", "a file that fails to parse aborts the walk", pc.file, pc.line))
            else:
                r3.ok("a file that fails to parse is skipped, the walk continues")
    r3.require_floor(7, "walk facts")
    rules.append(r3)

    # ---------------------------------------------------------------- D4
    r4 = Rule("C03-D4-per-file-accumulation", "D4",
              "analyze_project appends each file's commands to the result under no condition other than the file loop, the cache lookup and "
              "error propagation of the extraction steps; the accumulated vector is what is returned",
              "a guard on the accumulation (e.g. only non-empty event lists) hides the commands of some files")
    ap = P.find("CommandAnalyzer::analyze_project_with_verbose")
    if not ap:
        r4.bad(V(r4.id, "<anchor>", "missing:analyze_project_with_verbose", "anchor not found"))
    else:
        f = ap[0]
        ext = [c for c in f.calls if c.name == "extend" and "CommandInfo" in " ".join(c.generics)]
        if len(ext) != 1:
            r4.bad(V(r4.id, f.id, "extend-sites:%d" % len(ext), "expected one commands.extend(file_commands)"))
        for c in ext:
            bad = []
            for (a, lab) in f.edge_dominators(c.bb):
                o, outcome = f.cond_struct(a, lab)
                t = f.describe_origin(o, deep=1)
                if o[0] == "call" and o[1].name == "next" and outcome in ("Some", "None"):
                    continue
                if o[0] == "call" and is_try_branch(o[1]) and outcome == "Continue":
                    continue
                if o[0] == "call" and short_path(o[1].best) == "AstCache::get_cloned" and outcome == "Some":
                    continue
                bad.append("%s=%s" % (t, outcome))
            if bad:
                r4.bad(V(r4.id, f.id, "accumulation-guards:%s" % ",".join(sorted(bad)), "commands.extend runs under extra conditions %s" % bad, c.file, c.line))
            else:
                r4.ok("commands.extend(file_commands) under loop/lookup/`?` only")
            # no branch between the extraction of this file's commands and the append may skip the append
            # (other than error propagation and inner loops)
            ecs = [x for x in f.calls if short_path(x.best) == "CommandParser::extract_commands_from_ast"]
            heads = [x.bb for x in f.calls if x.name == "next" and "PathBuf" in (x.self_ty or "")]
            if ecs and heads:
                extra = []
                for (b, keep, lose) in f.filter_branches(ecs[0].bb, c.bb, stops=heads):
                    o, outcome = f.cond_struct(b, keep[0])
                    if o[0] == "call" and is_try_branch(o[1]):
                        continue
                    extra.append(f.describe_origin(o, deep=1))
                if extra:
                    r4.bad(V(r4.id, f.id, "accumulation-filters:%s" % ",".join(sorted(extra)),
                             "branches on %s can skip commands.extend for a file whose commands were extracted" % extra, c.file, c.line))
                else:
                    r4.ok("no branch can skip the append once a file's commands were extracted")
            else:
                r4.bad(V(r4.id, f.id, "file-loop-shape", "cannot locate the per-file loop / extraction call"))
            src = f.describe_origin(f.origin(c.args[1]), deep=3)
            if "extract_commands_from_ast" in src:
                r4.ok("appended value is the result of extract_commands_from_ast")
            else:
                r4.bad(V(r4.id, f.id, "appended-value", "the appended value does not come from extract_commands_from_ast: %s" % src, c.file, c.line))
        # returned value is the accumulator
        acc_ok = False
        for d in f.defs.get(0, []):
            if d[0] == "stmt" and d[3]["k"] == "aggr" and d[3].get("variant") == "Ok":
                from mirlib import op_place
                pl = op_place(d[3]["ops"][0])
                accs = {op_place(c.args[0])["l"] for c in ext if op_place(c.args[0])}
                # the accumulator is borrowed mutably for extend: `&mut commands` (possibly handed through a helper's `&mut Vec<..>` parameter)
                from unord import Unord
                acc_locals = {Unord._base_local(None, f, c.args[0], depth=16) for c in ext}
                if Unord._base_local(None, f, d[3]["ops"][0], depth=16) in acc_locals:
                    acc_ok = True
        if acc_ok:
            r4.ok("Ok(commands) is returned")
        else:
            r4.bad(V(r4.id, f.id, "returned-value", "the accumulated command list is not what is returned"))
    r4.require_floor(3, "accumulation facts")
    rules.append(r4)

    # ---------------------------------------------------------------- D5
    # between discovery and generation nothing removes commands: the Vec<CommandInfo> handed to generate_models is the analyzer's result, and no
    # shrinking operation (dedup*, retain, truncate, remove, pop, drain, clear, split_off, swap_remove) is applied to it on the way
    from unord import Unord as _Unord
    U_ = _Unord(P)
    SHRINKERS = ("dedup", "dedup_by", "dedup_by_key", "retain", "retain_mut", "truncate", "remove", "pop", "drain", "clear", "split_off", "swap_remove", "extract_if")
    n_gen = 0
    for fid in sorted(reach):
        f = P.fns[fid]
        gens = [c for c in f.calls if c.path == GEN_MODELS_PATH and c.bb in f.reach_blocks]
        for g in gens:
            n_gen += 1
            cmd_arg = None
            for a in g.args:
                t = f.describe_origin(f.origin(a), short=False, deep=4)
                if "CommandInfo" in (f._operand_ty(a) or "") or "analyze_project" in t:
                    cmd_arg = a
                    break
            if cmd_arg is None:
                cmd_arg = g.args[1] if len(g.args) > 1 else None
            base = U_._base_local(f, cmd_arg) if cmd_arg is not None else None
            shrunk = []
            for c in f.calls:
                if c.name in SHRINKERS and c.args and c.bb in f.reach_blocks and "CommandInfo" in " ".join(c.generics + [c.self_ty or ""]) and U_._base_local(f, c.args[0]) == base:
                    shrunk.append(c)
            if shrunk:
                r2.bad(V(r2.id, fid, "command-list-shrunk:%s" % ",".join(sorted(set(c.name for c in shrunk))), "the discovered commands are reduced by %s before generation: some annotated functions get no wrapper" % sorted(set(c.name for c in shrunk)), shrunk[0].file, shrunk[0].line))
            else:
                r2.ok("%s: the discovered command list reaches generate_models unshrunk" % short_path(fid))
    if n_gen == 0:
        r2.bad(V(r2.id, "<anchor>", "missing:generate_models-callers", "no reachable caller of generate_models found"))
    r5 = Rule("C03-D5-wrapper-template", "D5",
              "every control path of typescript/ and zod/ command_function has exactly one `export async function {{ command.tsFunctionName }}` and "
              "exactly one invoke(..) whose first argument is '{{ command.name }}' unfiltered; the return annotation is Promise<{{ command.returnTypeTs | "
              "add_types_prefix }}>; commands.ts loops over `commands` unfiltered and includes the partial unconditionally",
              "a path without (or with two) wrappers, or an invoke of the TypeScript-cased name, breaks the one-wrapper-per-command contract")
    T = Templates(S)
    for mode in ("typescript", "zod"):
        name = "%s/partials/command_function.ts.tera" % mode
        ps = T.paths(name)
        if ps is None:
            r5.bad(V(r5.id, name, "missing-template", "template not registered"))
            continue
        for p in [p for p in ps if consistent(p.conds)]:
            flat = p.flat()
            nf = len(re.findall(r"export\s+async\s+function\s+⟦command\.tsFunctionName⟧\s*\(", flat))
            nother = len(re.findall(r"export\s+(async\s+)?function\b", flat))
            inv = re.findall(r"\binvoke(?:<[^(]*>)?\(\s*([^,)]*)", flat)
            ret = re.findall(r"\)\s*:\s*Promise<⟦command\.returnTypeTs\|add_types_prefix⟧>\s*\{", flat)
            okp = (nf == 1 and nother == 1 and len(inv) == 1 and inv[0].strip() == "'⟦command.name⟧'" and len(ret) == 1)
            if okp:
                r5.ok("%s [%s]: 1 function, invoke('⟦command.name⟧'), Promise<…|add_types_prefix>" % (name, p.cond_text()[:60]))
            else:
                r5.bad(V(r5.id, name, "path[%s]:fn=%d/%d:invoke=%s:ret=%d" % (p.cond_text(), nf, nother, "|".join(x.strip() for x in inv), len(ret)),
                         "on the path [%s] the template emits %d/%d exported functions, invoke first arguments %s, %d matching return annotations"
                         % (p.cond_text(), nf, nother, inv, len(ret))))
        main = "%s/commands.ts.tera" % mode
        ps = T.paths(main)
        for p in ps or []:
            loops = [it for it in p.items if it[0] == "loop"]
            cmd_loops = [it for it in loops if it[2] == "commands"]
            if len(cmd_loops) == 1 and all(any(re.search(r"export\s+async\s+function", bp.flat()) for bp in [b]) for b in cmd_loops[0][3]):
                r5.ok("%s [%s]: one unfiltered loop over commands, partial included on every body path" % (main, p.cond_text()))
            else:
                r5.bad(V(r5.id, main, "commands-loop:%s" % ",".join(it[2] for it in loops),
                         "commands.ts does not loop over `commands` unfiltered with the wrapper on every body path (loops: %s)" % [it[2] for it in loops]))
    # ... and `command.name` is the function's identifier exactly as written: CommandInfo.name = <fn>.sig.ident.to_string(), no unraw / case / trim step
    # (the TypeScript-side names are derived separately; Tauri registers the command under the identifier's own spelling)
    from srclib import walk_block as _wb, expr_text as _et, pat_bindings as _pb, stmt_exprs as _se, walk as _walk
    sites = []
    for fn in S.fns:
        if fn.body is None or "/analysis/" not in "/" + fn.file:
            continue
        for e in _wb(fn.body):
            if e.get("k") == "struct" and e["path"][-1] == "CommandInfo":
                for fe in e["fields"]:
                    if fe["member"] == "name":
                        sites.append((fn, fe["expr"]))
    def find_let(stmts, name):
        found = None
        for st in stmts or []:
            if isinstance(st, dict) and st.get("k") == "let" and st.get("init") is not None and name in _pb(st["pat"]):
                found = st["init"]
            for e2 in (_se(st) if isinstance(st, dict) else []):
                for x in _walk(e2):
                    for key in ("then", "stmts", "body"):
                        v = x.get(key)
                        if isinstance(v, list):
                            r_ = find_let(v, name)
                            found = r_ if r_ is not None else found
        return found
    for fn, ex in sites:
        seen_ = 0
        while ex.get("k") == "path" and len(ex["segs"]) == 1 and seen_ < 4:
            seen_ += 1
            init = None
            for e in _wb(fn.body):
                pass
            def find_let(stmts, name):
                found = None
                for st in stmts or []:
                    if isinstance(st, dict) and st.get("k") == "let" and st.get("init") is not None and name in _pb(st["pat"]):
                        found = st["init"]
                    for e2 in (_se(st) if isinstance(st, dict) else []):
                        for x in _walk(e2):
                            for key in ("then", "stmts", "body"):
                                v = x.get(key)
                                if isinstance(v, list):
                                    r_ = find_let(v, name)
                                    found = r_ if r_ is not None else found
                return found
            init = find_let(fn.body, ex["segs"][0])
            if init is None:
                break
            ex = init
        t = _et(ex)
        # `let ident = &func.sig.ident; ident.to_string()`: substitute a let-bound receiver
        if ex.get("k") == "mcall" and ex["recv"].get("k") == "path" and len(ex["recv"]["segs"]) == 1:
            init2 = find_let(fn.body, ex["recv"]["segs"][0]) if sites else None
            if init2 is not None:
                while init2.get("k") in ("ref", "paren"):
                    init2 = init2["expr"]
                t = "%s.%s(%s)" % (_et(init2), ex["method"], ", ".join(_et(a) for a in ex["args"]))
        # `let signature = &func.sig; .. signature.ident.to_string()`: the root of the receiver chain through its let binding (twice at most)
        for _ in range(2):
            m_ = re.match(r"^(\w+)((?:\.\w+)*\.to_string\(\))$", t)
            if m_ and not re.match(r"^\w+\.sig\.ident\.to_string\(\)$", t) and sites:
                init3 = find_let(fn.body, m_.group(1))
                if init3 is None:
                    break
                while init3.get("k") in ("ref", "paren"):
                    init3 = init3["expr"]
                t = _et(init3) + m_.group(2)
        if re.match(r"^\w+\.sig\.ident\.to_string\(\)$", t):
            r5.ok("%s: CommandInfo.name = %s" % (fn.qname, t))
        else:
            r5.bad(V(r5.id, fn.qname, "command-name-transformed:%s" % t[:60], "CommandInfo.name (the invoke string) is `%s`, not the function identifier as written" % t[:80], fn.file, fn.line))
    if not sites:
        r5.bad(V(r5.id, "<anchor>", "missing:CommandInfo-construction", "no construction site of CommandInfo found in the analysis module"))
    r5.require_floor(9, "template paths and name provenance")
    rules.append(r5)

    return finish(
        PROP, ctx, rules,
        "DNF of the attribute predicate from the syntax tree; exact dominating-condition sets (CTRL) of the discovery call, the cache insert and the "
        "per-file accumulation from MIR; walker option who-may-call; path-enumeration facts of the wrapper templates parsed by Tera's own parser.",
        ["uniqueness of wrapper names when two commands share a name or differ only in case/underscores (depends on user identifiers)",
         "commands inside inline modules / impl blocks are out of scope by the statement ('top level of any .rs file')"],
        ["syn's attribute path API (is_ident, segments) behaves as documented; walkdir visits every entry unless configured otherwise"])

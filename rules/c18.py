"""C18 — a type mapping replaces the mapped type everywhere and nothing else.

  D1  SV     every renderer of TypeStructure::Custom(name) looks `name` up in config.type_mappings first
             (hit -> the mapped text / its Zod image, miss -> the name); the schema builder delegates custom types to the visitor
  D2  CALLS  every visitor / schema builder constructed on a generation path carries the configuration (with_config / new(config))
  D3  CALLS  the lookup is an exact-key HashMap::get on the leaf name; type_mappings is not searched by prefix / iterated in renderers
  D4  TABLE  Zod images: string -> z.string(), number -> z.number(), boolean -> z.boolean()
  D5  TABLE  the namespace-qualification filter leaves string/number/boolean unchanged
  D6  FLOW   names that are mapped are removed from the set of declared types
"""
import re

from common import Rule, V, finish
from mirlib import ENTRY_POINTS, short_path, op_place
from rulelib import strip_generics
from srclib import walk_block, walk, lit_str, expr_text
from svlib import SVEval, render, leaves
from c05 import resolver, constructor_of

PROP = "C18"


def narrowing_calls(P, gid):
    """calls reachable from a generate_models implementation that narrow the map of types to declare: HashMap::retain / remove / extract_if on a map of
    StructInfo, or an Iterator::filter / filter_map over its entries (the map rebuilt from the filtered iterator): [(Fn, Call, closure id or None)]"""
    out = []
    for fid in sorted(P.reachable([gid])):
        f = P.fns[fid]
        for c in f.calls:
            if c.bb not in f.reach_blocks:
                continue
            tys = " ".join(c.generics + [c.self_ty or ""])
            direct = short_path(c.path) in ("HashMap::retain", "HashMap::remove", "HashMap::extract_if") and "StructInfo" in tys
            # (a filter counts only in the generator's own body: the collector builds the used set by filtering all discovered structs, which
            # is the construction of the set, not its narrowing)
            lazy = fid == gid and c.name in ("filter", "filter_map") and (c.trait or "").endswith("Iterator") and "StructInfo" in tys and re.search(r"hash_map::(IntoIter|Iter|Drain)", tys)
            if not (direct or lazy):
                continue
            cid = None
            if len(c.args) > 1:
                o = f.origin(c.args[1])
                cid = o[1].get("closure") if o[0] == "aggr" and isinstance(o[1], dict) else None
            out.append((f, c, cid if cid in P.fns else None))
    return out


def check(ctx):
    P = ctx.P
    S = ctx.S
    reach = P.reachable(ENTRY_POINTS)
    ev = SVEval(S)
    rules = []

    r1 = Rule("C18-D1-lookup-before-name", "D1",
              "each Custom(name) renderer (TypeScriptVisitor::visit_type, ZodVisitor::visit_type, ZodVisitor::visit_type_for_interface) has a path "
              "guarded by type_mappings.get(name) that emits the mapped value and emits the name only on the miss paths; "
              "ZodSchemaBuilder::render_type delegates Custom to the visitor",
              "a renderer without the lookup prints N by name at the sites it serves (e.g. command signatures in Zod mode)")
    r4 = Rule("C18-D4-zod-image", "D4",
              "on a mapping hit the Zod visitor renders string -> z.string(), number -> z.number(), boolean -> z.boolean()",
              "another image validates the mapped field against the wrong primitive")
    # who may render a Custom type: every pattern on TypeStructure::Custom inside a String-returning function of the generators hands the name to a
    # renderer that does the lookup (visit_custom / visit_type / render_type), or is one of the three renderers checked below
    from srclib import walk, walk_block as _wb, pat_bindings as _pb
    RENDER_CALLS = ("visit_custom", "visit_type", "visit_type_for_interface", "render_type", "build_schema", "build_param_schema")
    n_custom_arms = 0
    # functions that only serve a Tera filter no rendered template uses are not renderers of this tool's output
    from c01 import registered_filters
    from tplpaths import Templates
    from srclib import tera_walk
    T_ = Templates(S)
    used_filters = set()
    for tn in T_.reachable_templates():
        def filt(e):
            for f_ in e.get("filters", []):
                used_filters.add(f_["name"])
                for _, a in f_["args"]:
                    filt(a)
            v = e.get("val", {})
            for key in ("l", "r"):
                if isinstance(v.get(key), dict):
                    filt(v[key])
        for node in tera_walk(T_.ast_of(tn) or []):
            for key in ("e", "value", "container"):
                if isinstance(node.get(key), dict):
                    filt(node[key])
            for c_ in node.get("conds", []) if node.get("k") == "if" else []:
                filt(c_["cond"])
    dead_roots = {fn_.name for name_, fn_ in registered_filters(S).items() if name_ not in used_filters}
    gen_fns = [g for g in S.fns if g.body is not None and "/generators/" in "/" + g.file]
    calls_of = {}
    for g in gen_fns:
        names = set()
        for e in _wb(g.body):
            if e.get("k") == "mcall":
                names.add(e["method"])
            elif e.get("k") == "call" and e["func"].get("k") == "path":
                names.add(e["func"]["segs"][-1])
        calls_of[g.name] = calls_of.get(g.name, set()) | names
    called = set(n for ns in calls_of.values() for n in ns)
    live = set(g.name for g in gen_fns if g.name not in called and g.name not in dead_roots)
    work = list(live)
    while work:
        n_ = work.pop()
        for m_ in calls_of.get(n_, ()):
            if m_ not in live and m_ in calls_of:
                live.add(m_)
                work.append(m_)
    for fn in S.fns:
        if fn.body is None or "/generators/" not in "/" + fn.file or "String" not in (fn.sig.get("ret") or ""):
            continue
        if fn.name not in live:
            r1.notes.append("%s: only reachable from a Tera filter that no rendered template uses (%s)" % (fn.qname, sorted(dead_roots)))
            continue
        for e in _wb(fn.body):
            arms = []
            if e.get("k") == "match":
                arms = [(a["pat"], a["body"]) for a in e["arms"]]
            elif e.get("k") == "if" and e["cond"].get("k") == "letcond":
                arms = [(e["cond"]["pat"], {"k": "block", "stmts": e["then"]})]
            for pat, body in arms:
                pats = pat["cases"] if pat.get("k") == "or" else [pat]
                if not any((p.get("path") or p.get("segs") or [""])[-1] == "Custom" for p in pats):
                    continue
                n_custom_arms += 1
                calls = [x for x in walk(body) if (x.get("k") == "mcall" and x["method"] in RENDER_CALLS)
                         or (x.get("k") == "call" and expr_text(x["func"]).split("::")[-1] in RENDER_CALLS)]
                lookups = [x for x in walk(body) if x.get("k") == "mcall" and x["method"] == "get" and "mapping" in expr_text(x["recv"])]
                if not lookups:
                    # ... or through a private helper that was not there at the pinned commit (`self.mapped_type_for(name)`)
                    from srclib import is_new_helper, walk_block_deep
                    for x in walk(body):
                        cal = x["method"] if x.get("k") == "mcall" else (x["func"]["segs"][-1] if x.get("k") == "call" and x["func"].get("k") == "path" else None)
                        for g_ in [y for y in S.fns if cal and y.name == cal and y.body is not None and y.file == fn.file and is_new_helper(y)]:
                            lookups += [y for y in walk_block_deep(S, g_) if y.get("k") == "mcall" and y["method"] == "get" and "mapping" in expr_text(y["recv"])]
                if calls or lookups:
                    r1.ok("%s: Custom arm delegates to %s" % (fn.qname, sorted(set((x.get("method") or expr_text(x["func"])) for x in calls)) or "a type_mappings lookup"))
                else:
                    r1.bad(V(r1.id, fn.qname, "custom-arm-without-lookup:%s" % expr_text(body)[:40],
                             "%s renders TypeStructure::Custom itself (%s) without consulting type_mappings or delegating to a renderer that does" % (fn.qname, expr_text(body)[:60]), fn.file, fn.line))
    entries = [("TypeScriptVisitor", "visit_type"), ("ZodVisitor", "visit_type"), ("ZodVisitor", "visit_type_for_interface")]
    for owner, entry in entries:
        res = resolver(S, owner)
        fn = res(entry)
        if fn is None:
            r1.bad(V(r1.id, "<anchor>", "missing:%s::%s" % (owner, entry), "renderer not found"))
            continue
        paths = [(c, sv) for (c, sv) in ev.fn_paths(fn, None, res) if constructor_of(c) == "Custom"]
        if not paths:
            r1.bad(V(r1.id, "%s::%s" % (owner, entry), "no-custom-arm", "no rendering for TypeStructure::Custom"))
            continue
        hits = []
        misses = []
        bound = None
        for conds, _ in paths:
            for c in conds:
                m = re.search(r"matches TypeStructure::Custom\((\w+)\)", c)
                if m:
                    bound = m.group(1)
        keyvar = ("var", bound or "name")
        for conds, sv in paths:
            lookup = [c for c in conds if re.search(r"if-let Some\(\w+\) = \w+\.get\(\w+\)", c) and "not(" not in c]
            if lookup:
                hits.append((conds, sv))
            else:
                misses.append((conds, sv))
        key_ok = all(any(l[0] == "maphit" and l[2] == keyvar for l in leaves(sv)) or owner == "ZodVisitor" and entry == "visit_type" for _, sv in hits)
        if not hits:
            r1.bad(V(r1.id, "%s::%s" % (owner, entry), "no-lookup", "Custom(name) is rendered without consulting config.type_mappings: %s" % [render(sv) for _, sv in paths]))
            continue
        # hit paths must not print the name; miss paths must print it (plain) / {name}Schema (zod schema side)
        bad_hit = [render(sv) for _, sv in hits if any(l == keyvar for l in leaves(sv) if l[0] == "var")]
        if bad_hit:
            r1.bad(V(r1.id, "%s::%s" % (owner, entry), "hit-prints-name:%s" % "|".join(bad_hit), "on a mapping hit the name itself is still printed: %s" % bad_hit))
        if not key_ok:
            r1.bad(V(r1.id, "%s::%s" % (owner, entry), "lookup-key", "the lookup key is not the custom type's name"))
        if not bad_hit and key_ok:
            r1.ok("%s::%s: %d hit path(s) via type_mappings.get(name), %d miss path(s) -> %s" % (owner, entry, len(hits), len(misses), sorted(set(render(sv) for _, sv in misses))))
        # config presence is required for the lookup: paths without config fall to the name (covered by D2)
        if owner == "ZodVisitor" and entry == "visit_type":
            img = {}
            for conds, sv in hits:
                for c in conds:
                    m = re.search(r'matches "(\w+)"$', c)
                    if m:
                        img[m.group(1)] = render(sv)
            want = {"string": "z.string()", "number": "z.number()", "boolean": "z.boolean()"}
            for k, v in want.items():
                if img.get(k) == v:
                    r4.ok("mapped %s -> %s" % (k, v))
                else:
                    r4.bad(V(r4.id, "ZodVisitor::visit_custom", "image:%s:%s" % (k, img.get(k)), "a type mapped to %s is validated as %s (expected %s)" % (k, img.get(k), v)))
        else:
            vals = sorted(set(render(sv) for _, sv in hits))
            if all(sv[0] == "maphit" and sv[2] == keyvar for _, sv in hits):
                r1.ok("%s::%s: hit renders the mapped text verbatim" % (owner, entry))
            else:
                r1.bad(V(r1.id, "%s::%s" % (owner, entry), "hit-value:%s" % "|".join(vals), "a mapping hit renders %s instead of the mapped text" % vals))
    sb = [f for f in S.fns if f.owner == "ZodSchemaBuilder" and f.name == "render_type"]
    if sb:
        cust = [(c, sv) for (c, sv) in ev.fn_paths(sb[0], None, lambda n: None) if constructor_of(c) == "Custom"]
        if cust and all(render(sv).startswith(("self.visitor.visit_type", "⟨visit_type")) or (sv[0] == "call" and "visit_type" in sv[1]) or sv[0] == "rec" for _, sv in cust):
            r1.ok("ZodSchemaBuilder::render_type: Custom -> self.visitor.visit_type(..)")
        else:
            r1.bad(V(r1.id, "ZodSchemaBuilder::render_type", "custom-not-delegated:%s" % "|".join(render(sv) for _, sv in cust),
                     "the schema builder renders custom types itself (%s) instead of delegating to the mapping-aware visitor" % [render(sv) for _, sv in cust]))
    else:
        r1.bad(V(r1.id, "<anchor>", "missing:ZodSchemaBuilder::render_type", "anchor not found"))
    r1.require_floor(5, "custom renderers")
    r4.require_floor(3, "zod images")
    # a channel's message type is printed through the visitor like every other type: each `Channel<..>` hole of the templates is the rendered
    # type (typescriptMessageType), not the Rust text kept next to it (which no mapping is applied to)
    from tplpaths import consistent as _cons18
    n_ch = 0
    for tn in sorted(T_.reachable_templates()):
        holes_ = set()
        for p_ in T_.paths_in_context(tn) or []:
            if not _cons18(p_.conds):
                continue
            flat_ = p_.flat(loop=lambda it: "".join(bp.flat() for bp in it[3][:4]))
            holes_.update(m_.group(1).strip() for m_ in re.finditer(r"Channel<⟦([^⟧]+)⟧>", flat_))
        for h_ in sorted(holes_):
            n_ch += 1
            if re.fullmatch(r"\w+\.typescriptMessageType", h_):
                r1.ok("%s: Channel<%s>" % (tn, h_))
            else:
                r1.bad(V(r1.id, tn, "channel-type-source:%s" % h_, "%s prints Channel<{{ %s }}>: not the visitor's rendering of the message type, so a mapped "
                         "type appears under its Rust name" % (tn, h_)))
    rules += [r1, r4]

    # ---------------------------------------------------------------- D2
    r2 = Rule("C18-D2-visitors-carry-config", "D2",
              "every TypeScriptVisitor / ZodVisitor / ZodSchemaBuilder constructed in code reachable from the entry points is built with the configuration",
              "a visitor built with ::new() has no mappings: the sites it serves print N unmapped")
    for fid in sorted(reach):
        f = P.fns[fid]
        for c in f.calls:
            sp = short_path(c.best)
            if sp in ("TypeScriptVisitor::new", "ZodVisitor::new"):
                if fid.endswith("::default") or "as core::default::Default" in fid or "as std::default::Default" in fid:
                    continue
                r2.bad(V(r2.id, fid, "config-less-visitor:%s" % sp, "%s constructs a visitor without configuration (type mappings are ignored there)" % short_path(fid), c.file, c.line))
            elif sp in ("TypeScriptVisitor::with_config", "ZodVisitor::with_config", "ZodSchemaBuilder::new"):
                r2.ok("%s: %s" % (short_path(fid), sp))
    r2.require_floor(9, "visitor constructions")
    rules.append(r2)

    # ---------------------------------------------------------------- D3
    r3 = Rule("C18-D3-exact-key-lookup", "D3",
              "in the renderers config.type_mappings is only consulted through HashMap::get (exact key); no contains/starts_with/iteration over its keys",
              "a prefix or substring match would also replace types that are not named in the mapping ('nothing else')")
    n = 0

    def reads_mappings(f):
        for blk in f.blocks:
            for st in blk["stmts"]:
                rv = st.get("rv")
                pl = None
                if rv and rv["k"] in ("ref", "copy_for_deref"):
                    pl = rv["place"]
                elif rv and rv["k"] == "use":
                    pl = op_place(rv["op"])
                if pl and any(p.get("name") == "type_mappings" for p in pl.get("p", []) if p["k"] == "field"):
                    return True
        return False
    roots = sorted({fid.split("::{closure")[0] for fid in reach if ("type_visitor" in fid or "schema_builder" in fid or "templates::" in fid)})
    for root in roots:
        members = [k for k in (P.family(root) if root in P.fns else []) if "{promoted" not in k and k in reach]
        if not any(reads_mappings(P.fns[k]) for k in members):
            continue
        n += 1
        for fid in members:
            f = P.fns[fid]
            in_closure = "::{closure" in fid
            for c in f.calls:
                if c.bb not in f.reach_blocks:
                    continue
                recv = f.describe_origin(f.origin(c.args[0]), deep=2) if c.args else ""
                # inside a closure of such a function the map arrives as the closure's parameter (`.and_then(|mappings| mappings.get(name))`)
                is_map = ("type_mappings" in recv) or (in_closure and short_path(c.path).startswith("HashMap::") and c.generics[:2] == ["std::string::String", "std::string::String"])
                if is_map and "HashMap" in (c.path + (c.self_ty or "")):
                    if not short_path(c.path).startswith("HashMap::") and c.name in ("as_ref", "as_deref", "branch", "from_residual", "is_some", "is_none", "clone", "cloned", "and_then", "map", "unwrap_or", "unwrap_or_default", "ok_or", "ok_or_else", "deref"):
                        continue        # reaching the Option<HashMap> itself (`.as_ref()?`, `.and_then(..)`): not a lookup in the map
                    if short_path(c.path) == "HashMap::get":
                        # ... with the type's own name as the key: the function's name parameter or the payload of TypeStructure::Custom, unaltered
                        # (a key that was split / trimmed / re-cased first no longer finds `DateTime<Utc>`-style entries, or finds entries of other types)
                        ko = f.origin(c.args[1]) if len(c.args) > 1 else ("unknown",)
                        while ko[0] == "proj" or (ko[0] == "call" and ko[1].args and strip_generics(ko[1].path) in ("std::ops::Deref::deref", "std::string::String::as_str", "std::convert::AsRef::as_ref", "std::borrow::Borrow::borrow")):
                            ko = ko[1] if ko[0] == "proj" else f.origin(ko[1].args[0])
                        # in a closure the name is a captured variable of the enclosing function: a field of the closure environment (argument 1)
                        if ko[0] == "arg":
                            r3.ok("%s: type_mappings.get(<the type's name>)" % short_path(fid))
                        else:
                            r3.bad(V(r3.id, fid, "mapping-key-derived", "the key looked up in type_mappings is not the type's name itself but %s" % f.describe_origin(ko, deep=2)[:120], c.file, c.line))
                    else:
                        r3.bad(V(r3.id, fid, "mapping-access:%s" % short_path(c.path), "type_mappings is consulted through %s (not an exact-key lookup)" % c.path, c.file, c.line))
    # ... and the table that is looked up is the table the user wrote: wherever GenerateConfig.type_mappings is assigned in the crate, the value is a whole
    # table taken from somewhere (deserialised, cloned, moved), never one rebuilt entry by entry — a loader that "normalises" the keys (strips blanks,
    # changes case) makes `Id<Doc, Uuid>` unreachable by the exact-name lookup above
    REBUILD = {"collect", "from_iter", "insert", "extend", "retain", "remove", "split_whitespace", "trim", "replace", "to_lowercase", "to_uppercase", "map", "filter", "filter_map", "into_iter", "iter", "drain"}
    n_as = 0
    for fid in sorted(P.fns):
        f = P.fns[fid]
        if "{promoted#" in fid or not fid.startswith(("tauri_typegen::", "cargo_tauri_typegen::", "<tauri_typegen::")):
            continue
        sites_ = []
        for b_ in sorted(f.reach_blocks):
            for st in f.blocks[b_]["stmts"]:
                pj = (st.get("lhs") or {}).get("p", [])
                if pj and pj[-1].get("k") == "field" and pj[-1].get("name") == "type_mappings" and pj[-1].get("adt", "").endswith("GenerateConfig") and st.get("rv"):
                    rv_ = st["rv"]
                    ops_ = rv_.get("ops", []) if rv_.get("k") == "aggr" else ([rv_["op"]] if rv_.get("k") in ("use", "cast") else [])
                    sites_.append((st, ops_))
            t_ = f.blocks[b_]["term"]
            if t_["k"] == "call":
                pj = t_["dest"].get("p", [])
                if pj and pj[-1].get("k") == "field" and pj[-1].get("name") == "type_mappings" and pj[-1].get("adt", "").endswith("GenerateConfig"):
                    sites_.append(({"line": (t_.get("span") or {}).get("line")}, t_["args"]))
        for st, ops_ in sites_:
            n_as += 1
            fed = set()
            for a_ in ops_:
                fed |= f.feeding_calls(a_, depth=6)
            rb = sorted(x.split("::")[-1] for x in fed if x.split("::")[-1] in REBUILD)
            if rb:
                r3.bad(V(r3.id, fid, "mappings-rebuilt:%s" % ",".join(rb), "%s assigns GenerateConfig.type_mappings a table rebuilt through %s: keys the user wrote may no longer be the keys that are looked up"
                         % (short_path(fid), ", ".join(rb)), f.file, st.get("line")))
            else:
                r3.ok("%s: type_mappings assigned as a whole" % short_path(fid))
    r3.require_floor(3, "mapping lookups")
    # the resolver's table is keyed the way the configuration is: when the (rust name -> ts name) pairs of type_mappings are copied into the
    # type resolver, the key of the pair goes to the key position (swapped, the table is keyed by the TypeScript targets and a mapped Rust name
    # is not recognised by parse_type_structure)
    for fid in sorted(reach):
        f = P.fns.get(fid)
        if f is None:
            continue
        for c in f.calls:
            if c.bb not in f.reach_blocks or short_path(c.best) != "TypeResolver::add_type_mapping" or len(c.args) < 3:
                continue
            pos = []
            for a in c.args[1:3]:
                o = f.origin(a)
                while o[0] == "call" and o[1].name in ("clone", "to_string", "to_owned", "as_str", "deref", "into", "from", "as_ref") and o[1].args:
                    o = f.origin(o[1].args[0])
                idx = None
                while o[0] == "proj":
                    for pj in o[2]:
                        m_ = re.fullmatch(r"\(tuple\)\.(\d)", pj) if isinstance(pj, str) else None
                        if m_:
                            idx = int(m_.group(1))
                    o = o[1]
                pos.append((idx, o[1].bb if o[0] == "call" and o[1].name == "next" else None))
            if all(p_[0] is not None and p_[1] is not None for p_ in pos) and pos[0][1] == pos[1][1]:
                if (pos[0][0], pos[1][0]) == (0, 1):
                    r3.ok("%s: add_type_mapping(key, value) of each configured pair" % short_path(fid))
                else:
                    r3.bad(V(r3.id, fid, "mapping-pair-swapped", "%s hands add_type_mapping the pair's value as the Rust name and its key as the TypeScript name: "
                             "the resolver's table is keyed by the wrong side" % short_path(fid), c.file, c.line))
    rules.append(r3)

    # ---------------------------------------------------------------- D5
    r5 = Rule("C18-D5-qualification-keeps-primitives", "D5",
              "add_types_prefix returns string/number/boolean unchanged",
              "a mapped type rendered as `string` must not become `types.string` in command signatures")
    ap = S.fn(None, "add_types_prefix")
    prims = set()
    if ap is None:
        r5.bad(V(r5.id, "<anchor>", "missing:add_types_prefix", "anchor not found"))
    else:
        first_if = None
        for st in ap.body:
            if st.get("k") == "expr" and st["e"].get("k") == "if":
                first_if = st["e"]
                break
        from srclib import literal_set_guard
        lsg = literal_set_guard(S, first_if["cond"]) if first_if is not None else None
        if lsg is not None:
            prims = set(lsg[1])
            rets = [expr_text(x["expr"]) for x in walk_block(first_if["then"]) if x.get("k") == "return" and x.get("expr")]
            if {"string", "number", "boolean"} <= prims and rets == ["ts_type.to_string()"]:
                r5.ok("primitives %s are returned unchanged" % sorted(prims))
            else:
                r5.bad(V(r5.id, "add_types_prefix", "primitive-list:%s" % ",".join(sorted(prims)), "the unchanged-primitive list is %s / returns %s" % (sorted(prims), rets)))
        else:
            r5.bad(V(r5.id, "add_types_prefix", "shape", "cannot find the primitive pass-through test at the head of add_types_prefix"))
    r5.require_floor(1, "primitive list")
    rules.append(r5)

    # ---------------------------------------------------------------- D6
    r6 = Rule("C18-D6-mapped-names-not-declared", "D6",
              "both generate_models remove the names found in config.type_mappings from the set of types that will be declared",
              "a project type that is mapped (Uuid -> string) would still be declared in types.ts although nothing references it")
    gens = [t for t in P.trait_impls.get("tauri_typegen::generators::base::BaseBindingsGenerator::generate_models", []) if t in P.fns]
    for gid in gens:
        okd = False
        for (f, c, cid) in narrowing_calls(P, gid):
            # the predicate / key must come from type_mappings (the narrowing may be a retain/remove in place or a filter the map is rebuilt from)
            texts = [f.describe_origin(f.origin(a), deep=3) for a in c.args]
            clos = [cid] if cid else [k for k in P.family(f.id) if "::{closure" in k]
            uses = any("type_mappings" in t for t in texts)
            # (the predicate may ask the table any way it likes — lookup or search —: what counts is that it was handed the configured table)
            if cid and len(c.args) > 1:
                co_ = f.origin(c.args[1])
                caps_ = co_[1].get("ops", []) if co_[0] == "aggr" and isinstance(co_[1], dict) else []
                if any("type_mappings" in f.describe_origin(f.origin(a_), deep=4) for a_ in caps_):
                    uses = True
            for k in clos:
                g = P.fns[k]
                for cc in g.calls:
                    if short_path(cc.path) in ("HashMap::contains_key", "HashMap::get"):
                        uses = True
            if uses:
                okd = True
        # ... and the filter is the last word on the declared set: no insertion can follow it
        f0 = P.fns[gid]
        from rulelib import blocks_reachable_from
        late = []
        for (fn_, c, _cid) in narrowing_calls(P, gid):
            if fn_ is f0:
                after = blocks_reachable_from(f0, c.bb)
                late += [i for i in f0.calls if i.bb in after and short_path(i.path) in ("HashMap::insert", "HashMap::extend") and "StructInfo" in " ".join(i.generics + [i.self_ty or ""])]
        if late:
            okd = False
            r6.bad(V(r6.id, gid, "insert-after-mapping-filter", "types are inserted into the declared set after the mapped names were removed from it: a mapped type reachable from an event payload is declared again",
                     late[0].file, late[0].line))
            continue
        if okd:
            r6.ok("%s filters mapped names out of the declared set" % short_path(gid))
        else:
            r6.bad(V(r6.id, gid, "mapped-names-still-declared", "%s never removes mapped names from the declared types: a mapped project type is still emitted" % short_path(gid),
                     P.fns[gid].file, P.fns[gid].line))
    # ... "and nothing else": the predicate that narrows the declared set asks the mapping table only.  A second membership test in the same
    # predicate (names "behind" a mapped type, names matching a pattern) removes declarations of types the mapping does not name
    seen_pred = set()
    for gid in gens:
        for (f, c, cid) in narrowing_calls(P, gid):
            fid = f.id
            if True:
                if cid is None or cid in seen_pred or short_path(c.path) == "HashMap::remove":
                    continue
                seen_pred.add(cid)
                other = sorted({short_path(cc.path) for cc in P.fns[cid].calls if cc.bb in P.fns[cid].reach_blocks
                                and cc.name in ("contains", "contains_key", "get", "any", "all", "starts_with", "ends_with", "binary_search", "find", "position")
                                and not (cc.name in ("contains_key", "get") and cc.generics[:2] == ["std::string::String", "std::string::String"] and "HashMap" in cc.path)
                                # (the same question asked by a linear search over the mapping's keys)
                                and not (cc.name in ("any", "find", "position") and re.search(r"hash_map::Keys<[^>]*std::string::String, std::string::String>", " ".join(cc.generics + [cc.self_ty or ""])))})
                if other:
                    r6.bad(V(r6.id, fid, "declared-set-narrowed-by:%s" % ",".join(other), "the predicate that removes mapped names from the declared set also asks %s: "
                             "types the mapping does not name lose their declaration" % other, c.file, c.line))
                else:
                    r6.ok("%s: the narrowing predicate asks the mapping table only" % short_path(fid))
    from c07 import check_emitter_reads_used_set
    check_emitter_reads_used_set(P, r6)
    for v_ in r6.violations:
        v_.rule = r6.id
    # "types not named in the mapping are rendered exactly as without it": registering mappings with the analyzer must not make type discovery
    # skip anything but the mapped names themselves (shared with C09-D4 / C07-D3)
    from c09 import check_harvest_reaches_record
    check_harvest_reaches_record(P, r6)
    for v_ in r6.violations:
        v_.rule = r6.id
    r6.require_floor(3, "generators + discovery")
    rules.append(r6)

    return finish(
        PROP, ctx, rules,
        "String-shape paths (SV) of every Custom renderer with their lookup guards, who-may-construct for visitors, access discipline on "
        "type_mappings over MIR, literal tables of the Zod image and of the qualification filter, and the declared-set filter.",
        ["mapping targets outside {string, number, boolean}", "key spelling: a Custom name is the full path text (chrono::DateTime<Utc>) and is compared with the key verbatim"],
        ["HashMap::get is an exact-key lookup"])

"""Per-property manifest text (source of MANIFEST.json, see bin/mkmanifest)."""
HOOK_COMMITS = []
NOTES = ("All checks are static: they read facts extracted from /repo's current working tree on every run "
         "(MIR via a rustc_private driver under the real cargo build, syntax via syn, templates via Tera's own parser) "
         "and never execute the tool, its tests or a model of it.  Clauses that are not decidable from the shape of "
         "the code are listed per property in evidence.coverage.not_decided and DESIGN.md §6.  The thorough tier lifts the path-enumeration caps and, for C13 and C15, "
         "cross-checks the completeness of the UNORD / PANIC site enumerations against rustc's own opt-in lint passes (clippy::iter_over_hash_type, "
         "clippy::string_slice, clippy::indexing_slicing) run on /repo's current tree (rules/crossref.py).")
ENGINE_A = []
ENGINE_B = []
TABLE = {}


def P(pid, engine, technique, level, note, a=True, b=False):
    TABLE[pid] = dict(engine=engine, technique=technique, level=level, note=note)
    if a:
        ENGINE_A.append(pid)
    if b:
        ENGINE_B.append(pid)


P("C17", "mirfacts+rules",
  "static analysis: dominance / must-pass-through (ORDER), error-propagation dataflow (ERRPROP), who-may-call (CALLS) over MIR",
  "Decides, for every body reachable from the three entry points, the structural necessary conditions of the property: "
  "GenerationCache::save is dominated by the success edge of generate_models(..)? and of every other filesystem-mutating step "
  "that can precede it, nothing mutates the filesystem after it, every Result of a mutating step on the generation path is "
  "propagated to main's exit(1), and the record is built from the values handed to the generator.  Exhaustive over the program "
  "text (all paths of the CFG, all call sites), not sampled; crash atomicity is not claimed.",
  "trusts rustc's MIR/callee resolution for the pinned nightly and the FS_MUTATORS table (cross-checked by C16's enumeration)")


P("C16", "mirfacts+rules",
  "static analysis: who-may-call enumeration (CALLS) + interprocedural path-provenance/shape analysis (PATHSHAPE) + literal-table/guard checks (TABLE, CTRL) over MIR",
  "Enumerates every std::fs mutator call site in the resolved call graph of lib+bin; for each reachable one computes the provenance of "
  "the path operand through fields, constructors, all callers and decoded format! templates, and requires OutDir ⊕ reserved literal, "
  "OutDir itself, a read_dir(OutDir) entry guarded by is_file ∧ is_generated_file ∧ ¬current, or the CLI-given config path; checks the "
  "deletion predicate's literal table against the statement's reserved names.  Exhaustive over call sites and callers; symlinks/OS path resolution not claimed.",
  "trusts the std::fs mutator table and rustc's callee resolution; GenerateConfig.output_path is taken as the output directory by definition")

P("C13", "mirfacts+srcfacts+rules",
  "static analysis: type-driven unordered-iteration taint (UNORD), who-may-call for clock/environment reads (CALLS), field-read flow of layout carriers (FLOW), control-region inspection (CTRL) over MIR; template identifier scan",
  "Enumerates by type every consumption of a HashMap/HashSet/read_dir/walkdir iteration reachable from the entry points and classifies it "
  "(erased into a map/set, sorted before use, confluent worklist, reviewed, or leak into an ordered container/string); restricts clock and "
  "environment reads on the analysis+generation path to the header construction; shows no template or text builder reads a line number; "
  "shows verbose-only regions only print and visualisation-only regions only write their two files.  Exhaustive over reachable bodies; "
  "OS-level ordering outside the process is not claimed.",
  "trusts that iterator adaptor types nest their source type; the diagnostics module only prints (re-checked each run)", b=True)

P("C14", "mirfacts+rules",
  "static analysis: UNORD over the digest functions and discovery path, serde-carrier type inspection, cache-hit control-region vs filesystem-mutator closure before and after the check (CALLS/ORDER), force-guard dominance (CTRL), comparability of the saved and the compared record (constructor and argument provenance), demanded-file names vs written names (TABLE)",
  "Decides that the three cache digests are built from order-free inputs with a fixed-key hasher, that every block which runs only when "
  "needs_regeneration answered false (and the callers' continuation after such a return) reaches no filesystem mutator, that the cache is "
  "consulted only under should_force()==false, that force reaches generation without it, and that the CLI flag is applied after the "
  "configuration is loaded and never overwritten.  Exhaustive over both paths' CFGs.",
  "64-bit digest collisions ignored; mtime behaviour of the file system not modelled")

P("C08", "mirfacts+srcfacts+rules",
  "static analysis: field-level information flow (FLOW) — (ADT, field) read sets of everything a cache hit skips ⊆ read set of the digest computation; digest plumbing (value slice of combined_hash, digest functions as pure serialisers, negation parity of conditional inputs), existence-check governance and its file-name table, failure handling (ORDER/CTRL) over MIR",
  "Decides the premise of the cache's soundness argument: every model/config field read by code reachable from generate_models or from "
  "the post-check part of the two cache-consulting functions is an input of the digest (directly, through a derived Serialize, or as the "
  "source string of a derived TypeStructure), modulo named exemptions that are re-established on every run (copy-only into a context "
  "field no template mentions; constant None; non-output settings); that all digests reach the compared combined_hash; that an existence "
  "check of the generated files governs an early 'regenerate' before the comparison; that load failure/version mismatch/Err regenerate; "
  "that both paths consult the cache with the values they generate from.  Exhaustive over reachable bodies and fields.",
  "64-bit digest collisions ignored; influence is assumed to pass only through field reads in the skipped region (no global state exists in the crate)", b=True)

P("C19", "mirfacts+srcfacts+rules",
  "static analysis: document-identity flow and guarded-mutation rules (FLOW/CTRL) on save_to_tauri_config, writer/reader key-table agreement (SIBLING, syntax tree), override-guard and ordering rules (ORDER/CTRL), validate-dominates-write on the CLI paths",
  "Decides that save_to_tauri_config serialises the document it parsed from the same path, replaces it only under !is_object, inserts "
  "\"plugins\" only under !contains_key and \"typegen\" into that object, and never calls a removing JSON method; that the ten keys written "
  "are exactly the keys read, bound to the same fields, in the same section; that each CLI override is applied under exactly its flag, after "
  "load, never overwritten, before validate, and defaults only without a file; that on run_generate/run_init/generate_from_config every "
  "filesystem-mutating step is dominated by validate()? success and validate accepts exactly {zod, none} and checks the project path.",
  "value-level JSON round-trip inside serde_json is trusted; the build-script path's fallback to defaults is outside the command-line clause", b=True)

P("C20", "mirfacts+rules",
  "static analysis: dominance / guard / reachability facts (ORDER, CTRL, CALLS) on the MIR of the DFS and Kahn routines",
  "Decides the structural necessary conditions of the two ordering routines: recursion guarded by visiting/visited with the node entered into "
  "visiting first; push exactly once under the visited test with visited.insert on the same path, as the only mutation of a result returned "
  "unmodified; no recursion reachable from the push (post-order); every requested name visited under the sole guard; Kahn's in-degree/adjacency "
  "bookkeeping, queueing at degree 0 and Ok only under the length test.  The behavioural statement over all graphs is NOT claimed (it needs "
  "proof or enumeration); by the DFS finishing-time lemma these conditions are what the code's correctness argument rests on.",
  "the lemma-level argument is stated, not mechanised")

P("C15", "mirfacts+srcfacts+rules",
  "static analysis: exhaustive enumeration of panic-capable MIR sites (PANIC) with symbolic linear-form index provenance (G3), dominating length/prefix/suffix guards (G1/G2), constructor facts (G4), bounded offset arithmetic (G5), a reviewed exemption table, error-flow isolation of syn::parse_file, and a progress argument for every natural loop (iterator/queue-driven, counting, structural descent, or reviewed)",
  "For every body reachable from the entry points, each assert terminator, unwrap/expect, Index impl, partial String/Vec method, RefCell "
  "borrow and external partial function (serde_rename_rule) is enumerated and must be discharged by a guard rule or one of the named, "
  "side-condition-checked exemptions; string slice bounds are evaluated symbolically as offsets of find/rfind/char_indices results plus the "
  "matched pattern's byte length, so a bound inside a multi-byte character or beyond the match is reported with its derivation.  "
  "Every natural loop of the crate's reachable code is shown to have a progress candidate (a necessary condition of termination, not a proof).  "
  "Exhaustive over reachable sites (≈150) and loops (71); panics inside third-party crates, recursion depth and resource exhaustion are not claimed.",
  "std's documented guarantees for find/rfind/char_indices offsets; string lengths < isize::MAX; type strings < 2^31 bytes", b=True)

P("C03", "mirfacts+srcfacts+rules",
  "static analysis: predicate DNF extraction (TABLE), exact dominating-condition sets and divert-branch enumeration (CTRL), walker option who-may-call (CALLS), exclusion-operand provenance (PATHSHAPE), template control-path facts (TPATH)",
  "Decides the structural necessary conditions: the attribute predicate's DNF equals the documented one over `any` attribute; "
  "extract_command_info runs under exactly {Item::Fn, is_tauri_command} with no other diverting branch and no None exit; a file enters the "
  "AST cache under exactly the documented tests (every branch between a directory entry and the insert is classified), with no walker "
  "limit, the exclusion evaluated on the path below the project root, and parse errors skipped; per-file results are appended with no "
  "skipping branch; every control path of both wrapper templates has exactly one exported function and one invoke('{{ command.name }}').",
  "name collisions between user commands are not decided; syn/walkdir behave as documented", b=True)

P("C05", "srcfacts+mirfacts+rules",
  "static analysis: literal-table comparison (TABLE), recogniser prefix/offset pairing, string-shape extraction of the visitors' format strings (SV) with shape classification and pairwise operator-precedence check (SHAPE), splitter discipline (SIBLING), provenance of every TypeStructure/type text (CALLS over MIR)",
  "Because parsing and rendering are compositional (one recogniser and one format string per constructor), the finite checks cover every "
  "nesting depth by induction: the primitive table equals the documented 19 rows; each recogniser's slice offset equals its prefix length "
  "and is wired to the documented constructor; each constructor renders with the documented shape in both TypeScript-type renderers; for all "
  "(outer hole, inner constructor) pairs the operand's binding class fits (finite 8×8 per renderer); type-argument lists are split only by "
  "the bracket-depth-aware splitter; all five sites go through parse_type_structure and a visitor entry.",
  "the README/statement table is the oracle for serde's JSON shapes; TypeScript's `[]`-over-`|` precedence", a=True, b=True)

P("C10", "srcfacts+rules",
  "static analysis: string-shape extraction (SV) of ZodSchemaBuilder::render_type vs the plain visitor with per-constructor shape agreement over identical recursive holes (SHAPE/SIBLING), literal scan for non-JSON Zod constructors (TABLE), template key/name hole comparison (TPATH)",
  "Constructor-wise agreement of the two compositional renderers (array/set -> z.array, map -> z.record(k, v), tuple -> z.tuple([..]), Optional -> "
  "omittable, primitives, custom -> {name}Schema, enums -> z.enum([literals])) implies agreement at every depth; key and name holes of the Zod "
  "templates equal the plain ones per role; nothing on the parameter path constructs z.set/z.map/z.date/... .  Zod's own runtime semantics are not claimed.",
  "the statement's 'Option rendered as omittable' is taken as the oracle for Optional", a=False, b=True)

P("C18", "srcfacts+mirfacts+rules",
  "static analysis: string-shape paths (SV) of every Custom(name) renderer with their lookup guards, who-may-construct for visitors (CALLS), access discipline on type_mappings (CALLS), literal tables (TABLE), declared-set filter (FLOW)",
  "Each of the three Custom renderers has a type_mappings.get(name)-guarded hit path that emits the mapped value (its Zod image for schemas) and "
  "prints the name only on miss paths; the schema builder delegates to the visitor; every visitor/builder on a generation path is constructed "
  "with the configuration; the table is only accessed by exact-key get; the qualification filter keeps string/number/boolean; both "
  "generators remove mapped names from the declared set.  By compositionality of the visitors this covers every nesting depth and all five sites.",
  "mapping targets outside {string, number, boolean} and path-qualified source spellings are not decided", a=True, b=True)

P("C11", "srcfacts+mirfacts+rules",
  "static analysis: path-wise string-shape extraction (SV) of the constraint builders over every (min, max, message) combination, escaper chain order (TABLE), applicability per constructor (SV), argument pairing (FLOW over MIR), substring-search sites of the attribute parser (CALLS)",
  "Rendering side decided exhaustively: for each of the 2×6 bound/message combinations the appended text is exactly .min/.max with the homonymous "
  "bound hole and an escaped message; .email()/.url() under exactly their flags; inactive paths return the schema unchanged; arrays/strings/numbers "
  "get the right validator, Option forwards it, container elements and parameters are rendered without; build_schema pairs structure and "
  "validators of the same field.  Parsing side decided structurally only: each parsing function that recognises syntax by substring search "
  "on the stringified tokens is reported (4 recorded findings with witnesses); numeric re-parsing exactness is not claimed.",
  "the statement's rendering table is the oracle; Zod's runtime is trusted", a=True, b=True)

P("C06", "srcfacts+mirfacts+rules",
  "static analysis: path order of the naming function (SV), reachability of the variant rule under is_enum with divert-branch enumeration (CALLS/CTRL), substring-search sites of the attribute recognisers (CALLS), None-exit guards (CTRL), key/literal hole bindings (TPATH)",
  "Decides: compute_field_name tries rename, then rename_all, then the default, and the default field case is snake_case; enum variants reach "
  "RenameRule::apply_to_variant under StructInfo.is_enum with no further diverting branch; serde attribute recognition (skip / rename / "
  "rename_all / derive list) does no substring search on stringified tokens; parse_field drops a field only under skip; interface keys, "
  "z.object keys, enum literals and z.enum literals are bound to the serialized name.",
  "serde_rename_rule's tables are trusted to equal serde's", a=True, b=True)

P("C04", "srcfacts+mirfacts+rules",
  "static analysis: literal tables of the injected-type filter per spelling class (TABLE), divert-branch enumeration around ParameterInfo/ChannelInfo construction (CTRL over MIR), naming order (SV), key-hole bindings and per-combination invoke arguments from template control paths (TPATH)",
  "Decides: every documented spelling of the injected types is filtered and only Tauri type names are; a value parameter becomes a key under "
  "exactly {typed, identifier, not injected}; channels are recognised, filtered from the values and all extracted; keys are rename ▷ command "
  "rename_all ▷ camelCase default and every key hole is the serialized name in both modes; optional markers are guarded by exactly isOptional, "
  "which is last-segment == Option; for each of the four parameter/channel combinations both modes hand invoke the same key set.",
  "equality of serde-style camelCase and Tauri's conversion for all identifiers is not decided", a=True, b=True)

P("C07", "srcfacts+mirfacts+rules",
  "static analysis: who-may-call with argument provenance for the five seed sites (CALLS), arm-by-arm coverage of the structure collector (match coverage), dominance of the transitive closure over every insertion into the declared set (ORDER), literal form of the serde filter (TABLE), provenance of the emitted set (FLOW)",
  "Decides: type names are harvested from, and referenced types collected at, all five translation sites with no truncating adaptor; the "
  "collector has an arm per TypeStructure variant (no wildcard) that recurses into every bound child; every insertion into the declared set "
  "is preceded by discover_nested_dependencies; harvesting uses only the depth-aware splitter; the serde filter is derive ∋ (Serialize ∨ "
  "Deserialize) by path and is consulted when indexing and extracting; the renderer receives the used set; Result keeps only T.",
  "scanner-on-text ≡ scanner-on-TypeStructure for exotic spellings is not decided", a=True, b=True)

P("C09", "srcfacts+mirfacts+rules",
  "static analysis: hole order of the Zod types template and provenance of each section (TPATH/FLOW), loop-source provenance of the schema emission (FLOW over MIR), post-order and order-freedom of the DFS (ORDER/UNORD), divert-branch enumeration around add_dependencies (CTRL)",
  "Decides the structural chain the property rests on: definitions section before parameter schemas before aliases, each fed from its own "
  "emitter; struct schemas are appended in exactly the order topological_sort_types returned; that order is a post-order DFS visited in sorted "
  "(hash-order-free) order; every resolved type records its dependency edges, harvested from all its fields, with no diverting branch.  "
  "The equivalence of the text-based edge harvester with the structure-based schema references is not decided.",
  "the statement is conditional on an acyclic type graph", a=True, b=True)

P("C12", "srcfacts+mirfacts+rules",
  "static analysis: arm-by-arm coverage tables of the expression walk (match coverage), literal tables of the receiver heuristic / argument positions / payload typing (TABLE), listener template path facts (TPATH), separator coverage of the identifier mangling (HAZARD), presence of uniqueness steps (FLOW), guard of the events module (CTRL)",
  "Decides: the walk has an arm for each documented placement and recurses into the listed sub-expressions (incl. else branches, every match arm, "
  "receiver and arguments of method calls), statements and all top-level fns; receivers app/window/webview and method-call results; emit/emit_to "
  "argument positions and literal-only names; both listener templates export one function subscribed to '{{ event.eventName }}'; '-', '/', ':' "
  "never reach the identifier; uniqueness steps keyed on event name and on identifier exist; literal payload kinds map to the documented types, "
  "the symbol table keeps generic arguments, unknown otherwise; events.ts is written under exactly `events not empty`.",
  "payload inference outside the documented forms is not decided", a=True, b=True)

P("C02", "srcfacts+mirfacts+rules",
  "static analysis: template control-path enumeration with guard truth tables (TPATH), string-shape evaluation of Rust-side emitters (SV), branch discipline of the qualification filter (SV), provenance of the index list (FLOW/ORDER over MIR), typing of template variable paths against inserted context types (TPLTYPE)",
  "Decides the structural necessary conditions of module closure: per mode and per (has parameters, has channels) combination the command-level names referenced through `types.` "
  "are exported exactly once by the types templates; structs and enums are exported in every spelling the mode's signatures use; add_types_prefix qualifies composites structurally; "
  "index.ts is built from the writer's post-success list; every template variable path resolves to an inserted key and a serialised field.  Exhaustive over template paths and render sites; "
  "collisions that depend on user identifiers are not claimed.",
  "trusts Tera's parser (same version as the build) and serde's camelCase renaming of the context structs", a=True, b=True)

P("C01", "srcfacts+mirfacts+rules",
  "static analysis: template control-path enumeration + TypeScript skeleton lexing (TPATH/LEX), sink typing of every interpolation by hazard-class dataflow from model seeds through naming functions, context fields and filters (HAZARD), bracket balance of type-constructor frames (SHAPE), guard check on the type parser's fall-through (CTRL)",
  "Decides the structural necessary conditions of syntactic validity: on every control path of every rendered template strings/comments terminate and ()[]{}<> nest, loop bodies are "
  "self-balanced; every hole's lexical context (declared name, member, unquoted key, quoted string, comment, expression) is derived from the template text and compared with the characters "
  "the filling Rust code may produce; every visitor frame is balanced; Rust type text reaches the output only through a validating guard.  Exhaustive over template paths, holes and "
  "emitters; acceptance by a full TypeScript grammar is not claimed.",
  "trusts Tera's parser (same version as the build) and the seed table of the input space (Rust identifiers, free-text renames, Tauri event alphabet)", a=True, b=True)

"""common — context (fact loading), violations, known findings, evidence writing."""
import fcntl
import hashlib
import json
import os
import subprocess
import sys
import time

VERIF = os.path.dirname(os.path.dirname(os.path.abspath(__file__)))
REPO = os.environ.get("TTV_REPO", "/repo")
CACHE = os.path.join(VERIF, ".cache")
MIRFACTS = os.path.join(VERIF, "engines/mirfacts/target/release/mirfacts")
SRCFACTS = os.path.join(VERIF, "engines/srcfacts/target/release/srcfacts")
KNOWN = os.path.join(VERIF, "KNOWN_FINDINGS.txt")


class FactsError(Exception):
    pass


def sh(cmd, **kw):
    return subprocess.run(cmd, shell=isinstance(cmd, str), stdout=subprocess.PIPE,
                          stderr=subprocess.STDOUT, text=True, **kw)


def nightly_sysroot():
    r = sh("rustc +nightly --print sysroot")
    return r.stdout.strip().splitlines()[-1]


def tree_hash(repo=REPO):
    h = hashlib.sha256()
    paths = []
    for root, dirs, files in os.walk(os.path.join(repo, "src")):
        dirs.sort()
        for f in sorted(files):
            paths.append(os.path.join(root, f))
    for extra in ("build.rs", "Cargo.toml", "Cargo.lock"):
        p = os.path.join(repo, extra)
        if os.path.exists(p):
            paths.append(p)
    for p in paths:
        h.update(os.path.relpath(p, repo).encode())
        h.update(b"\0")
        with open(p, "rb") as fh:
            h.update(fh.read())
        h.update(b"\0")
    # engine identity: facts depend on the extractor too
    for eng in (MIRFACTS, SRCFACTS):
        if os.path.exists(eng):
            st = os.stat(eng)
            h.update(("%s:%d:%d" % (eng, st.st_size, int(st.st_mtime))).encode())
    return h.hexdigest()[:24]


def build_engines(force=False):
    out = []
    for name in ("mirfacts", "srcfacts"):
        d = os.path.join(VERIF, "engines", name)
        exe = os.path.join(d, "target/release", name)
        if force or not os.path.exists(exe) or _newer(os.path.join(d, "src/main.rs"), exe):
            if name == "srcfacts":
                # harness crates path-independent of /repo, but pinned to its lock file
                lock = os.path.join(d, "Cargo.lock")
                if not os.path.exists(lock):
                    import shutil
                    shutil.copy(os.path.join(REPO, "Cargo.lock"), lock)
            env = dict(os.environ, CARGO_NET_OFFLINE="true")
            r = sh("cargo build --release --offline", cwd=d, env=env)
            out.append((name, r.returncode, r.stdout[-2000:]))
            if r.returncode != 0:
                raise FactsError("engine build failed: %s\n%s" % (name, r.stdout[-4000:]))
    return out


def _newer(a, b):
    try:
        return os.stat(a).st_mtime > os.stat(b).st_mtime
    except OSError:
        return True


def extract_facts(repo=REPO, verbose=False):
    """Ensure facts for the current content of `repo` exist; return the facts directory.
    Facts are keyed by a content hash of the analysed inputs, so any edit re-extracts."""
    os.makedirs(CACHE, exist_ok=True)
    build_engines()
    th = tree_hash(repo)
    out = os.path.join(CACHE, "facts", th)
    okf = os.path.join(out, "ok")
    if os.path.exists(okf):
        return out, {"cached": True, "tree_hash": th}
    with open(os.path.join(CACHE, "lock"), "w") as lockf:
        fcntl.flock(lockf, fcntl.LOCK_EX)
        if os.path.exists(okf):
            return out, {"cached": True, "tree_hash": th}
        os.makedirs(out, exist_ok=True)
        t0 = time.time()
        target = os.path.join(CACHE, "target")
        os.makedirs(target, exist_ok=True)
        # cargo's freshness cache would skip the wrapper: drop the members' fingerprints
        fp = os.path.join(target, "debug", ".fingerprint")
        if os.path.isdir(fp):
            for d in os.listdir(fp):
                if d.startswith("tauri-typegen-"):
                    import shutil
                    shutil.rmtree(os.path.join(fp, d), ignore_errors=True)
        env = dict(os.environ)
        env.update({
            "LD_LIBRARY_PATH": nightly_sysroot() + "/lib:" + env.get("LD_LIBRARY_PATH", ""),
            "MIRFACTS_OUT": out,
            "RUSTFLAGS": "-Zmir-opt-level=0 -Awarnings",
            "RUSTC_WORKSPACE_WRAPPER": MIRFACTS,
            "CARGO_TARGET_DIR": target,
            "CARGO_NET_OFFLINE": "true",
        })
        env.pop("RUSTC_WRAPPER", None)
        r = sh("cargo +nightly check --offline --locked --lib --bins", cwd=repo, env=env)
        if r.returncode != 0:
            raise FactsError("cargo +nightly check failed on %s (does the tree compile?)\n%s" % (repo, r.stdout[-6000:]))
        need = ["mir-tauri_typegen-rlib.json", "mir-cargo_tauri_typegen-executable.json"]
        for n in need:
            p = os.path.join(out, n)
            if not os.path.exists(p) or os.stat(p).st_mtime < t0 - 1:
                raise FactsError("fact file %s was not (re)written by the driver — stale target dir?" % n)
        r2 = sh([SRCFACTS, repo, os.path.join(out, "src.json")])
        if r2.returncode != 0:
            raise FactsError("srcfacts failed: " + r2.stdout[-3000:])
        with open(okf, "w") as fh:
            fh.write(json.dumps({"tree_hash": th, "extract_s": round(time.time() - t0, 2)}))
        # prune old fact sets (keep 6 most recent)
        base = os.path.join(CACHE, "facts")
        ds = sorted((os.stat(os.path.join(base, d)).st_mtime, d) for d in os.listdir(base))
        for _, d in ds[:-6]:
            import shutil
            shutil.rmtree(os.path.join(base, d), ignore_errors=True)
        return out, {"cached": False, "tree_hash": th, "extract_s": round(time.time() - t0, 2)}


class V:
    """A violation.  `key` is position-free: rule | function or template | construct identity."""

    def __init__(self, rule, where_fn, construct, msg, file=None, line=None, detail=None):
        self.rule = rule
        self.where_fn = where_fn
        self.construct = construct
        self.msg = msg
        self.file = file
        self.line = line
        self.detail = detail or {}

    @property
    def key(self):
        return "%s | %s | %s" % (self.rule, self.where_fn, self.construct)

    def to_json(self):
        return {"rule": self.rule, "key": self.key, "function": self.where_fn,
                "construct": self.construct, "message": self.msg,
                "location": ("%s:%s" % (self.file, self.line)) if self.file else None,
                "detail": self.detail}


class Rule:
    """Result of one rule: what was enumerated, what was discharged, what failed."""

    def __init__(self, rid, clause, text, necessary_for):
        self.id = rid
        self.clause = clause
        self.text = text
        self.necessary_for = necessary_for
        self.instances = 0
        self.discharged = 0
        self.violations = []
        self.samples = []
        self.notes = []
        self.floor = None

    def ok(self, sample=None, n=1):
        self.instances += n
        self.discharged += n
        if sample is not None and len(self.samples) < 6:
            self.samples.append(sample)

    def bad(self, v, count=True):
        if count:
            self.instances += 1
        self.violations.append(v)

    def require_floor(self, floor, what):
        """fail closed when fewer instances than were counted by hand on the reference tree"""
        self.floor = floor
        if self.instances < floor:
            self.violations.append(V(self.id, "<anchor>", "floor:%s" % what,
                                     "rule matched %d instances of %s, reference tree has >= %d: anchor lost / rule would pass vacuously"
                                     % (self.instances, what, floor)))

    def to_json(self):
        return {"rule": self.id, "clause": self.clause, "text": self.text,
                "necessary_for": self.necessary_for, "instances": self.instances,
                "discharged": self.discharged, "reported": len(self.violations),
                "floor": self.floor, "samples": self.samples, "notes": self.notes}


def load_known():
    """finding: property=C08 key=<key> :: <what fails> :: witness: <...>"""
    out = {}
    if not os.path.exists(KNOWN):
        return out
    with open(KNOWN) as fh:
        for line in fh:
            line = line.rstrip("\n")
            if not line.startswith("finding:"):
                continue
            try:
                head, rest = line[len("finding:"):].split(" key=", 1)
                prop = head.strip().split("property=")[1].strip()
                parts = rest.split(" :: ")
                key = parts[0].strip()
                what = parts[1].strip() if len(parts) > 1 else ""
                out[(prop, key)] = what
            except Exception:
                continue
    return out


class Ctx:
    def __init__(self, tier="quick", repo=REPO):
        self.tier = tier
        self.repo = repo
        self.t0 = time.time()
        self.facts_dir, self.facts_info = extract_facts(repo)
        self._P = None
        self._S = None

    @property
    def P(self):
        if self._P is None:
            from mirlib import Program
            self._P = Program(self.facts_dir)
        return self._P

    @property
    def S(self):
        if self._S is None:
            from srclib import Source
            self._S = Source(os.path.join(self.facts_dir, "src.json"), self.repo)
        return self._S


def finish(prop, ctx, rules, level_text, not_decided, assumptions, extra=None):
    """Write evidence, print KNOWN-FINDING / VIOLATION lines, return exit status."""
    known = load_known()
    # evidence describes runs against /repo itself; a selftest run on a scratch copy keeps its files inside that copy
    ev_dir = os.path.join(VERIF, "evidence") if os.path.realpath(ctx.repo) == os.path.realpath(REPO) else os.path.join(ctx.repo, ".ttv-evidence")
    vio_dir = os.path.join(ev_dir, "violations", prop)
    os.makedirs(vio_dir, exist_ok=True)
    for f in os.listdir(vio_dir):
        os.unlink(os.path.join(vio_dir, f))
    n_new = 0
    n_known = 0
    seen_keys = set()
    lines = []
    used_known = set()
    for r in rules:
        for v in r.violations:
            if v.key in seen_keys:
                continue
            seen_keys.add(v.key)
            kh = hashlib.sha1(v.key.encode()).hexdigest()[:12]
            path = os.path.join(vio_dir, kh + ".json")
            with open(path, "w") as fh:
                json.dump(v.to_json(), fh, indent=1, ensure_ascii=False)
            if (prop, v.key) in known:
                n_known += 1
                used_known.add((prop, v.key))
                lines.append("KNOWN-FINDING: property=%s %s [%s]" % (prop, known[(prop, v.key)], v.key))
            else:
                n_new += 1
                lines.append("VIOLATION property=%s replay=%s" % (prop, path))
                lines.append("  rule=%s at %s: %s" % (v.rule, ("%s:%s" % (v.file, v.line)) if v.file else v.where_fn, v.msg))
                lines.append("  key: %s" % v.key)
    stale = [k for (p, k) in known if p == prop and (p, k) not in used_known]
    total_inst = sum(r.instances for r in rules)
    total_dis = sum(r.discharged for r in rules)
    samples = []
    for r in rules:
        for s in r.samples[:2]:
            samples.append({"rule": r.id, "instance": s})
    if not samples:
        samples = [{"rule": r.id, "instance": "(no instance)"} for r in rules[:1]]
    P = ctx._P
    cov = {
        "explanation": level_text,
        "obligations": total_inst,
        "discharged": total_dis,
        "evaluations": max(total_inst, 1),
        "distinct_nontrivial": max(total_inst, 0),
        "rule": "each instance is one distinct program construct (call site, branch edge, template hole, "
                "match arm, field, function) enumerated from the facts extracted from /repo's current tree and "
                "checked against one rule; trivial/duplicate constructs are not counted twice (keyed by construct identity)",
        "samples": samples[:12],
        "rules": [r.to_json() for r in rules],
        "facts": {
            "tree_hash": ctx.facts_info.get("tree_hash"),
            "extracted_this_run": not ctx.facts_info.get("cached", False),
            "mir_bodies": len(P.fns) if P else None,
            "mir_call_sites": sum(len(f.calls) for f in P.fns.values()) if P else None,
            "crates": P.crates if P else None,
            "src_files": len(ctx._S.files) if ctx._S else None,
            "templates": len(ctx._S.templates) if ctx._S else None,
        },
        "not_decided": not_decided,
        "known_findings_matched": n_known,
        "known_findings_stale": stale,
        "checker_cmd": "bin/ttv check %s --tier %s" % (prop, ctx.tier),
        "trusted_base": ["rustc nightly type checking + MIR construction", "syn 2 parser", "tera 1.20 parser",
                         "cargo resolution of /repo's manifest and lock file", "tables/*.json transcribed from the property statements"],
        "exhaustive": True,
    }
    if extra:
        cov.update(extra)
    ev = {
        "property_id": prop,
        "tier": ctx.tier,
        "seed": int(os.environ.get("VERIF_SEED", "0") or 0),
        "level": "other",
        "coverage": cov,
        "assumptions": assumptions,
        "wall_s": round(time.time() - ctx.t0, 2),
        "violations": n_new,
    }
    with open(os.path.join(ev_dir, prop + ".json"), "w") as fh:
        json.dump(ev, fh, indent=1, ensure_ascii=False)
    for l in lines:
        print(l)
    for k in stale:
        print("note: known finding no longer reported (fixed or rule changed): %s" % k)
    print("%s: %d rules, %d instances, %d discharged, %d known findings, %d new violations (%.1fs)"
          % (prop, len(rules), total_inst, total_dis, n_known, n_new, time.time() - ctx.t0))
    return 1 if n_new else 0

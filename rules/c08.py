"""C08 — the cache never leaves stale bindings: success means output is current.

Information-flow argument: if every datum that can influence a written file is an input of the
digest compared by needs_regeneration, then equal digest ⇒ equal output (64-bit collisions ignored).
Decided clauses:
  D1  FLOW   influence set (model/config fields read by everything a cache hit skips) ⊆ hashed set
             (fields read inside GenerationCache::new), modulo named, re-checked exemptions; the
             hashed values really reach the compared digest
  D2  ORDER  a cache hit is preceded by an existence check of the generated files
  D3  CTRL   unreadable / other-version / failing cache ⇒ regenerate
  D4  FLOW   both paths consult the cache with the very values they generate from
"""
import re

from common import Rule, V, finish
from mirlib import ENTRY_POINTS, short_path, op_const, op_place, Call
from rulelib import strip_generics, is_fs_mut, is_cache_check, is_cache_new, arg_by_type, ARG_TYPES
from srclib import tera_all_idents

PROP = "C08"
MODEL_PREFIX = ("tauri_typegen::models::",)
CONFIG = "tauri_typegen::interface::config::GenerateConfig"
CTX_MOD = "tauri_typegen::generators::base::template_context::"
NR = "tauri_typegen::build::generation_cache::GenerationCache::needs_regeneration"
CACHE_NEW = "tauri_typegen::build::generation_cache::GenerationCache::new"
GEN_MODELS = "tauri_typegen::generators::base::BaseBindingsGenerator::generate_models"
STDOUT_MODULE = "tauri_typegen::interface::output::"

# fields that cannot influence a generated file, each with the reason (re-checked where mechanical)
CONFIG_EXEMPT = {
    "output_path": "location of the output (the cache record lives in that directory)",
    "project_path": "location of the input; the analysed content itself is hashed",
    "verbose": "diagnostics only (C13-D4 shows verbose-controlled code only prints)",
    "force": "consulted before the cache check only",
    "exclude_patterns": "never read outside Clone/serde (re-checked: no reader)",
    "include_patterns": "never read outside Clone/serde (re-checked: no reader)",
}
# TypeStructure is a derived value: covered by its source string when every construction site derives it from that string
DERIVED = {
    ("tauri_typegen::models::ParameterInfo", "type_structure"): "rust_type",
    ("tauri_typegen::models::CommandInfo", "return_type_structure"): "return_type",
    ("tauri_typegen::models::FieldInfo", "type_structure"): "rust_type",
    ("tauri_typegen::models::ChannelInfo", "message_type_structure"): "message_type",
    ("tauri_typegen::models::EventInfo", "payload_type_structure"): "payload_type",
}
EXIST_CHECKS = {"std::path::Path::exists", "std::path::Path::is_file", "std::path::Path::try_exists",
                "std::fs::metadata", "std::fs::symlink_metadata", "std::fs::exists"}


def norm_origin(t):
    """strip transparent wrappers so that `deref(clone(x).deref)` and `x` compare equal"""
    t = re.sub(r"\b(asref|deref|clone|tostring|into|path)\(", "(", t or "")
    t = t.replace(".deref", "").replace("(", "").replace(")", "")
    return t


def is_model(adt):
    return adt.startswith(MODEL_PREFIX) or adt == CONFIG


def camel(s):
    parts = s.split("_")
    return parts[0] + "".join(p[:1].upper() + p[1:] for p in parts[1:])


def field_reads(f):
    """(adt, field, block, stmt index|'t', lhs local or None) for every read of a model field in f"""
    out = []

    def visit_place(p, b, i, lhs):
        pj = p.get("p", [])
        for n, x in enumerate(pj):
            if x["k"] == "field" and "name" in x and is_model(x.get("adt", "")):
                last = (n == len(pj) - 1)
                out.append((x["adt"], x["name"], b, i, lhs if last else None, last))

    for b, blk in enumerate(f.blocks):
        for i, st in enumerate(blk["stmts"]):
            rv = st.get("rv")
            if not rv:
                continue
            lhs = st["lhs"]["l"] if not st["lhs"].get("p") else None
            for k in ("op", "a", "b"):
                if k in rv and isinstance(rv[k], dict):
                    p = op_place(rv[k])
                    if p:
                        visit_place(p, b, i, lhs)
            if "place" in rv:
                visit_place(rv["place"], b, i, lhs)
            for o in rv.get("ops", []):
                p = op_place(o)
                if p:
                    visit_place(p, b, i, None)
        t = blk["term"]
        if t["k"] == "call":
            for a in t["args"]:
                p = op_place(a)
                if p:
                    visit_place(p, b, "t", None)
        elif t["k"] == "switch":
            p = op_place(t["discr"])
            if p:
                visit_place(p, b, "t", None)
    return out


def copy_only_targets(f, local, depth=0, seen=None):
    """If the value in `local` is only cloned/moved and finally stored into fields of template-context
    structs, return the set of (ctx adt, field); otherwise None."""
    if seen is None:
        seen = set()
    if local in seen or depth > 8:
        return set()
    seen.add(local)
    targets = set()
    used = False
    for b, blk in enumerate(f.blocks):
        for st in blk["stmts"]:
            rv = st.get("rv")
            if not rv:
                continue
            srcs = []
            if rv["k"] in ("use", "cast"):
                p = op_place(rv["op"])
                if p:
                    srcs.append(p)
            elif rv["k"] in ("ref", "copy_for_deref"):
                srcs.append(rv["place"])
            elif rv["k"] == "aggr":
                for n, o in enumerate(rv["ops"]):
                    p = op_place(o)
                    if p and p["l"] == local:
                        used = True
                        if rv.get("agg") == "adt" and rv.get("adt", "").startswith(CTX_MOD):
                            targets.add((rv["adt"], rv["fields"][n]))
                        else:
                            return None
                continue
            elif rv["k"] in ("bin", "un", "discr"):
                for k in ("a", "b"):
                    if k in rv:
                        p = op_place(rv[k])
                        if p and p["l"] == local:
                            return None
                if rv["k"] == "discr" and rv["place"]["l"] == local:
                    return None
                continue
            for p in srcs:
                if p["l"] != local:
                    continue
                used = True
                lp = st["lhs"].get("p", [])
                if lp:
                    last = lp[-1]
                    if last["k"] == "field" and last.get("adt", "").startswith(CTX_MOD):
                        targets.add((last["adt"], last["name"]))
                    else:
                        return None
                else:
                    sub = copy_only_targets(f, st["lhs"]["l"], depth + 1, seen)
                    if sub is None:
                        return None
                    targets |= sub
        t = blk["term"]
        if t["k"] == "call":
            for a in t["args"]:
                p = op_place(a)
                if p and p["l"] == local:
                    used = True
                    c = Call(f, b, t)
                    if strip_generics(c.path) in ("std::clone::Clone::clone", "std::string::ToString::to_string", "std::borrow::ToOwned::to_owned"):
                        dl = t["dest"]
                        lp = dl.get("p", [])
                        if lp:
                            last = lp[-1]
                            if last["k"] == "field" and last.get("adt", "").startswith(CTX_MOD):
                                targets.add((last["adt"], last["name"]))
                            else:
                                return None
                        else:
                            sub = copy_only_targets(f, dl["l"], depth + 1, seen)
                            if sub is None:
                                return None
                            targets |= sub
                    else:
                        return None
        elif t["k"] == "switch":
            p = op_place(t["discr"])
            if p and p["l"] == local:
                return None
    return targets


def closure_negates_exists(P, g, call):
    """the closure argument of an any()/all() call returns exists(..) (False), !exists(..) (True), or something else (None)"""
    tg = []
    for a in call.args:
        o = g.origin(a)
        if o[0] == "aggr" and o[1].get("agg") == "closure":
            tg.append(o[1]["closure"])
        k = op_const(a)
        if k and "closure" in k:
            tg.append(k["closure"])
    res = set()
    for t in tg:
        f = P.fns.get(t)
        if f is None:
            continue
        for d in f.defs.get(0, []):
            if d[0] != "stmt" or d[1] not in f.reach_blocks:
                if d[0] == "call" and strip_generics(d[2].path) in EXIST_CHECKS:
                    res.add(False)
                continue
            rv = d[3]
            if rv["k"] == "un" and rv["op"] == "Not":
                o = f.origin(rv["a"])
                res.add(True if (o[0] == "call" and strip_generics(o[1].path) in EXIST_CHECKS) else None)
            elif rv["k"] == "use":
                o = f.origin(rv["op"])
                res.add(False if (o[0] == "call" and strip_generics(o[1].path) in EXIST_CHECKS) else None)
            else:
                res.add(None)
    if len(res) == 1:
        return next(iter(res))
    return None



def write_skip_analysis(P, f):
    """FileWriter::write_typescript_file: can it return Ok without having written?  -> (status, detail) with status one of
    'shape' (anchors lost), 'always' (every Ok return is preceded by the write), 'justified' (the write is skipped only when the file on disk
    equals the new content as a whole), 'unjustified' (skipped under some other condition)"""
    wr = {c.bb for c in f.calls if strip_generics(c.path) in ("std::fs::write", "std::fs::File::create", "std::io::Write::write_all") and c.bb in f.reach_blocks}
    oks_ = []
    for b in sorted(f.reach_blocks):
        for st in f.blocks[b]["stmts"]:
            rv = st.get("rv")
            if rv and st["lhs"]["l"] == 0 and not st["lhs"].get("p") and rv["k"] == "aggr" and rv.get("variant") == "Ok":
                oks_.append(b)
    if not wr or not oks_:
        return "shape", "%d write calls, %d Ok returns" % (len(wr), len(oks_))

    def avoiding(start):
        seen_ = {start}
        work_ = [start]
        while work_:
            b_ = work_.pop()
            if b_ in wr:
                continue
            for (_, t_) in f.succ_edges(b_):
                if t_ not in seen_:
                    seen_.add(t_)
                    work_.append(t_)
        return seen_
    if not any(b in avoiding(0) for b in oks_):
        return "always", "every Ok return is preceded by the write"

    def strip_(o):
        while o[0] == "proj" or (o[0] == "call" and o[1].name in ("as_str", "as_deref", "as_ref", "deref", "borrow", "as_bytes", "ok", "as_slice") and o[1].args):
            o = o[1] if o[0] == "proj" else o[1].fn.origin(o[1].args[0])
        return o

    def whole_content_equality(g, o):
        o = strip_(o)
        if o[0] == "call" and o[1].name in ("eq", "ne") and len(o[1].args) == 2:
            sides = [strip_(g.origin(a_)) for a_ in o[1].args]
            sides = [strip_(g.origin(x[1]["ops"][0])) if x[0] == "aggr" and x[1].get("variant") in ("Some", "Ok") and x[1].get("ops") else x for x in sides]
            kinds = set()
            for x in sides:
                if x[0] in ("arg", "upvar"):
                    kinds.add("param")
                elif x[0] == "call" and strip_generics(x[1].path) in ("std::fs::read_to_string", "std::fs::read"):
                    kinds.add("disk")
            if kinds == {"param", "disk"} or (g is not f and "param" in kinds and len(sides) == 2 and all(x[0] in ("arg", "upvar") for x in sides)):
                return "eq" if o[1].name == "eq" else "ne"
        return None

    # a skipped write is sound only when what is on disk equals the new content as a whole (the property compares contents): accept a branch on
    # `read_to_string(path) == content`, directly or inside an is_ok_and/is_some_and closure; any other skip condition (line-wise, prefix,
    # length, mtime, "differs only in ...") is not shown to imply equal content
    justified = True
    why = []
    for wb in sorted(wr):
        for (bb, keep, lose) in f.filter_branches(0, wb):
            for lab in lose:
                tgt_ = dict(f.succ_edges(bb))[lab]
                if not any(b in avoiding(tgt_) for b in oks_):
                    continue
                o, outcome = f.cond_struct(bb, lab)
                neg = False
                while o[0] == "un" and o[1] == "Not":
                    o = o[2]
                    neg = not neg
                want = (outcome == "true") != neg      # the skip is taken when the (un-negated) condition has this truth value
                kind = whole_content_equality(f, o)
                if kind is None and o[0] == "call" and o[1].name in ("is_ok_and", "is_some_and") and len(o[1].args) == 2:
                    src_ = strip_(f.origin(o[1].args[0]))
                    co = f.origin(o[1].args[1])
                    cid = co[1].get("closure") if co[0] in ("aggr", "const") and isinstance(co[1], dict) else None
                    for g in ([P.fns[cid]] if cid in P.fns else []):
                        k2 = whole_content_equality(g, g.origin({"copy": {"l": 0, "p": []}}))
                        if k2 and src_[0] == "call" and strip_generics(src_[1].path) in ("std::fs::read_to_string", "std::fs::read"):
                            kind = k2
                if (kind == "eq" and want) or (kind == "ne" and not want):
                    why.append("bb%d:%s" % (bb, kind))
                else:
                    justified = False
                    why.append("%s=%s" % (f.describe_origin(o)[:60], outcome))
    if justified and why:
        return "justified", ",".join(why)
    return "unjustified", "; ".join(why)[:200]

def check(ctx):
    P = ctx.P
    S = ctx.S
    reach = P.reachable(ENTRY_POINTS)
    rules = []

    # names templates can see
    tpl_idents = set()
    for rel, t in S.templates.items():
        for i in tera_all_idents(t["ast"]):
            for part in i.split("."):
                tpl_idents.add(part)

    # ---------------------------------------------------------------- regions
    gen_impls = [t for t in P.trait_impls.get(GEN_MODELS, []) if t in P.fns]
    region_roots = list(gen_impls)
    # everything the functions that consult the cache do *after* the check
    nr_fns = [P.fns[fid] for fid in sorted(reach) if any(is_cache_check(c) for c in P.fns[fid].calls)
              and not fid.startswith("tauri_typegen::build::generation_cache::")]
    post_reads = []
    for f in nr_fns:
        nr = [c for c in f.calls if is_cache_check(c)][0]
        from rulelib import blocks_reachable_from
        after = blocks_reachable_from(f, nr.bb)
        for b in sorted(after):
            c = f.call_at(b)
            if c is not None:
                for t in P.targets(c):
                    if not t.startswith(STDOUT_MODULE):
                        region_roots.append(t)
        for (adt, name, b, i, lhs, last) in field_reads(f):
            if b in after:
                post_reads.append((f, adt, name, b, i, lhs, last))
    region = {x for x in P.reachable(region_roots) if not x.startswith(STDOUT_MODULE)}
    # derived trait impls on the model types read every field generically; their *users* are what matters
    def generic_impl(fid):
        return fid.startswith("<tauri_typegen::models::") or fid.startswith("<tauri_typegen::interface::config::GenerateConfig as")
    cache_news = [k for k in P.fns if k.startswith(CACHE_NEW) and "{" not in k]
    hashed_scope = {x for x in P.reachable(cache_news) if not generic_impl(x)}
    region -= hashed_scope  # the digest computation itself is not generation

    hashed = {}
    for fid in sorted(hashed_scope):
        for (adt, name, b, i, lhs, last) in field_reads(P.fns[fid]):
            hashed.setdefault((adt, name), fid)

    # model types embedded (by value/reference) in a *HashData struct are hashed through their derived Serialize:
    # every field without a serde skip counts
    def add_serialised(adt_path, depth=0):
        a = P.adts.get(adt_path)
        if not a or depth > 4:
            return
        sname = adt_path.split("::")[-1]
        sdef = S.structs.get(sname)
        derives = " ".join(x["tokens"] for x in (sdef or {}).get("attrs", []) if x["path"] == ["derive"])
        if "Serialize" not in derives:
            return
        for v in a["variants"]:
            for fld in v["fields"]:
                skipped = False
                for sf in (sdef or {}).get("fields", []):
                    if sf["name"] == fld["name"]:
                        skipped = any(x["path"] == ["serde"] and re.search(r"\bskip", x["tokens"]) for x in sf["attrs"])
                if not skipped:
                    hashed.setdefault((adt_path, fld["name"]), "serde(" + sname + ")")
                for other in P.adts:
                    if other.startswith(MODEL_PREFIX) and other in fld["ty"] and other != adt_path:
                        add_serialised(other, depth + 1)
    for path, a in P.adts.items():
        if path.split("::")[-1].endswith("HashData"):
            for v in a["variants"]:
                for fld in v["fields"]:
                    for other in P.adts:
                        if other.startswith(MODEL_PREFIX) and other in fld["ty"]:
                            add_serialised(other)

    # ---------------------------------------------------------------- D1
    r1 = Rule("C08-D1-influence-subset-of-hash", "D1",
              "every model/config field read by code that a cache hit skips (generate_models and everything after the cache check) is read by "
              "the digest computation, unless it is only copied into a template-context field no template mentions, is a TypeStructure derived "
              "from a hashed string at every construction site, or is a named non-output setting",
              "an output-affecting field that is not hashed lets an edit of that field answer 'up to date' over stale bindings")
    influence = {}
    reads_all = []
    for fid in sorted(region):
        if generic_impl(fid) or "{promoted#" in fid:
            continue
        f = P.fns[fid]
        for rd in field_reads(f):
            reads_all.append((f,) + rd)
    reads_all += post_reads
    for (f, adt, name, b, i, lhs, last) in reads_all:
        if adt.endswith("::TypeStructure"):
            continue
        key = (adt, name)
        # copy-only?
        if last and lhs is not None:
            tg = copy_only_targets(f, lhs)
            if tg is not None and tg:
                unmentioned = all(camel(fld) not in tpl_idents and fld not in tpl_idents for (_, fld) in tg)
                if unmentioned:
                    influence.setdefault(key, []).append(("copy-only", f.id, sorted("%s.%s" % (short_path(a), n) for a, n in tg)))
                    continue
        influence.setdefault(key, []).append(("read", f.id, None))
    for key in sorted(influence):
        adt, name = key
        uses = influence[key]
        real = [u for u in uses if u[0] == "read"]
        where = sorted(set(short_path(u[1]) for u in real))[:4]
        if not real:
            r1.ok("%s.%s — only copied into %s, which no template mentions" % (short_path(adt), name, uses[0][2]))
            continue
        if key in hashed:
            r1.ok("%s.%s — read by generation (%s) and hashed in %s" % (short_path(adt), name, ", ".join(where), short_path(hashed[key])))
            continue
        if key in DERIVED:
            src = DERIVED[key]
            okd, why = derived_ok(P, adt, name, src)
            if okd and (adt, src) in hashed:
                r1.ok("%s.%s — derived from hashed %s at every construction site (%s)" % (short_path(adt), name, src, why))
                continue
            if okd:
                r1.bad(V(r1.id, short_path(adt), "unhashed-source:%s.%s" % (short_path(adt), src),
                         "%s.%s is derived from %s, which the digest does not read; generation reads it in %s" % (adt, name, src, ", ".join(where))))
                continue
            r1.bad(V(r1.id, short_path(adt), "underived:%s.%s" % (short_path(adt), name),
                     "%s.%s is not derived from its string at every construction site (%s) and is not hashed" % (adt, name, why)))
            continue
        cst = constant_field(P, adt, name)
        if cst:
            r1.ok("%s.%s — constant at every construction site (%s)" % (short_path(adt), name, cst))
            continue
        if adt == CONFIG and name in CONFIG_EXEMPT:
            r1.ok("GenerateConfig.%s — exempt: %s" % (name, CONFIG_EXEMPT[name]))
            continue
        if name in ("fields", "parameters", "channels"):
            # container fields are read to iterate; hashed through their elements if read in the digest — they are
            if key in hashed:
                continue
        r1.bad(V(r1.id, short_path(adt), "unhashed:%s.%s" % (short_path(adt), name),
                 "%s.%s influences the generated output (read in %s) but is not an input of the cache digest: editing it answers 'up to date'"
                 % (adt, name, ", ".join(where))))
    r1.require_floor(20, "model/config fields read by generation")
    rules.append(r1)

    # the digest is as order-sensitive as the emission: a digest input that is sorted before hashing must feed a generator step that sorts too
    # (commands and events are emitted in discovery order, structs in sorted/topological order)
    def sorts(fid_prefix):
        return any((c.name or "").startswith("sort") or (c.name in ("collect", "from_iter", "insert", "extend", "from") and "BTree" in " ".join(c.generics + [c.path, c.self_ty or ""]))
                   for k, f in ((k_, P.fns[k_]) for k_ in (P.family(fid_prefix) if fid_prefix in P.fns else [])) if "{promoted" not in k for c in f.calls if c.bb in f.reach_blocks)
    PAIRS = [("hash_commands", "create_command_contexts"), ("hash_events", "create_event_contexts"), ("hash_structs", "create_struct_contexts")]
    for hname, cname in PAIRS:
        hf = [k for k in P.fns if k.endswith("GenerationCache::" + hname)]
        cf = [k for k in P.fns if k.endswith("TypeCollector::" + cname)]
        if not hf or not cf:
            r1.bad(V(r1.id, "<anchor>", "missing:%s/%s" % (hname, cname), "digest or context builder not found"))
            continue
        hs, cs = sorts(hf[0]), sorts(cf[0])
        if hs and not cs:
            r1.bad(V(r1.id, hf[0], "digest-ignores-order:%s" % hname,
                     "%s sorts its input before hashing, but %s emits in input order: reordering the items changes the output without changing the digest" % (hname, cname)))
        else:
            r1.ok("%s/%s: order sensitivity agrees (digest sorted=%s, emission sorted=%s)" % (hname, cname, hs, cs))
    # a digest input that is hashed under a condition (`flag.then_some(cmd.line_number)`) is hashed exactly when the output that shows it is
    # produced: followed back through captures and parameters to the configuration getter that also enables the reader, the condition carries
    # an even number of negations
    def parity(g, o, depth=8):
        """-> (root text or None, number of negations on the way)"""
        neg = 0
        while depth > 0:
            depth -= 1
            if o[0] == "un" and o[1] == "Not":
                neg += 1
                o = o[2]
                continue
            if o[0] == "proj":
                base = o
                projs = []
                while base[0] == "proj":
                    projs = list(base[2]) + projs
                    base = base[1]
                cap = [pj for pj in projs if isinstance(pj, str) and pj.startswith("(closure).")]
                if base[0] == "arg" and base[1] == 1 and cap and "::{closure" in g.id:
                    idx = int(cap[0].split(".")[1])
                    par = P.fns.get(g.parent) if getattr(g, "parent", None) else None
                    nxt = None
                    for h in ([par] if par is not None else []):
                        for b in sorted(h.reach_blocks):
                            for st in h.blocks[b]["stmts"]:
                                rv = st.get("rv") or {}
                                if rv.get("k") == "aggr" and rv.get("closure") == g.id and idx < len(rv.get("ops", [])):
                                    nxt = (h, h.origin(rv["ops"][idx]))
                    if nxt is None:
                        return None, neg
                    g, o = nxt
                    continue
                if all(pj == "deref" for pj in projs):
                    o = base
                    continue
                return None, neg
            if o[0] == "ref" and len(o) > 1 and isinstance(o[1], tuple):
                o = o[1]
                continue
            if o[0] == "arg" and "::{closure" not in g.id:
                sites = [(h, c) for h in P.fns.values() for c in h.calls if c.bb in h.reach_blocks and c.best == g.id]
                if len(sites) != 1 or o[1] - 1 >= len(sites[0][1].args):
                    return None, neg
                g, c = sites[0]
                o = g.origin(c.args[o[1] - 1])
                continue
            if o[0] == "call":
                return short_path(o[1].best), neg
            return None, neg
        return None, neg
    n_cond = 0
    for hk in sorted(k for k in P.fns if re.search(r"GenerationCache::hash_\w+$", k)):
        for g_, c in P.find_call_sites(hk, lambda c_: c_.name in ("then_some", "then") and "bool" in (c_.path + (c_.self_ty or ""))):
            n_cond += 1
            root, neg = parity(g_, g_.origin(c.args[0]))
            if root is not None and neg % 2 == 1:
                r1.bad(V(r1.id, hk, "conditional-digest-input-negated:%s" % root, "%s hashes a value only when `%s` is false: the value reaches the digest exactly in the runs "
                         "whose output does not show it, and is left out in the runs whose output does" % (short_path(hk), root), c.file, c.line))
            else:
                r1.ok("%s: conditional digest input follows %s (%d negations)" % (short_path(hk), root or "an untraced flag", neg))
    # hashed values really reach the compared digest
    r1b = Rule("C08-D1-digest-plumbing", "D1",
               "no *HashData field is skipped by serde; combine_hashes receives the three digests; needs_regeneration compares combined_hash "
               "of the loaded and the freshly computed record",
               "a field dropped from the serialised digest input, or a comparison of a partial digest, un-hashes inputs silently")
    hd = {n: s for n, s in S.structs.items() if n.endswith("HashData")}
    for n, st in sorted(hd.items()):
        for fld in st["fields"]:
            skip = [a for a in fld["attrs"] if a["path"] == ["serde"] and re.search(r"\bskip", a["tokens"])]
            if skip:
                r1b.bad(V(r1b.id, n, "serde-skip:%s.%s" % (n, fld["name"]), "digest input field %s.%s carries %s" % (n, fld["name"], skip[0]["tokens"])))
            else:
                r1b.ok("%s.%s serialised" % (n, fld["name"]))
    # the stored combined_hash is computed from every hash_* digest: backward data slice of the field across crate functions (a combiner that ignores one
    # of its inputs does not carry it), however the combination is written (combine_hashes(a, b, c, d), an array of them, format! in place)
    need = sorted(set(k.split("::")[-1] for k in P.fns if re.match(r"^tauri_typegen::build::generation_cache::GenerationCache::hash_\w+$", k)))
    aggs = []
    for k in cache_news:
        g_ = P.fns[k]
        for b_ in sorted(g_.reach_blocks):
            for st in g_.blocks[b_]["stmts"]:
                rv = st.get("rv") or {}
                if rv.get("k") == "aggr" and rv.get("adt", "").endswith("GenerationCache") and "combined_hash" in rv.get("fields", []):
                    aggs.append((g_, rv))
    if not aggs:
        r1b.bad(V(r1b.id, CACHE_NEW, "no-combine", "no GenerationCache::new* builds a record with a combined digest"))
    for (g_, rv) in aggs:
        got, fed = P.value_slice(g_, rv["ops"][rv["fields"].index("combined_hash")], depth=12)
        # every input of the constructor (commands, structs, configuration, events) reaches the digest ...
        lost = [g_.varnames.get(i, "arg%d" % i) for i in range(1, g_.arg_count + 1) if i not in fed]
        # ... through its own digest function where the tree has one
        miss = [n for n in need if ("GenerationCache::" + n) not in got and any(short_path(c.best) == "GenerationCache::" + n for k2 in P.family(g_.id) for c in P.fns[k2].calls)]
        if g_.arg_count >= 3 and not lost and not miss:
            r1b.ok("GenerationCache.combined_hash is computed from every input of %s (%s)" % (short_path(g_.id), ", ".join(n for n in need if "GenerationCache::" + n in got)))
        else:
            r1b.bad(V(r1b.id, CACHE_NEW, "combine-args:%s" % "|".join(lost + miss), "the stored combined digest is not computed from %s (it is fed by %s)" % (lost + miss, sorted(got))))
    # ... each digest function is handed the constructor's own input (not a subset computed from it), and puts every element of it into the
    # serialised view: nothing in a digest function drops, de-duplicates or overwrites elements (the generators look at all of them — e.g. at the
    # *first* emit of an event name)
    DROPPERS = {"insert", "entry", "dedup", "dedup_by", "dedup_by_key", "retain", "filter", "filter_map", "take", "skip", "take_while", "skip_while", "step_by", "truncate",
                "pop", "remove", "swap_remove", "find", "first", "last", "nth", "unique"}
    for (g_, rv) in aggs[:1]:
        for c in g_.calls:
            sp_ = short_path(c.best)
            if c.bb in g_.reach_blocks and re.fullmatch(r"GenerationCache::hash_\w+", sp_) and sp_.split("::")[-1] in need and c.args:
                o_ = g_.origin(c.args[0])
                while o_[0] == "proj" or (o_[0] == "call" and o_[1].args and o_[1].name in ("deref", "as_ref", "as_slice", "borrow", "as_deref")):
                    o_ = o_[1] if o_[0] == "proj" else g_.origin(o_[1].args[0])
                if o_[0] == "arg":
                    r1b.ok("%s receives the constructor's parameter %s" % (sp_, o_[2]))
                else:
                    r1b.bad(V(r1b.id, CACHE_NEW, "digest-input-derived:%s" % sp_.split("::")[-1],
                              "%s is not handed the constructor's own input but %s: whatever that computation leaves out can change without changing the digest"
                              % (sp_, g_.describe_origin(o_, deep=2)[:100]), c.file, c.line))
    for n_ in need:
        for hf_ in [k for k in P.fns if k.endswith("GenerationCache::" + n_)]:
            drops = sorted({c.name for k2 in P.family(hf_) if "{promoted" not in k2 for c in P.fns[k2].calls if c.bb in P.fns[k2].reach_blocks and c.name in DROPPERS
                            and not c.path.startswith("serde")})
            # ... nor cuts a text on its way into the serialised view (`Result<T, E>` reduced to `T`, a path reduced to its last segment): the
            # generators read the whole text, and a cut that is right for the usual spelling is wrong for the next one (a one-argument alias)
            CUTTERS = {"strip_prefix", "strip_suffix", "split_once", "rsplit_once", "split", "rsplit", "splitn", "rsplitn", "trim_start_matches", "trim_end_matches",
                       "trim_matches", "split_at", "split_terminator", "split_whitespace", "get", "get_unchecked", "chars", "char_indices", "bytes", "truncate", "replace",
                       "replacen", "to_lowercase", "to_uppercase", "to_ascii_lowercase", "to_ascii_uppercase"}
            cuts = sorted({c.name for k2 in P.family(hf_) if "{promoted" not in k2 for c in P.fns[k2].calls if c.bb in P.fns[k2].reach_blocks and c.name in CUTTERS
                           and re.match(r"(core|std|alloc)::str::|str::|<str|std::string::String::|String::", strip_generics(c.path).replace("<impl ", ""))})
            if cuts:
                r1b.bad(V(r1b.id, hf_, "digest-cuts-text:%s" % ",".join(cuts), "%s takes text apart (%s) before hashing it: two inputs that differ only in the part that is "
                          "cut away get the same digest although generation reads the whole text" % (n_, ", ".join(cuts))))
            if drops:
                r1b.bad(V(r1b.id, hf_, "digest-drops-elements:%s" % ",".join(drops),
                          "%s passes its input through %s: elements that are dropped, merged or overwritten there do not reach the digest although generation reads them" % (n_, ", ".join(drops))))
            else:
                r1b.ok("%s serialises every element of its input" % n_)
    nrf = None
    for k in sorted(P.reachable([NR])):
        g = P.fns[k]
        if k.startswith("tauri_typegen::build::generation_cache::GenerationCache::") and any(short_path(c.best) == "GenerationCache::load" for c in g.calls):
            nrf = g
    nr_entry_fns = [k for k in P.fns if k.startswith(NR) and "{" not in k]
    if nrf is None:
        r1b.bad(V(r1b.id, "<anchor>", "missing:needs_regeneration", "anchor not found"))
    else:
        cmp_calls = [c for c in nrf.calls if c.name in ("ne", "eq") and c.trait == "std::cmp::PartialEq"]
        okcmp = False
        for c in cmp_calls:
            a = nrf.describe_origin(nrf.origin(c.args[0]), deep=3)
            b = nrf.describe_origin(nrf.origin(c.args[1]), deep=3)
            if "combined_hash" in a and "combined_hash" in b and (("load" in a) != ("load" in b)) and ("GenerationCache::new" in a or "GenerationCache::new" in b):
                okcmp = True
        if okcmp:
            r1b.ok("needs_regeneration compares loaded.combined_hash with new(..).combined_hash")
        else:
            r1b.bad(V(r1b.id, NR, "comparison", "needs_regeneration does not compare the combined digest of the loaded record with that of a freshly computed one: %s"
                      % [(nrf.describe_origin(nrf.origin(c.args[0]), deep=2), nrf.describe_origin(nrf.origin(c.args[1]), deep=2)) for c in cmp_calls]))
    r1b.require_floor(15, "digest plumbing facts")
    rules.append(r1b)

    # ---------------------------------------------------------------- D2
    r2 = Rule("C08-D2-lost-output", "D2",
              "before a run answers 'up to date', the existence of the generated files is checked (in needs_regeneration or on the hit path)",
              "deleting types.ts and re-running must regenerate; without an existence check the cache vouches for a missing file")
    def has_exist_check(fid, memo={}):
        return P.reaches(fid, lambda c: strip_generics(c.path) in EXIST_CHECKS, memo)

    def governing_checks(g):
        """calls in g that perform (directly or inside a closure / callee) an existence check"""
        out = []
        for c in g.calls:
            if strip_generics(c.path) in EXIST_CHECKS:
                out.append(c)
                continue
            tg = list(P.targets(c))
            for kind, ref in []:
                pass
            # closures passed as arguments
            for a in c.args:
                o = g.origin(a)
                if o[0] == "aggr" and o[1].get("agg") == "closure":
                    tg.append(o[1]["closure"])
                k = op_const(a)
                if k and "closure" in k:
                    tg.append(k["closure"])
            if any(t in P.fns and has_exist_check(t) for t in tg) and not c.path.startswith("tauri_typegen::build::generation_cache::GenerationCache::load"):
                out.append(c)
        return out

    if nrf is None:
        r2.bad(V(r2.id, "<anchor>", "no-compare-fn", "cannot locate the function that loads and compares the cache record"))
    else:
        checks = [c for c in governing_checks(nrf) if short_path(c.best) != "GenerationCache::load"]
        good = False
        why = "no existence check of the generated files precedes the digest comparison (needs_regeneration only compares digests)"
        for ck in checks:
            conds = nrf.edge_dominators(ck.bb)
            ok_conds = True
            for (a, lab) in conds:
                o, outcome = nrf.cond_struct(a, lab)
                txt = nrf.describe_origin(o, deep=1)
                if o[0] == "call" and short_path(o[1].best) == "GenerationCache::load" and outcome == "Ok":
                    continue
                if "version" in txt:
                    continue
                if o[0] == "call" and o[1].name == "next" and outcome == "Some":
                    continue        # the check written as a loop over the expected files (one missing file returns early)
                if o[0] == "arg":
                    # the entry points used by the callers must pass this constant
                    pname = o[2]
                    want = outcome
                    sat = True
                    for f in nr_fns:
                        for c0 in f.calls:
                            if not is_cache_check(c0):
                                continue
                            for t in P.targets(c0):
                                e = P.fns[t]
                                for c1 in e.calls:
                                    if nrf.id in P.targets(c1):
                                        idx = [i for i in range(1, nrf.arg_count + 1) if nrf.lname(i) == pname]
                                        k = op_const(c1.args[idx[0] - 1]) if idx and idx[0] - 1 < len(c1.args) else None
                                        given = str(k.get("bool")).lower() if k is not None and "bool" in k else None
                                        if given is None and idx and idx[0] - 1 < len(c1.args):
                                            # a field-less enum instead of a bool (`OutputCheck::Required`): the variant the wrapper passes
                                            ov = e.origin(c1.args[idx[0] - 1])
                                            if ov[0] == "aggr" and ov[1].get("variant") and not ov[1].get("ops"):
                                                given = ov[1]["variant"]
                                        if given is None or given != want:
                                            sat = False
                                if t == nrf.id:
                                    sat = False  # called directly: the parameter is not a constant of an entry wrapper
                    if sat:
                        continue
                ok_conds = False
                why = "the existence check only runs under `%s=%s`, which the callers do not establish" % (txt, outcome)
            if not ok_conds:
                continue
            # its 'missing' outcome returns Ok(true)
            leads = False
            lead_outcomes = set()
            for (a, lab, (o, outcome)) in nrf.branch_edges():
                if o[0] == "call" and o[1].bb == ck.bb:
                    for b in nrf.edge_region(a, lab):
                        for st in nrf.blocks[b]["stmts"]:
                            rv = st.get("rv")
                            if rv and st["lhs"]["l"] == 0 and rv["k"] == "aggr" and rv.get("variant") == "Ok" and (op_const(rv["ops"][0]) or {}).get("bool") is True:
                                leads = True
                                lead_outcomes.add(outcome)
            # quantifier and polarity: *one* missing file must be enough.  any(|f| !exists(f)) = true, or all(|f| exists(f)) = false
            if leads and ck.name in ("any", "all") and strip_generics(ck.path) not in EXIST_CHECKS:
                neg = closure_negates_exists(P, nrf, ck)
                want = {("any", True): "true", ("all", False): "false"}.get((ck.name, neg))
                if neg is None:
                    leads = False
                    why = "the closure given to %s() does not return the (possibly negated) result of an existence check" % ck.name
                elif want is None or lead_outcomes != {want}:
                    leads = False
                    why = ("the early Ok(true) is taken when %s(|f| %sexists(f)) is %s: regeneration then needs %s, not one missing file"
                           % (ck.name, "!" if neg else "", "/".join(sorted(lead_outcomes)), "every file to be missing" if ck.name == "any" else "a different condition"))
            if leads:
                good = True
                r2.ok("%s: %s governs an early Ok(true) before the digest comparison" % (short_path(nrf.id), short_path(ck.best)))
            else:
                why = "the result of the existence check does not lead to Ok(true)"
        if not good:
            for f in nr_fns:
                r2.bad(V(r2.id, f.id, "no-existence-check", "the cache-hit decision of %s: %s" % (short_path(f.id), why), f.file, f.line))
    # ... and a generation that runs really rewrites: FileWriter::write_typescript_file returns Ok only after fs::write ran, or skips the write
    # only when the file on disk already equals the new content (the digest is the only other authority on whether output is current)
    for f in P.find("FileWriter::write_typescript_file"):
        st_, why_ = write_skip_analysis(P, f)
        if st_ == "shape":
            r2.bad(V(r2.id, f.id, "writer-shape", "write_typescript_file: " + why_))
        elif st_ == "unjustified":
            r2.bad(V(r2.id, f.id, "ok-without-write", "write_typescript_file can return Ok without having written the file, under a condition that is not a whole-content "
                     "equality with what is on disk (%s): a skipped write leaves stale content while the run reports success and records the digest" % why_))
        else:
            r2.ok("write_typescript_file: %s (%s)" % (st_, why_))
    # ... and the existence check covers every file a generation writes: each output name a reachable writer uses (the FileWriter::write_*_file
    # names, and names joined onto the output directory in a function that writes) is among the names the cache check demands (the converse —
    # every demanded name is written by somebody — is C14-D4's)
    FILE_RX = re.compile(r"^[\w.-]+\.(ts|txt|dot|js)$")
    written = {}
    for fid_ in sorted(reach):
        g_ = P.fns.get(fid_)
        if g_ is None or "{promoted" in fid_ or "::generation_cache::" in fid_:
            continue
        is_fw = bool(re.search(r"FileWriter::write_\w+_file$", short_path(fid_)))
        writes_here = any(strip_generics(c_.path) in ("std::fs::write", "std::fs::File::create") for c_ in g_.calls if c_.bb in g_.reach_blocks)
        if not (is_fw or writes_here):
            continue
        for c_ in g_.calls:
            if c_.bb in g_.reach_blocks and (c_.name == "join" or is_fw):
                for i_ in range(len(c_.args)):
                    s_ = c_.arg_str(i_)
                    if s_ and FILE_RX.match(s_):
                        written.setdefault(s_, short_path(fid_))
    vouch = [k for k in sorted(P.fns) if "::GenerationCache::" in k and "{promoted" not in k and "::{closure" not in k
             and any(strip_generics(c_.path) in EXIST_CHECKS for kk in P.family(k) if "{promoted" not in kk for c_ in P.fns[kk].calls)]
    from rulelib import family_strs
    demanded = {x for k in vouch for x in family_strs(P, S, k) if FILE_RX.match(x)}
    if vouch and demanded:
        for nm_ in sorted(written):
            if nm_ in demanded:
                r2.ok("the existence check demands %s (written by %s)" % (nm_, written[nm_]))
            else:
                r2.bad(V(r2.id, vouch[0], "written-file-not-demanded:%s" % nm_, "%s writes `%s`, but the cache check does not require that file to exist before it answers "
                         "'up to date': deleting it is not repaired by the next run" % (written[nm_], nm_)))
    rules.append(r2)

    # ---------------------------------------------------------------- D3
    r3 = Rule("C08-D3-conservative-failure", "D3",
              "needs_regeneration never returns a constant Ok(false); load failure and version mismatch return Ok(true); the CLI maps an Err to true; "
              "the build path regenerates on Err",
              "treating an unreadable or foreign cache as a hit skips generation without any evidence that the output is current")
    if nrf is not None:
        consts = []
        for blk in nrf.blocks:
            for st in blk["stmts"]:
                rv = st.get("rv")
                if rv and st["lhs"]["l"] == 0 and rv["k"] == "aggr" and rv.get("variant") == "Ok":
                    k = op_const(rv["ops"][0])
                    if k is not None and "bool" in k:
                        consts.append(k["bool"])
        if False in consts:
            r3.bad(V(r3.id, NR, "constant-Ok(false)", "needs_regeneration has a path that returns the constant Ok(false)"))
        if consts.count(True) >= 2:
            r3.ok("needs_regeneration: %d constant returns, all Ok(true)" % len(consts))
        else:
            r3.bad(V(r3.id, NR, "early-true-returns:%d" % consts.count(True), "expected early Ok(true) returns for load failure and version mismatch, found %d" % consts.count(True)))
        # load Err => Ok(true)
        loads = [c for c in nrf.calls if short_path(c.best) == "GenerationCache::load"]
        okl = False
        for lc in loads:
            for (a, lab, (o, outcome)) in nrf.branch_edges():
                if o[0] == "call" and o[1].bb == lc.bb and outcome == "Err":
                    reg = nrf.edge_region(a, lab)
                    for b in reg:
                        for st in nrf.blocks[b]["stmts"]:
                            rv = st.get("rv")
                            if rv and st["lhs"]["l"] == 0 and rv["k"] == "aggr" and rv.get("variant") == "Ok" and (op_const(rv["ops"][0]) or {}).get("bool") is True:
                                okl = True
        if okl:
            r3.ok("load() = Err ⇒ Ok(true)")
        else:
            r3.bad(V(r3.id, NR, "load-error-not-true", "a failing GenerationCache::load does not lead to Ok(true)"))
        # version test
        okv = False
        for (a, lab, (o, outcome)) in nrf.branch_edges():
            txt = nrf.describe_origin(o, deep=2)
            if "GenerationCache.version" in txt or ".version" in txt:
                okv = True
        if okv:
            r3.ok("version of the loaded record is tested")
        else:
            r3.bad(V(r3.id, NR, "no-version-test", "the loaded record's version is not compared with CURRENT_VERSION"))
    for f in nr_fns:
        nr = [c for c in f.calls if is_cache_check(c)][0]
        # result handling
        from rulelib import forward_uses
        sinks = forward_uses(f, nr.dest["l"]) if not nr.dest.get("p") else []
        handled = False
        for s in sinks:
            if s[0] == "call" and short_path(s[1].path) == "Result::unwrap_or":
                k = op_const(s[1].args[1])
                if k is not None and k.get("bool") is True:
                    r3.ok("%s: needs_regeneration(..).unwrap_or(true)" % short_path(f.id))
                else:
                    r3.bad(V(r3.id, f.id, "unwrap_or-not-true", "an Err of needs_regeneration is mapped to %s" % (k.get("bool") if k else "a non-constant"), s[1].file, s[1].line))
                handled = True
            if s[0] == "call" and short_path(s[1].path) == "Result::map_or" and len(s[1].args) > 1:
                # `.map_or(true, |stale| stale)`: the first argument is the answer for Err
                k = op_const(s[1].args[1])
                if k is not None and k.get("bool") is True:
                    r3.ok("%s: needs_regeneration(..).map_or(true, ..)" % short_path(f.id))
                else:
                    r3.bad(V(r3.id, f.id, "unwrap_or-not-true", "an Err of needs_regeneration is mapped to %s" % (k.get("bool") if k else "a non-constant"), s[1].file, s[1].line))
                handled = True
            if s[0] == "call" and short_path(s[1].path) in ("Result::unwrap_or_else", "Result::map_or_else") and len(s[1].args) > 1:
                # the Err answer computed by a closure: it must be the constant true
                co_ = f.origin(s[1].args[1])
                cid_ = co_[1].get("closure") if co_[0] == "aggr" and isinstance(co_[1], dict) else None
                g_ = P.fns.get(cid_)
                vals_ = set()
                if g_ is not None:
                    for b_ in g_.reach_blocks:
                        for st_ in g_.blocks[b_]["stmts"]:
                            if st_.get("lhs") and st_["lhs"]["l"] == 0 and not st_["lhs"].get("p"):
                                k_ = op_const((st_.get("rv") or {}).get("op")) if (st_.get("rv") or {}).get("k") == "use" else None
                                vals_.add(k_.get("bool") if k_ and "bool" in k_ else "?")
                if vals_ == {True}:
                    r3.ok("%s: an Err of needs_regeneration is answered true by the fallback closure" % short_path(f.id))
                    handled = True
                elif vals_ and "?" not in vals_:
                    r3.bad(V(r3.id, f.id, "unwrap_or-not-true", "an Err of needs_regeneration is mapped to %s" % sorted(map(str, vals_)), s[1].file, s[1].line))
                    handled = True
            if s[0] == "call" and short_path(s[1].path) in ("Result::unwrap_or_default", "Result::is_ok_and", "Result::ok"):
                r3.bad(V(r3.id, f.id, "err-mapped-to-false:%s" % short_path(s[1].path), "an Err of needs_regeneration is treated as 'no regeneration needed'", s[1].file, s[1].line))
                handled = True
            if s[0] == "discr":
                # match: Err arm must reach generate_models
                for (a, lab, (o, outcome)) in f.branch_edges():
                    if o[0] == "call" and o[1].bb == nr.bb and outcome == "Err":
                        reg = f.edge_region(a, lab)
                        from rulelib import blocks_reachable_from
                        reachable = set(reg)
                        for b in list(reg):
                            reachable |= blocks_reachable_from(f, b)
                        if any((f.call_at(b) is not None and f.call_at(b).path == GEN_MODELS) for b in reachable) and \
                                not any(f.blocks[b]["term"]["k"] == "return" for b in reg):
                            r3.ok("%s: Err(..) of needs_regeneration falls through to generation" % short_path(f.id))
                        else:
                            r3.bad(V(r3.id, f.id, "err-arm-skips-generation", "the Err arm of needs_regeneration does not lead to generate_models", nr.file, nr.line))
                        handled = True
        if not handled:
            r3.bad(V(r3.id, f.id, "result-unhandled", "cannot establish how %s treats a failing needs_regeneration" % short_path(f.id), nr.file, nr.line))
    r3.require_floor(5, "failure-handling facts")
    rules.append(r3)

    # ---------------------------------------------------------------- D4
    r4 = Rule("C08-D4-same-values", "D4",
              "needs_regeneration is called with the output path, commands, structs and config that generate_models is called with",
              "checking the cache against other values than the ones generated from makes the answer meaningless")
    for f in nr_fns:
        nr = [c for c in f.calls if is_cache_check(c)][0]
        gens = [c for c in f.calls if c.path == GEN_MODELS]
        if not gens:
            r4.bad(V(r4.id, f.id, "no-generation-call", "function consults the cache but does not generate", nr.file, nr.line))
            continue
        g = gens[0]
        pairs = [("commands", arg_by_type(nr, ARG_TYPES["commands"]), arg_by_type(g, ARG_TYPES["commands"])),
                 ("structs", arg_by_type(nr, ARG_TYPES["structs"]), arg_by_type(g, ARG_TYPES["structs"])),
                 ("config", arg_by_type(nr, ARG_TYPES["config"]), arg_by_type(g, ARG_TYPES["config"])),
                 ("output_path", nr.args[0], arg_by_type(g, r"^&str$"))]
        for what, na_, ga_ in pairs:
            if na_ is None or ga_ is None:
                r4.bad(V(r4.id, f.id, "no-%s-argument" % what, "cannot find the %s argument" % what, nr.file, nr.line))
                continue
            a = f.describe_origin(f.origin(na_), short=False, deep=3)
            b = f.describe_origin(f.origin(ga_), short=False, deep=3)
            if norm_origin(a) == norm_origin(b) and norm_origin(a) not in ("", "?"):
                r4.ok("%s: %s identical" % (short_path(f.id), what))
            else:
                r4.bad(V(r4.id, f.id, "different-%s" % what, "needs_regeneration gets %s from `%s`, generate_models from `%s`" % (what, a, b), nr.file, nr.line))
        ev = arg_by_type(nr, ARG_TYPES["events"])
        if ev is not None:
            a = f.describe_origin(f.origin(ev), short=False, deep=3)
            if "get_discovered_events" in a:
                r4.ok("%s: events = analyzer.get_discovered_events()" % short_path(f.id))
            else:
                r4.bad(V(r4.id, f.id, "different-events", "needs_regeneration gets events from `%s`" % a, nr.file, nr.line))
    r4.require_floor(8, "argument pairs")
    rules.append(r4)

    return finish(
        PROP, ctx, rules,
        "Field-level information flow over MIR: (ADT, field) read sets of the code a cache hit skips versus the digest computation, "
        "with copy-only / derived / named-setting exemptions re-established on every run; plumbing of the digest to the comparison; "
        "existence-check, failure-handling and argument-identity rules on both paths.",
        ["64-bit digest collisions", "semantic no-op edits (they may regenerate; harmless)",
         "template files are embedded at build time (include_str!): a template edit is a new binary, outside the statement's edit classes"],
        ["a datum influences the output only through reads of its fields in code reachable from generate_models or from the post-check part of the functions that consult the cache",
         "serde serialisation of the *HashData structs covers every non-skipped field"])


def constant_field(P, adt, name):
    """all aggregate constructions of `adt` (outside #[doc(hidden)] test helpers compiled into the lib) give `name` the same unit variant (None)"""
    vals = set()
    n = 0
    for f in P.fns.values():
        if "{promoted#" in f.id or f.id.startswith("<tauri_typegen::models::"):
            continue
        for blk in f.blocks:
            for st in blk["stmts"]:
                rv = st.get("rv")
                if rv and rv["k"] == "aggr" and rv.get("adt") == adt and name in rv.get("fields", []):
                    n += 1
                    o = f.origin(rv["ops"][rv["fields"].index(name)])
                    if o[0] == "aggr" and not o[1]["ops"]:
                        vals.add(o[1].get("variant"))
                    else:
                        vals.add("<computed>")
    # ... and the field is never assigned afterwards (`c.message = parse(..)`), directly or through a `&mut` borrow
    def is_field(pl):
        pj = (pl or {}).get("p", [])
        return bool(pj) and pj[-1]["k"] == "field" and pj[-1].get("adt") == adt and pj[-1].get("name") == name
    for f in P.fns.values():
        if "{promoted#" in f.id or f.id.startswith("<tauri_typegen::models::"):
            continue
        for blk in f.blocks:
            for st in blk["stmts"]:
                rv = st.get("rv")
                if is_field(st.get("lhs")) or (rv and rv["k"] == "ref" and rv.get("mut") and is_field(rv.get("place"))):
                    return None
            t = blk["term"]
            if t["k"] == "call" and is_field(t.get("dest")):
                return None
    if n and vals == {"None"}:
        return "%d sites, always None, never assigned" % n
    return None


def derived_ok(P, adt, name, src):
    """every aggregate construction of `adt` computes `name` as parse_type_structure(&<operand of src>) or a constant"""
    sites = 0
    for f in P.fns.values():
        if "{promoted#" in f.id or f.id.startswith("<tauri_typegen::models::"):
            continue
        for blk in f.blocks:
            for st in blk["stmts"]:
                rv = st.get("rv")
                if not (rv and rv["k"] == "aggr" and rv.get("adt") == adt and name in rv.get("fields", [])):
                    continue
                sites += 1
                i = rv["fields"].index(name)
                j = rv["fields"].index(src) if src in rv["fields"] else None
                o = f.origin(rv["ops"][i])
                while o[0] == "proj":
                    o = o[1]
                if o[0] == "aggr" or o[0] == "const":
                    # constant TypeStructure (enum variants): not input dependent beyond the variant list
                    continue
                if o[0] == "multi" and o[2] and all(x[0] in ("aggr", "const") for x in o[2]) and j is not None:
                    # one constant per arm of a `match` that also picks the source field (`let (rust_type, structure) = match shape {..}`):
                    # derived iff the arms' source constants determine the structure constant
                    so = f.origin(rv["ops"][j])
                    while so[0] == "proj" or (so[0] == "call" and so[1].args and so[1].name in ("to_string", "to_owned", "into", "clone", "from")):
                        so = so[1] if so[0] == "proj" else f.origin(so[1].args[0])
                    if so[0] == "multi" and len(so[2]) == len(o[2]) and so[1].rsplit(".", 1)[0] == o[1].rsplit(".", 1)[0] and all(x[0] in ("aggr", "const") for x in so[2]):
                        import json as _json
                        mp = {}
                        fn_ok = True
                        for sx, tx in zip(so[2], o[2]):
                            ks, kt = _json.dumps(sx[1], sort_keys=True, default=str), _json.dumps(tx[1], sort_keys=True, default=str)
                            if mp.setdefault(ks, kt) != kt:
                                fn_ok = False
                        if fn_ok:
                            continue
                    # ... or both are picked by matches on one and the same discriminant (`shape.rust_type()` / `shape.type_structure()` of a small
                    # enum, spliced in): per outcome of that discriminant one source constant and one structure constant
                    def by_discriminant(op_):
                        """{(discriminant text, variant): constant} when the operand is one constant per outcome of a match on one discriminant"""
                        import json as _json2
                        pl_ = op_place(op_)
                        hops_ = 0
                        while pl_ is not None and hops_ < 8:
                            ds_ = f.defs.get(pl_["l"], [])
                            if len(ds_) == 1 and ds_[0][0] == "stmt" and ds_[0][3]["k"] in ("use", "cast"):
                                pl_ = op_place(ds_[0][3]["op"])
                            elif len(ds_) == 1 and ds_[0][0] == "stmt" and ds_[0][3]["k"] in ("ref", "copy_for_deref"):
                                pl_ = {"l": ds_[0][3]["place"]["l"]}
                            elif len(ds_) == 1 and ds_[0][0] == "call" and ds_[0][2].args and ds_[0][2].name in ("to_string", "to_owned", "into", "from", "clone", "deref"):
                                pl_ = op_place(ds_[0][2].args[0])
                            else:
                                break
                            hops_ += 1
                        if pl_ is None:
                            return None
                        L_ = pl_["l"]
                        defs_ = {}
                        for d_ in f.defs.get(L_, []):
                            if d_[0] != "stmt":
                                return None
                            oo_ = f._origin_def(d_, L_, 6, {L_})
                            while oo_[0] == "proj":
                                oo_ = oo_[1]
                            if oo_[0] not in ("aggr", "const"):
                                return None
                            defs_[d_[1]] = _json2.dumps(oo_[1], sort_keys=True, default=str)
                        if len(defs_) < 2:
                            return None
                        for b_ in sorted(f.reach_blocks):
                            t_ = f.blocks[b_]["term"]
                            if t_["k"] != "switch":
                                continue
                            od_ = f.origin(t_["discr"])
                            if od_[0] != "discr" or set(od_[2].values()) <= {"Some", "None", "Ok", "Err", "Continue", "Break"}:
                                continue
                            table = {}
                            okk = True
                            for (lab_, y_) in f.succ_edges(b_):
                                outcome_ = f.cond_struct(b_, lab_)[1]
                                seen_ = set()
                                work_ = [y_]
                                hit_ = set()
                                while work_:
                                    x_ = work_.pop()
                                    if x_ in seen_:
                                        continue
                                    seen_.add(x_)
                                    if x_ in defs_:
                                        hit_.add(defs_[x_])
                                        continue
                                    work_.extend(f.succ[x_])
                                if len(hit_) != 1:
                                    okk = False
                                    break
                                for v_ in outcome_.split("|"):
                                    table[(f.describe_origin(od_[1], deep=2), v_)] = next(iter(hit_))
                            if okk and table:
                                return table
                        return None
                    tt_, ts_ = by_discriminant(rv["ops"][i]), by_discriminant(rv["ops"][j])
                    if tt_ and ts_ and set(tt_) == set(ts_):
                        mp2 = {}
                        if all(mp2.setdefault(ts_[k_], tt_[k_]) == tt_[k_] for k_ in tt_):
                            continue
                    # ... or path by path: on every feasible path to this construction (a branch that contradicts a variant assigned earlier on the
                    # path is not feasible) both are constants, and the source constant determines the structure constant
                    from rulelib import enumerate_paths, path_value, path_feasible
                    b_site = next(bi_ for bi_, bl_ in enumerate(f.blocks) if bl_ is blk)
                    k_site = blk["stmts"].index(st)
                    paths_ = enumerate_paths(f, b_site, max_paths=200)
                    mp3, okp = {}, bool(paths_) and len(paths_) < 200
                    for path_ in paths_:
                        if not okp or not path_feasible(f, path_):
                            continue
                        vs_ = path_value(f, path_, rv["ops"][j], (len(path_) - 1, k_site))
                        vt_ = path_value(f, path_, rv["ops"][i], (len(path_) - 1, k_site))
                        if vs_ is None or vt_ is None or mp3.setdefault(vs_, vt_) != vt_:
                            okp = False
                    if okp and mp3:
                        continue
                    return False, "%s: %s takes one of %d constants that the %s constants do not determine" % (short_path(f.id), name, len(o[2]), src)
                if o[0] == "call" and short_path(o[1].best) == "TypeResolver::parse_type_structure":
                    arg = f.describe_origin(f.origin(o[1].args[1]), short=False, deep=4)
                    srcop = f.describe_origin(f.origin(rv["ops"][j]), short=False, deep=4) if j is not None else None
                    if srcop is not None and norm_origin(arg) == norm_origin(srcop) and norm_origin(arg) not in ("", "?"):
                        continue
                    return False, "%s: parse_type_structure(%s) vs %s=%s" % (short_path(f.id), arg[:60], src, (srcop or "?")[:60])
                return False, "%s: %s built from %s" % (short_path(f.id), name, f.describe_origin(o)[:80])
    if sites == 0:
        return False, "no construction site found"
    return True, "%d construction sites" % sites

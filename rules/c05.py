"""C05 — each emitted TypeScript type denotes the JSON shape serde produces.

The translation is compositional (one recogniser per constructor on the parsing side, one format
string per constructor on the rendering side), so finite checks of those shapes cover every depth.
  D1  TABLE    the primitive table is exactly the documented one (19 Rust names -> string/number/boolean/void)
  D2  TABLE    every recogniser pairs starts_with(P) with a slice that begins at len(P) (and drops the closing bracket)
               and maps to the documented TypeStructure constructor
  D3  SHAPE    per constructor the rendered shape is the documented one (T | null, T[], Record<K, V>, [T, U], passthrough)
  D4  SHAPE    precedence: a hole directly followed by `[]` never receives a union-class rendering (all (outer, inner) pairs)
  D5  SIBLING  type-argument lists are split only by depth-aware scans (no find(',') / split(',') on type text)
  D6  CALLS    all translation sites obtain their TypeStructure from parse_type_structure and their text from a visitor entry
"""
import re

from common import Rule, V, finish
from mirlib import ENTRY_POINTS, short_path
from srclib import walk_block, walk, lit_str, expr_text, pat_text
from svlib import SVEval, render, leaves

PROP = "C05"

DOC_PRIMITIVES = {
    "String": "string", "str": "string", "&str": "string",
    "i8": "number", "i16": "number", "i32": "number", "i64": "number", "i128": "number", "isize": "number",
    "u8": "number", "u16": "number", "u32": "number", "u64": "number", "u128": "number", "usize": "number",
    "f32": "number", "f64": "number", "bool": "boolean", "()": "void",
}
DOC_RECOGNISERS = {  # prefix -> constructor
    "Option<": "Optional", "Result<": "Result", "Vec<": "Array", "HashMap<": "Map", "BTreeMap<": "Map",
    "HashSet<": "Set", "BTreeSet<": "Set", "(": "Tuple", "&": "reference",
}


def resolver(S, owner, trait="TypeVisitor"):
    def r(name):
        f = [x for x in S.fns if x.name == name and x.owner == owner and x.body is not None]
        if f:
            return f[0]
        f = [x for x in S.fns if x.name == name and x.owner == trait and x.body is not None]
        return f[0] if f else None
    return r


def constructor_of(conds):
    for c in conds:
        m = re.search(r"matches TypeStructure::(\w+)", c)
        if m:
            return m.group(1)
    return None


def flat_pieces(sv):
    """SV -> list of ('lit', s) | ('rec', subject) | ('rep', inner, sep) | ('var', name) ..."""
    if sv[0] == "cat":
        return list(sv[1])
    return [sv]


def shape_of(sv):
    """classify a constructor rendering: (shape, details)"""
    ps = flat_pieces(sv)
    txt = "".join(p[1] if p[0] == "lit" else ("\x00" if p[0] == "rec" else ("\x01" if p[0] == "rep" else "\x02")) for p in ps)
    recs = [p for p in ps if p[0] == "rec"]
    reps = [p for p in ps if p[0] == "rep"]
    if txt == "\x00":
        return ("passthrough", recs)
    if re.fullmatch(r"\x00\[\]|Array<\x00>|\(\x00\)\[\]", txt):
        return ("array", recs)
    if re.fullmatch(r"\x00 \| null|\(\x00\) \| null|null \| \x00", txt):
        return ("nullable", recs)
    if re.fullmatch(r"\x00 \| undefined", txt):
        return ("optional-undefined", recs)
    if re.fullmatch(r"Record<\x00, \x00>|\{ \[key: \x00\]: \x00 \}", txt):
        return ("record", recs)
    if re.fullmatch(r"\[\x01\]", txt) and reps and reps[0][2] == ", ":
        return ("tuple", reps)
    if re.fullmatch(r"Set<\x00>", txt):
        return ("jsset", recs)
    if re.fullmatch(r"Map<\x00, \x00>", txt):
        return ("jsmap", recs)
    if all(p[0] in ("var", "maphit", "lit") for p in ps):
        return ("leaf", ps)
    return ("other", txt.replace("\x00", "□").replace("\x01", "□*").replace("\x02", "‹›"))


def result_class(sv):
    """binding class of the rendered text: 'union' (top-level ` | `), 'postfix' (ends with []), 'pass' (just a hole), 'atom'"""
    ps = flat_pieces(sv)
    depth = 0
    top_union = False
    for p in ps:
        if p[0] == "lit":
            for i, ch in enumerate(p[1]):
                if ch in "<[({":
                    depth += 1
                elif ch in ">])}":
                    depth -= 1
                elif ch == "|" and depth == 0:
                    top_union = True
    if top_union:
        return "union"
    if len(ps) == 1 and ps[0][0] == "rec":
        return "pass"
    return "atom"


def hole_requirements(sv):
    """for each rec hole: does its context require a non-union operand?  (hole directly followed by `[]` at depth 0 of its bracket)"""
    ps = flat_pieces(sv)
    req = []
    for i, p in enumerate(ps):
        if p[0] != "rec":
            continue
        nxt = ps[i + 1][1] if i + 1 < len(ps) and ps[i + 1][0] == "lit" else ""
        prv = ps[i - 1][1] if i > 0 and ps[i - 1][0] == "lit" else ""
        needs = nxt.startswith("[]") and not prv.endswith("(")
        # hole next to a top-level ` | ` in the same frame: a union inside a union is fine
        req.append((p, needs))
    return req


def check_splitters(S, r5):
    """type text (Rust or rendered TypeScript) is cut only by depth-aware scans; shared by C05-D5 and C01-D4"""
    targets = [f for f in S.fns if f.body is not None and (f.file.endswith("analysis/type_resolver.rs") or f.name in ("extract_type_names_recursive", "add_types_prefix"))]
    for f in targets:
        for e in walk_block(f.body):
            if e.get("k") == "mcall" and e["method"] in ("find", "rfind", "split", "splitn", "rsplitn", "split_once", "rsplit", "rsplit_once", "split_terminator") and e["args"]:
                # the pattern is the first argument, for splitn / rsplitn the second (`inner.splitn(2, ',')`)
                a = e["args"][1] if e["method"] in ("splitn", "rsplitn") and len(e["args"]) > 1 else e["args"][0]
                v = a["lit"]["v"] if a.get("k") == "lit" and isinstance(a["lit"].get("v"), str) else None
                if v == ",":
                    r5.bad(V(r5.id, "%s::%s" % (f.owner, f.name), "naive-comma:%s(',') on %s" % (e["method"], expr_text(e["recv"])),
                             "%s(',') splits type text at the first/every comma regardless of nesting" % e["method"], f.file, e["ln"]))
                elif v is not None and v.strip() in (",", "|") :
                    # the same on rendered TypeScript text (`[A | null, B]`, `Record<K, V | null>`): members nest inside brackets
                    r5.bad(V(r5.id, "%s::%s" % (f.owner, f.name), "naive-separator:%s(%r) on %s" % (e["method"], v, expr_text(e["recv"])),
                             "%s(%r) cuts type text at every separator regardless of bracket nesting" % (e["method"], v), f.file, e["ln"]))
        for e in walk_block(f.body):
            if (e.get("k") == "call" and expr_text(e["func"]).endswith("split_top_level_commas")):
                r5.ok("%s::%s splits with the depth-aware splitter" % (f.owner, f.name))
        # depth-aware scanners: must count all three bracket kinds
        scans = [e for e in walk_block(f.body) if e.get("k") == "for" and "char_indices" in expr_text(e["iter"])]
        for sc in scans:
            pats = set()
            for x in walk_block(sc["body"]):
                if x.get("k") == "match":
                    for arm in x["arms"]:
                        for p in (arm["pat"]["cases"] if arm["pat"].get("k") == "or" else [arm["pat"]]):
                            if p.get("k") == "lit":
                                pats.add(p["lit"]["v"])
            need = {"<", ">", "(", ")", ","}
            if need <= pats:
                r5.ok("%s::%s scans with depth tracking over %s" % (f.owner, f.name, sorted(pats)))
            else:
                r5.bad(V(r5.id, "%s::%s" % (f.owner, f.name), "depth-scan-misses:%s" % ",".join(sorted(need - pats)),
                         "the depth-aware splitter does not track %s: a tuple or fn-pointer key such as `HashMap<(i32, i32), U>` is cut inside the parentheses"
                         % sorted(need - pats), f.file, sc["ln"]))


def check(ctx):
    P = ctx.P
    S = ctx.S
    rules = []
    ev = SVEval(S)

    # ---------------------------------------------------------------- D1
    r1 = Rule("C05-D1-primitive-table", "D1",
              "map_to_target_primitive maps exactly the 19 documented Rust names to string/number/boolean/void and nothing else; the plain visitor's "
              "visit_primitive is the identity",
              "a missing or wrong row changes the JSON shape a primitive is said to have (e.g. u64 -> string)")
    fn = S.fn("TypeResolver", "map_to_target_primitive")
    got = {}
    if fn is None:
        r1.bad(V(r1.id, "<anchor>", "missing:map_to_target_primitive", "anchor not found"))
    else:
        from srclib import literal_map
        got = literal_map(S, fn)
        for k in sorted(set(got) | set(DOC_PRIMITIVES)):
            if got.get(k) == DOC_PRIMITIVES.get(k):
                r1.ok("%s -> %s" % (k, got[k]))
            else:
                r1.bad(V(r1.id, "TypeResolver::map_to_target_primitive", "row:%s:%s" % (k, got.get(k)),
                         "primitive %r maps to %r, documented: %r" % (k, got.get(k), DOC_PRIMITIVES.get(k))))
    for owner in ("TypeScriptVisitor",):
        vp = S.fn(owner, "visit_primitive")
        if vp is not None:
            paths = ev.fn_paths(vp)
            pnames = [p_["pat"].get("name") for p_ in vp.sig.get("params", []) if p_.get("pat")]
            if len(paths) == 1 and paths[0][1][0] == "var" and paths[0][1][1] in pnames:
                r1.ok("%s::visit_primitive is the identity" % owner)
            else:
                r1.bad(V(r1.id, owner + "::visit_primitive", "not-identity:%s" % "|".join(render(p[1]) for p in paths), "visit_primitive rewrites primitive names: %s" % [render(p[1]) for p in paths]))
    r1.require_floor(20, "primitive rows")
    rules.append(r1)

    # ---------------------------------------------------------------- D2
    r2 = Rule("C05-D2-recognisers", "D2",
              "each extract_* recogniser tests starts_with(P) ∧ ends_with(closing bracket) and slices [len(P) .. len-1]; parse_type_structure maps "
              "each recogniser to the documented TypeStructure constructor",
              "an off-by-one offset (Vec< is 4 bytes) or a recogniser wired to the wrong constructor changes the shape of every use of that constructor")
    recog = {}
    for f in S.fns:
        if f.owner != "TypeResolver" or not f.name.startswith("extract_") or f.body is None:
            continue
        prefix = None
        suffix = None
        starts = []
        for e in walk_block(f.body):
            if e.get("k") == "mcall" and e["method"] == "starts_with" and e["args"]:
                a = e["args"][0]
                prefix = a["lit"]["v"] if a.get("k") == "lit" else None
            if e.get("k") == "mcall" and e["method"] == "ends_with" and e["args"]:
                a = e["args"][0]
                suffix = a["lit"]["v"] if a.get("k") == "lit" else None
            if e.get("k") == "mcall" and e["method"] == "strip_prefix" and e["args"]:
                a = e["args"][0]
                prefix = a["lit"]["v"] if a.get("k") == "lit" else None
                starts.append(("strip", len(prefix) if prefix else None, None))
            if e.get("k") == "index" and e["index"].get("k") == "range":
                rg = e["index"]
                st = rg.get("from")
                en = rg.get("to")
                sv = int(st["lit"]["v"]) if st and st.get("k") == "lit" and st["lit"]["t"] == "int" else None
                starts.append(("slice", sv, expr_text(en) if en else None))
        recog[f.name] = (prefix, suffix, starts)
        if prefix is None:
            r2.bad(V(r2.id, "TypeResolver::" + f.name, "no-prefix-test", "recogniser has no starts_with/strip_prefix test"))
            continue
        ok = True
        for kind, sv, en in starts:
            if kind == "slice" and sv is not None and en is not None and "len()" in en:
                if sv != len(prefix.encode()):
                    ok = False
                    r2.bad(V(r2.id, "TypeResolver::" + f.name, "offset:%s:%d" % (prefix, sv),
                             "recogniser for %r slices from byte %d, but the prefix is %d bytes long" % (prefix, sv, len(prefix.encode()))))
                if not re.search(r"len\(\)\s*-\s*1$", en):
                    ok = False
                    r2.bad(V(r2.id, "TypeResolver::" + f.name, "end:%s:%s" % (prefix, en), "recogniser for %r does not drop exactly the closing bracket (%s)" % (prefix, en)))
        if prefix not in ("&",) and not any(k == "strip" for k, _, _ in starts):
            want_suffix = ")" if prefix == "(" else ">"
            if suffix != want_suffix:
                ok = False
                r2.bad(V(r2.id, "TypeResolver::" + f.name, "suffix:%s:%s" % (prefix, suffix), "recogniser for %r checks the suffix %r (expected %r)" % (prefix, suffix, want_suffix)))
        if ok:
            r2.ok("%s: prefix %r, offset %d" % (f.name, prefix, len(prefix.encode())))
    # wiring in parse_type_structure
    pts = S.fn("TypeResolver", "parse_type_structure")
    wiring = {}
    if pts is None:
        r2.bad(V(r2.id, "<anchor>", "missing:parse_type_structure", "anchor not found"))
    else:
        order = []
        for st in pts.body:
            if st.get("k") != "expr" or st["e"].get("k") != "if":
                continue
            e = st["e"]
            used = [x["method"] for x in walk(e["cond"]) if x.get("k") == "mcall" and x["method"].startswith("extract_")]
            ctor = None
            for x in walk_block(e["then"]):
                if x.get("k") == "call" and expr_text(x["func"]).startswith("TypeStructure::"):
                    ctor = ctor or expr_text(x["func"]).split("::")[1]
                if x.get("k") == "struct" and x["path"][0] == "TypeStructure":
                    ctor = ctor or x["path"][1]
            if used and ctor is None:
                # the reference arm just recurses
                ctor = "reference" if any("reference" in u for u in used) else "?"
            for u in used:
                wiring[u] = ctor
                order.append(u)
        for rn, (prefix, suffix, starts) in sorted(recog.items()):
            want = DOC_RECOGNISERS.get(prefix)
            have = wiring.get(rn)
            if want is None:
                r2.bad(V(r2.id, "TypeResolver::" + rn, "undocumented-prefix:%s" % prefix, "recogniser for undocumented prefix %r" % prefix))
            elif have == want or (want == "Tuple" and have in ("Tuple", "Primitive")):
                r2.ok("%s (%r) -> TypeStructure::%s" % (rn, prefix, want))
            else:
                r2.bad(V(r2.id, "TypeResolver::parse_type_structure", "wiring:%s:%s" % (rn, have), "recogniser %s (%r) produces %s, documented: %s" % (rn, prefix, have, want)))
        miss = set(DOC_RECOGNISERS) - {v[0] for v in recog.values()}
        for m in sorted(miss):
            r2.bad(V(r2.id, "TypeResolver", "missing-recogniser:%s" % m, "no recogniser for the documented constructor prefix %r" % m))
    r2.require_floor(12, "recogniser facts")
    rules.append(r2)

    # ---------------------------------------------------------------- D3 / D4
    r3 = Rule("C05-D3-constructor-shapes", "D3",
              "for each entry that renders TypeScript types (TypeScriptVisitor::visit_type, ZodVisitor::visit_type_for_interface): Optional -> x | null, "
              "Array/Set -> x[], Map -> Record<k, v>, Tuple -> [x, y] (separator \", \"), Result -> passthrough, Primitive -> its name",
              "a constructor rendered with another shape describes a different JSON value at every depth it occurs")
    r4 = Rule("C05-D4-precedence", "D4",
              "for every (outer constructor hole, inner constructor) pair the inner rendering's binding class satisfies the hole: a hole directly "
              "followed by `[]` must not receive a union (`a | b`) rendering, with passthrough constructors propagating their operand's class",
              "Vec<Option<T>> rendered as `T | null[]` denotes `T` or an array of nulls, not an array of T-or-null")
    WANT = {"Optional": "nullable", "Array": "array", "Set": "array", "Map": "record", "Tuple": "tuple", "Result": "passthrough",
            "Primitive": "leaf", "Custom": "leaf"}
    entries = [("TypeScriptVisitor", "visit_type"), ("ZodVisitor", "visit_type_for_interface")]
    for owner, entry in entries:
        res = resolver(S, owner)
        fn = res(entry)
        if fn is None:
            r3.bad(V(r3.id, "<anchor>", "missing:%s::%s" % (owner, entry), "entry not found"))
            continue
        paths = ev.fn_paths(fn, None, res)
        # a default visit_type_for_interface that forwards to visit_type: use that
        if len(paths) == 1 and paths[0][1][0] == "rec" and paths[0][1][1] != entry:
            fn = res(paths[0][1][1])
            paths = ev.fn_paths(fn, None, res)
        per_ctor = {}
        for conds, sv in paths:
            c = constructor_of(conds)
            if c is None:
                continue
            per_ctor.setdefault(c, []).append((conds, sv))
        classes = {}
        for c, alts in sorted(per_ctor.items()):
            for conds, sv in alts:
                from svlib import atom_polarity
                if c == "Tuple" and any(atom_polarity(x, r"\w+\.is_empty\(\)") is True for x in conds):
                    if render(sv) == "void":
                        r3.ok("%s::%s Tuple() -> void" % (owner, entry))
                    else:
                        r3.bad(V(r3.id, "%s::%s" % (owner, entry), "empty-tuple:%s" % render(sv), "the empty tuple renders as %s (documented: void)" % render(sv)))
                    continue
                sh, det = shape_of(sv)
                if sh == WANT.get(c):
                    r3.ok("%s::%s %s -> %s (%s)" % (owner, entry, c, render(sv), sh))
                else:
                    r3.bad(V(r3.id, "%s::%s" % (owner, entry), "shape:%s:%s" % (c, render(sv)),
                             "%s renders as `%s` (shape %s); documented shape: %s" % (c, render(sv), sh, WANT.get(c))))
                classes.setdefault(c, set()).add(result_class(sv))
        missing = set(WANT) - set(per_ctor)
        for m in sorted(missing):
            r3.bad(V(r3.id, "%s::%s" % (owner, entry), "no-arm:%s" % m, "no rendering for TypeStructure::%s" % m))
        # D4: resolve 'pass' transitively
        def klass(c, seen=()):
            ks = set()
            for k in classes.get(c, {"atom"}):
                if k == "pass":
                    # passthrough of any constructor: union if any constructor can be union
                    if c in seen:
                        continue
                    for c2 in classes:
                        ks |= klass(c2, seen + (c,))
                else:
                    ks.add(k)
            return ks or {"atom"}
        for c, alts in sorted(per_ctor.items()):
            for conds, sv in alts:
                for (hole, needs) in hole_requirements(sv):
                    for inner in sorted(classes):
                        if not needs:
                            r4.ok(None)
                            continue
                        ks = klass(inner)
                        if "union" in ks:
                            r4.bad(V(r4.id, "%s::%s" % (owner, entry), "precedence:%s∘%s" % (c, inner),
                                     "%s applied to %s renders `%s` with the operand's top-level ` | ` unparenthesised: the union binds weaker than `[]`"
                                     % (c, inner, render(sv))))
                        else:
                            r4.ok("%s::%s %s∘%s: operand class %s fits" % (owner, entry, c, inner, sorted(ks)))
    from c10 import check_renderer_families
    check_renderer_families(S, ev, r3)
    for v_ in r3.violations:
        v_.rule = r3.id
    r3.require_floor(16, "constructor renderings")
    r4.require_floor(40, "(outer hole, inner constructor) pairs")
    rules += [r3, r4]

    # ---------------------------------------------------------------- D5
    r5 = Rule("C05-D5-splitter-discipline", "D5",
              "a type-argument list is split only by a scan that tracks bracket depth (`<>`, `()`, `[]`) and cuts at depth 0; no find(',') / "
              "split(',') / split_once(',') on type text in the type resolver or the type-name harvester",
              "a first-comma split cuts `Result<HashMap<String, User>, E>` at the inner comma: half a generic argument list leaks into the output")
    check_splitters(S, r5)
    # ... and the dispatcher knows a constructor by its literal prefix, one delimiter pair per constructor (shared with C07-D4 / C09-D4 / C02-D4)
    from c07 import check_type_text_splitting
    n_b = len(r5.violations)
    check_type_text_splitting(P, r5)
    for v_ in r5.violations[n_b:]:
        v_.rule = r5.id
    r5.require_floor(4, "splitter sites")
    rules.append(r5)

    # ---------------------------------------------------------------- D6
    r6 = Rule("C05-D6-single-translation-path", "D6",
              "every *_type_structure field is built by TypeResolver::parse_type_structure and every TypeScript type text handed to a template "
              "context comes from a TypeVisitor entry; the three type_to_string renderers agree on Path/Reference/Tuple",
              "a second, ad-hoc translation at one site makes that site disagree with the other four")
    n_pts = 0
    for f in P.fns.values():
        if "{promoted#" in f.id or f.id.startswith("<tauri_typegen::models::"):
            continue
        for blk in f.blocks:
            for st in blk["stmts"]:
                rv = st.get("rv")
                if rv and rv["k"] == "aggr" and rv.get("adt", "").startswith("tauri_typegen::models::") and rv.get("fields"):
                    for name, op in zip(rv["fields"], rv["ops"]):
                        if name.endswith("type_structure"):
                            o = f.origin(op)
                            while o[0] == "proj":
                                o = o[1]
                            if o[0] == "call" and short_path(o[1].best) == "TypeResolver::parse_type_structure":
                                n_pts += 1
                                r6.ok("%s: %s.%s = parse_type_structure(..)" % (short_path(f.id), short_path(rv["adt"]), name))
                            elif o[0] == "aggr":
                                r6.ok("%s: %s.%s = constant %s" % (short_path(f.id), short_path(rv["adt"]), name, o[1].get("variant")))
                            elif o[0] == "multi" and o[2] and all(x[0] == "aggr" or (x[0] == "call" and short_path(x[1].best) == "TypeResolver::parse_type_structure") for x in o[2]):
                                r6.ok("%s: %s.%s = one of %d constants / parse_type_structure results" % (short_path(f.id), short_path(rv["adt"]), name, len(o[2])))
                            else:
                                r6.bad(V(r6.id, f.id, "structure-origin:%s.%s" % (short_path(rv["adt"]), name),
                                         "%s.%s is not produced by parse_type_structure: %s" % (rv["adt"], name, f.describe_origin(o)), f.file, st.get("line")))
    # context fields that carry TS types
    ctx_fields = {"return_type_ts", "typescript_type", "typescript_message_type", "typescript_payload_type"}
    for f in P.fns.values():
        if "template_context" not in f.id or "{promoted#" in f.id or f.id.startswith("<"):
            continue
        for b, blk in enumerate(f.blocks):
            for st in blk["stmts"]:
                lp = st.get("lhs", {}).get("p", [])
                if lp and lp[-1]["k"] == "field" and lp[-1].get("name") in ctx_fields and "template_context" in lp[-1].get("adt", ""):
                    rv = st["rv"]
                    if rv["k"] != "use":
                        continue
                    o = f.origin(rv["op"])
                    while o[0] == "proj":
                        o = o[1]
                    if o[0] == "call" and o[1].trait and o[1].trait.endswith("TypeVisitor") and o[1].name in ("visit_type", "visit_type_for_interface"):
                        r6.ok("%s: %s = visitor.%s(..)" % (short_path(f.id), lp[-1]["name"], o[1].name))
                    elif o[0] == "call" and short_path(o[1].best) == "String::new":
                        continue
                    else:
                        r6.bad(V(r6.id, f.id, "type-text-origin:%s" % lp[-1]["name"], "%s is not produced by a TypeVisitor entry: %s" % (lp[-1]["name"], f.describe_origin(o)), f.file, st.get("line")))
    # ... and only those fields reach the output: no rendered template interpolates a field that carries *Rust* type text
    # (rust_type, return_type, message_type, payload_type), wherever the hole is (a wrong-field slip such as channel.messageType)
    from c01 import Producers, TYPETEXT, split_hole
    from tpltypes import Typing
    from tplpaths import Templates, consistent
    T_ = Templates(S)
    typing_ = Typing(S, P, T_)
    prod_ = Producers(S, None)
    n_h = 0
    for tn in sorted(T_.rendered_names()):
        seen_h = set()
        for p_ in T_.paths(tn) or []:
            if not consistent(p_.conds):
                continue
            for it in p_.holes():
                h = it[1]
                if h in seen_h:
                    continue
                seen_h.add(h)
                base, filters, _ = split_hole(h)
                m_ = re.match(r"^\(([^()]*)\)(.*)$", base)
                if m_:
                    base = m_.group(1) + m_.group(2)
                fo = typing_.field_of(base)
                if not fo or fo[0] == "ambiguous":
                    continue
                n_h += 1
                if prod_.field(*fo) == TYPETEXT:
                    r6.bad(V(r6.id, tn, "rust-type-text-in-template:%s" % h, "`{{ %s }}` interpolates %s.%s, which holds Rust type text, not a translated TypeScript type" % (h, fo[0], fo[1])))
    r6.ok("%d typed template holes, none bound to a Rust-type-text field" % n_h)
    from c12 import check_generics_kept_unconditionally
    check_generics_kept_unconditionally(S, r6)
    for v_ in r6.violations:
        v_.rule = r6.id
    # sibling type_to_string renderers
    sib = {}
    for owner in ("CommandParser", "StructParser", "ChannelParser"):
        fn = S.fn(owner, "type_to_string")
        if fn is None:
            r6.bad(V(r6.id, "<anchor>", "missing:%s::type_to_string" % owner, "renderer not found"))
            continue
        arms = {}
        for e in walk_block(fn.body):
            if e.get("k") == "match" and expr_text(e["expr"]) == "ty":
                for arm in e["arms"]:
                    pt = pat_text(arm["pat"])
                    m = re.match(r"Type::(\w+)", pt)
                    if m:
                        arms[m.group(1)] = arm["body"]
        sib[owner] = arms
    if sib:
        for variant in ("Reference", "Tuple", "Path"):
            forms = {}
            for owner, arms in sib.items():
                body = arms.get(variant)
                if body is None:
                    forms[owner] = "<no arm>"
                    continue
                # the punctuation a renderer can emit for this constructor, however it is assembled (format!, join, push_str/push): the literal text of
                # the arm with placeholders and words removed
                chars = set()
                for x in walk(body):
                    t_ = None
                    if x.get("k") == "lit" and x["lit"].get("t") in ("str", "char"):
                        t_ = str(x["lit"]["v"])
                    if t_ is None:
                        continue
                    t_ = re.sub(r"\{[^{}]*\}", "", t_)
                    if re.fullmatch(r"[A-Za-z_ ]+", t_):
                        continue            # a word ("unknown"): not structure
                    chars |= {ch for ch in t_ if not ch.isalnum() and ch != "_"}
                forms[owner] = "punctuation=%s" % "".join(sorted(chars))
            if len(set(forms.values())) == 1:
                r6.ok("type_to_string agrees on Type::%s: %s" % (variant, list(forms.values())[0]))
            else:
                r6.bad(V(r6.id, "type_to_string", "sibling-disagreement:%s" % variant, "the three type_to_string renderers differ on Type::%s: %s" % (variant, forms)))
    # the payload type of an event is the annotation of the variable that is emitted (shared with C12-D7)
    from c12 import check_annotated_bindings
    check_annotated_bindings(P, r6)
    from c12 import check_namer_tuple_syntax
    check_namer_tuple_syntax(S, ev, r6)
    r6.require_floor(10, "translation-path facts")
    rules.append(r6)

    return finish(
        PROP, ctx, rules,
        "Literal tables and recogniser prefix/offset pairs from the syntax tree; per-constructor string shapes (SV) of both TypeScript-type "
        "renderers classified into the shape algebra and checked pairwise for operator precedence (finite 8×8 check = all depths by induction); "
        "splitter discipline; provenance of every TypeStructure and type text over MIR.",
        ["agreement of the documented table with real serde_json output", "64/128-bit integers exceeding JS number precision",
         "path-qualified spellings (std::collections::HashMap<..>) fall to Custom: recorded under C01-D4"],
        ["TypeScript's `[]` binds tighter than `|` (language definition)", "the README/statement table is the oracle for JSON shapes"])

"""C12 — one correctly named, correctly subscribed listener per emitted event.

  D1  TABLE   the expression walk covers every documented placement (statement, let initialiser, if/else, match arms, loop/while/for,
              nested blocks, under `?` and `.await`, receiver/arguments of method calls); every top-level fn is visited
  D2  TABLE   receiver heuristic: identifiers / fields named app, window, webview, and any method-call result
  D3  TABLE   emit(name, payload) / emit_to(target, name, payload); the name only from a string literal
  D4  TPATH   both listener templates: exactly one exported function per event, subscribed to '{{ event.eventName }}'
  D5  HAZARD  the function identifier is legal for every Tauri event name: all of '-', '/', ':' are mapped away
  D6  FLOW    one listener per distinct event name and per generated identifier (uniqueness steps before the template)
  D7  TABLE   payload typing: literal kinds, struct expressions, &x, x.clone(), symbol-table lookups keep the full type text; otherwise unknown
  D8  CTRL    events.ts is written under the sole guard `events not empty`
"""
import re

from common import Rule, V, finish
from mirlib import op_const, op_place, ENTRY_POINTS, short_path
from srclib import walk, walk_block, lit_str, expr_text, pat_text, pat_bindings
from tplpaths import Templates, consistent
from svlib import SVEval, render

PROP = "C12"
GEN_MODELS = "tauri_typegen::generators::base::BaseBindingsGenerator::generate_models"

WALK_ARMS = {  # Expr variant -> the sub-expressions that must be walked
    "MethodCall": ["<handle_method_call>"], "Block": ["block.stmts"], "If": ["then_branch.stmts", "else_branch"], "Match": ["arm.body"],
    "Loop": ["body.stmts"], "While": ["body.stmts"], "ForLoop": ["body.stmts"], "Await": ["base"], "Try": ["expr"],
}


def check_generics_kept_unconditionally(S, rule):
    """the event site's own type-to-text converter keeps the generic arguments of *every* path type: the branch that appends `<args>` depends only on
    there being arguments, never on the name of the type (a whitelist of containers silently turns the others into bare names).
    Shared by C12-D7 and C05-D6 (fourth sibling of the three type_to_string renderers)."""
    etn = find_type_namer(S)
    if etn is None:
        rule.bad(V(rule.id, "<anchor>", "missing:extract_type_name", "anchor not found"))
        return
    found = False
    for e in walk_block(etn.body, (etn.name,)):
        if e.get("k") != "if":
            continue
        fmts = [x for x in walk_block(e["then"], (etn.name,)) if x.get("k") == "macro" and x["name"] == "format" and x.get("args") and lit_str(x["args"][0]) and "<{}>" in lit_str(x["args"][0]).replace(" ", "")]
        if not fmts:
            continue
        if e["cond"].get("k") == "letcond":
            continue      # `if let AngleBracketed(args) = ..`: structural
        found = True
        ct = expr_text(e["cond"])
        named = [x for x in walk(e["cond"]) if (x.get("k") == "lit" and x["lit"]["t"] == "str") or (x.get("k") == "macro" and x["name"] == "matches")]
        # a boolean local computed from the name just before counts as well
        locals_ = [x["segs"][0] for x in walk(e["cond"]) if x.get("k") == "path" and len(x["segs"]) == 1]
        for st in etn.body if False else []:
            pass
        by_name_local = False
        for x in walk_block(etn.body):
            pass
        from srclib import stmt_exprs as _se, pat_bindings as _pb
        _seen_lists = set()

        def lets(stmts):
            if id(stmts) in _seen_lists:
                return          # a self-recursive helper that the walk looks through: its body was already visited
            _seen_lists.add(id(stmts))
            for st in stmts or []:
                if isinstance(st, dict) and st.get("k") == "let" and st.get("init") is not None:
                    yield st
                for e2 in (_se(st) if isinstance(st, dict) else []):
                    for y in walk(e2, (etn.name,)):
                        for key in ("then", "stmts", "body"):
                            v = y.get(key)
                            if isinstance(v, list):
                                yield from lets(v)
                        if y.get("k") == "match":
                            for arm in y["arms"]:
                                if arm["body"].get("k") == "block":
                                    yield from lets(arm["body"]["stmts"])
        for st in lets(etn.body):
            if set(_pb(st["pat"])) & set(locals_):
                if any((y.get("k") == "lit" and y["lit"]["t"] == "str") or (y.get("k") == "macro" and y["name"] == "matches") for y in walk(st["init"], (etn.name,))):
                    by_name_local = True
        if named or by_name_local:
            rule.bad(V(rule.id, "EventParser::extract_type_name", "generic-arguments-kept-by-name", "generic arguments are kept only under `%s`, a test on the type's name: any other generic type (BTreeMap<K, V>, a user type) degrades to its bare name at the event-payload site" % ct[:80]))
        else:
            rule.ok("extract_type_name keeps generic arguments whenever there are any (`%s`)" % ct[:50])
    if not found:
        rule.bad(V(rule.id, "EventParser::extract_type_name", "no-generic-branch", "no branch appends generic arguments"))


def check_event_uniqueness(P, r6):
    """one listener per event name and per generated identifier; shared by C12-D6 and C02-D5"""
    cec = P.find("TypeCollector::create_event_contexts")
    if not cec:
        r6.bad(V(r6.id, "<anchor>", "missing:create_event_contexts", "anchor not found"))
    else:
        f = cec[0]
        scope = [f] + [P.fns[k] for k in P.family(f.id) if "::{closure" in k]
        by_name = False
        by_fn = False
        for g in scope:
            for c in g.calls:
                sp = short_path(c.path)
                if sp in ("HashSet::insert", "HashSet::contains", "HashMap::insert", "HashMap::contains_key", "HashMap::entry", "BTreeSet::insert", "BTreeMap::entry", "HashMap::get"):
                    t = " ".join(g.describe_origin(g.origin(a), short=False, deep=3) for a in c.args[1:2])
                    if "EventInfo.event_name" in t:
                        by_name = True
                    if "ts_function_name" in t:
                        by_fn = True
        if by_name:
            r6.ok("events are made unique by event name")
        else:
            r6.bad(V(r6.id, f.id, "no-uniqueness-by-name", "no uniqueness step keyed on EventInfo.event_name: the same event emitted twice yields two listeners"))
        # the collision counter is read consistently with where it is incremented: (increment first, `> 1` / `>= 2`) or (compare first, `> 0` / `>= 1`)
        for g in scope:
            adds = []
            cmps = []
            for b, blk in enumerate(g.blocks):
                if b not in g.reach_blocks:
                    continue
                for st in blk["stmts"]:
                    rv = st.get("rv")
                    if not rv or rv["k"] != "bin":
                        continue
                    k1 = op_const(rv.get("b"))
                    if rv["op"] in ("AddWithOverflow", "Add", "AddUnchecked") and k1 and k1.get("int") == 1:
                        pa = op_place(rv.get("a"))
                        if pa and any(x["k"] == "deref" for x in pa.get("p", [])):
                            adds.append(b)
                    if rv["op"] in ("Gt", "Ge") and k1 and "int" in k1:
                        cmps.append((b, rv["op"], k1["int"]))
            for (cb, op, k) in cmps:
                for ab in adds:
                    inc_first = g.dominates(ab, cb) and ab != cb or (ab == cb)
                    thr = k if op == "Gt" else k - 1          # fires when counter > thr
                    want = 1 if inc_first and ab != cb or ab < cb else 0
                    if g.dominates(ab, cb):
                        want = 1
                    elif g.dominates(cb, ab):
                        want = 0
                    else:
                        continue
                    if thr == want:
                        r6.ok("collision counter: %s, suffix when counter %s %d" % ("incremented before the test" if want == 1 else "tested before the increment", op, k))
                    else:
                        r6.bad(V(r6.id, g.id, "collision-counter-off-by-one:%s%d:%s" % (op, k, "inc-first" if want == 1 else "test-first"),
                                 "the collision counter is %s but the suffix is applied when it is %s %d: the second listener with the same identifier is not renamed"
                                 % ("incremented before the test" if want == 1 else "tested before it is incremented", ">" if op == "Gt" else ">=", k)))
        if by_fn:
            r6.ok("generated identifiers are made unique")
        else:
            r6.bad(V(r6.id, f.id, "no-uniqueness-by-identifier", "no uniqueness step keyed on the generated function name: `ev-one` and `ev_one` both become onEvOne"))


def syn_method_names(S):
    """the literals `method_call.method` is tested against in EventParser::handle_method_call when the test is a closed membership test
    (matches!, CONST.contains, a membership helper over a constant table): frozenset, empty when there is no such test"""
    fn = S.fn("EventParser", "handle_method_call")
    if fn is None or fn.body is None:
        return frozenset()
    from srclib import literal_set_guard

    def conjuncts(e):
        while isinstance(e, dict) and e.get("k") == "paren":
            e = e["expr"]
        if isinstance(e, dict) and e.get("k") == "binary" and e.get("op") == "&&":
            return conjuncts(e["left"] if "left" in e else e.get("l")) + conjuncts(e["right"] if "right" in e else e.get("r"))
        return [e] if isinstance(e, dict) else []
    out = set()
    for x in walk_block(fn.body):
        if x.get("k") == "if" and isinstance(x.get("cond"), dict):
            for cj in conjuncts(x["cond"]):
                g = literal_set_guard(S, cj)
                if g is not None and re.search(r"\.method\b", g[0]):
                    out |= set(g[1])
    return frozenset(out)


def find_type_namer(S):
    """the function that turns the syn::Type of a parameter / annotated binding into the text kept in the event parser's symbol table:
    EventParser::extract_type_name, or — after a move / rename — the one new function `(&syn::Type) -> String` of the analysis modules"""
    fn = S.fn("EventParser", "extract_type_name")
    if fn is not None and fn.name == "extract_type_name":
        return fn
    import srclib as _sl
    cands = []
    for g in _sl._NEW_HELPERS.values():
        if g.body is None or re.sub(r"\s+", "", g.sig.get("ret") or "") != "String" or "src/analysis/" not in g.file:
            continue
        ps = [p_ for p_ in g.sig.get("params", []) if not p_.get("self")]
        if len(ps) == 1 and re.fullmatch(r"&(syn::)?Type", re.sub(r"\s+", "", ps[0].get("ty") or "")):
            cands.append(g)
    return cands[0] if len(cands) == 1 else None


def check_every_emit_recorded(P, rule):
    """an emit is recorded whatever was recorded before it: the push of an EventInfo is not guarded by a look at the list being built (the listeners
    are made unique later, by name, in the generator — but the *payload types* of every emit are roots of the declared set).  Shared by C12-D3 and C07-D1."""
    n = 0
    for fid in sorted(P.fns):
        if not fid.startswith("tauri_typegen::analysis::event_parser::") or "{promoted#" in fid:
            continue
        f = P.fns[fid]
        for c in f.calls:
            if short_path(c.path) != "Vec::push" or c.bb not in f.reach_blocks or not any("EventInfo" in g_ for g_ in c.generics):
                continue
            n += 1
            recv = f.origin(c.args[0])
            while recv[0] == "proj":
                recv = recv[1]
            bad = []
            for (a, lab) in f.edge_dominators(c.bb):
                o, out = f.cond_struct(a, lab)
                txt = f.describe_origin(o, deep=5)
                if recv[0] == "arg" and re.search(r"\barg:%s\b" % re.escape(recv[2]), txt):
                    bad.append("%s=%s" % (txt[:80], out))
            if bad:
                rule.bad(V(rule.id, fid, "emit-recording-depends-on-earlier-emits", "an emit is recorded only under %s: what was recorded earlier decides whether this emit (and its payload type) is seen at all"
                           % "; ".join(bad), c.file, c.line))
            else:
                rule.ok("%s: every recognised emit is recorded, whatever was recorded before" % short_path(fid))
    if not n:
        rule.bad(V(rule.id, "<anchor>", "missing:event-recording-site", "no push of an EventInfo found in the event parser"))


def check_namer_tuple_syntax(S, ev, rule):
    """the text the event parser's type namer writes for a tuple type is read back by TypeResolver::parse_type_structure, whose tuple form is
    `(` elements separated by `,` `)`: the namer's Type::Tuple arm must produce exactly that bracket pair (any other pair, `[A, B]`, is an
    unknown custom type to the resolver and is printed untranslated)."""
    etn = find_type_namer(S)
    if etn is None:
        return
    n = 0
    for cond, sv in ev.fn_paths(etn, None, lambda n_: None):
        if not any("Type::Tuple" in str(c_) for c_ in cond):
            continue
        r_ = render(sv)
        if r_ in ("unknown",) or "(" not in r_ and "[" not in r_ and "⟨" not in r_:
            continue        # (a namer that delegates the arm elsewhere / does not build the text itself)
        n += 1
        if r_.startswith("(") and r_.endswith(")") and "," in r_:
            rule.ok("type namer: tuples are written as %s" % r_)
        else:
            rule.bad(V(rule.id, "%s::%s" % (etn.owner, etn.name), "tuple-syntax:%s" % re.sub(r"[^\[\](){}<>,]", "", r_)[:12],
                       "the type namer writes a tuple type as `%s`: the type resolver only reads `(A, B)` as a tuple, anything else stays an "
                       "untranslated custom type in the listener's payload type" % r_))
    return n


def check_init_type_selector(P, rule):
    """`let n = Notice::new(..)`: the type recorded for the variable is the path's leading segment; the function guards the selection with
    `segments.len() >= 2`, under which every constant index other than 0 names (for the two-segment form the README documents) the constructor
    function instead of the type.  Decided on the type-checked body: constant indices into the segment list."""
    fs = [f for f in P.find("EventParser::infer_type_from_init") if f.id.endswith("infer_type_from_init")]
    n = 0
    for f in fs:
        for c in f.calls:
            if c.bb in f.reach_blocks and c.name == "index" and c.trait == "std::ops::Index" and len(c.args) > 1 and "Punctuated" in (c.self_ty or "") + " ".join(c.generics or []):
                k = op_const(c.args[1])
                if k is None or "int" not in k:
                    continue
                n += 1
                # ... and the form is recognised from two segments on (`Type::new()` is the documented case): the lower bound on the
                # segment count under which the selection happens
                lo = None
                for mc in f.must_conditions(c.bb):
                    m_ = re.match(r"\(call Punctuated::len\(\) (Ge|Gt|Ne|Eq|Lt|Le) (\d+)\)=(true|false)$", mc)
                    if m_:
                        op_, k_, tv = m_.group(1), int(m_.group(2)), m_.group(3) == "true"
                        b_ = {("Ge", True): k_, ("Gt", True): k_ + 1, ("Lt", False): k_, ("Le", False): k_ + 1, ("Eq", True): k_}.get((op_, tv))
                        if b_ is not None:
                            lo = b_ if lo is None else max(lo, b_)
                if lo is not None and lo != 2:
                    rule.bad(V(rule.id, f.id, "init-type-segment-count:%d" % lo, "`let v = Type::ctor(..)` is recognised only from %d path segments on (expected 2): "
                               "%s" % (lo, "`Type::new()` no longer types the variable" if lo > 2 else "a plain `make()` call types the variable with the function name"), c.file, c.line))
                elif lo == 2:
                    rule.ok("infer_type_from_init: Type::ctor(..) recognised from two segments on")
                if k["int"] != 0:
                    rule.bad(V(rule.id, f.id, "init-type-from-segment:%s" % k["int"], "the type of `let v = Type::ctor(..)` is read from path segment %s: for "
                               "`Type::new()` that is the function name, not the type" % k["int"], c.file, c.line))
                else:
                    rule.ok("infer_type_from_init: Type::ctor(..) records path segment 0")
    # a struct expression `events::Notice { .. }` is typed by the *last* segment of its path (the struct), in both inference functions
    for nm in ("EventParser::infer_type_from_init", "EventParser::infer_payload_type"):
        for f in [f_ for f_ in P.find(nm) if f_.id.endswith(nm.split("::")[-1])]:
            for c in f.calls:
                if c.bb not in f.reach_blocks or "Punctuated" not in (c.self_ty or "") + c.path:
                    continue
                if not any(re.search(r"=Struct$", m_) for m_ in f.must_conditions(c.bb)):
                    continue
                sel = None
                if c.name in ("first", "last"):
                    sel = c.name
                elif c.name == "index" and len(c.args) > 1 and op_const(c.args[1]) and "int" in op_const(c.args[1]):
                    sel = "[%d]" % op_const(c.args[1])["int"]
                if sel is None:
                    continue
                n += 1
                if sel == "last":
                    rule.ok("%s: a struct expression is typed by the last path segment" % nm.split("::")[-1])
                else:
                    rule.bad(V(rule.id, f.id, "struct-expr-type-from:%s" % sel, "%s types the payload `module::Type { .. }` with path segment %s: "
                               "that is the module, not the struct" % (nm.split("::")[-1], sel), c.file, c.line))
    return n


def check_annotated_bindings(P, r7):
    """shared by C12-D7 and C05-D6"""
    # `let x: T = init` records T: where the pattern carries an annotation, what is recorded comes from the annotation alone — the initialiser
    # (`Vec::new()`, `Default::default()`) only names a constructor, it would turn `let batch: Vec<Tag> = Vec::new()` into the type `Vec`
    for g in P.find("EventParser::extract_local_binding") + [P.fns[k_] for k_ in P.fns if k_.endswith("symbol_table::record_local_binding")]:
        fam_calls = {short_path(c2.best).split("::")[-1] for k2 in P.family(g.id) if "::{closure" in k2 for c2 in P.fns[k2].calls}
        n_ann = 0
        for c in g.calls:
            if short_path(c.path) != "HashMap::insert" or c.bb not in g.reach_blocks or len(c.args) < 3:
                continue
            conds = g.must_conditions(c.bb)
            if any(re.search(r"Local\.pat\.deref=Ident$", x) for x in conds):
                continue        # the unannotated form `let x = init`
            n_ann += 1
            fed = {x.split("::")[-1] for x in g.feeding_calls(c.args[2], depth=7)}
            through_closure = fed & {"map", "filter", "or_else", "or", "and_then", "unwrap_or_else", "map_or", "map_or_else", "unwrap_or"}
            if "infer_type_from_init" in fed or (through_closure and "infer_type_from_init" in fam_calls):
                r7.bad(V(r7.id, g.id, "annotated-binding-typed-from-initialiser", "a binding whose pattern may carry a type annotation is recorded with a type that can come from the "
                         "initialiser (%s): `let batch: Vec<Tag> = Vec::new()` is typed `Vec`" % sorted(fed)[:6], c.file, c.line))
            else:
                r7.ok("%s: annotated bindings are recorded from the annotation" % short_path(g.id))
        if not n_ann:
            r7.bad(V(r7.id, g.id, "annotated-binding-not-recorded", "no recording site handles `let x: T = ..`"))


def check_symbol_table_keys(P, rule):
    """writer/reader agreement of the event parser's variable→type table: the spelling under which a parameter or binding is recorded is the spelling
    under which the payload variable is looked up (both the identifier's text, or both its unraw()'d text).  Recorded one way and looked up the other,
    a variable named `r#move` is never found and its *name* is emitted as the payload type.  Shared by C12-D7 and C01-D4."""
    SPELL = {"unraw", "to_lowercase", "to_uppercase", "trim", "trim_start_matches", "trim_matches", "replace", "to_ascii_lowercase"}
    forms = {"insert": set(), "get": set()}
    n = 0
    for fid in sorted(P.fns):
        if not fid.startswith("tauri_typegen::analysis::event_parser::") and not fid.startswith("tauri_typegen::analysis::symbol_table::") or "{promoted#" in fid:
            continue
        f = P.fns[fid]
        for c in f.calls:
            if c.bb not in f.reach_blocks or short_path(c.path) not in ("HashMap::insert", "HashMap::get", "HashMap::contains_key") or len(c.args) < 2:
                continue
            if c.generics[:2] != ["std::string::String", "std::string::String"]:
                continue
            n += 1
            fed = f.feeding_calls(c.args[1], depth=7)
            form = tuple(sorted(x.split("::")[-1] for x in fed if x.split("::")[-1] in SPELL))
            forms["insert" if c.name == "insert" else "get"].add(form)
    if not forms["insert"] or not forms["get"]:
        rule.bad(V(rule.id, "<anchor>", "missing:symbol-table-sites", "writers or readers of the event parser's symbol table not found (%d sites)" % n))
    elif forms["insert"] == forms["get"] and len(forms["insert"]) == 1:
        rule.ok("symbol table: recorded and looked up under the same spelling (%s)" % (", ".join(next(iter(forms["insert"]))) or "identifier text"))
    else:
        rule.bad(V(rule.id, "EventParser", "symbol-key-spelling:%s≠%s" % (sorted(forms["insert"]), sorted(forms["get"])),
                   "variables are recorded under %s but looked up under %s: a raw-identifier variable (r#move) is never found and its name is emitted as the payload type"
                   % (sorted(forms["insert"]), sorted(forms["get"]))))


def check(ctx):
    P = ctx.P
    S = ctx.S
    T = Templates(S)
    ev = SVEval(S)
    reach = P.reachable(ENTRY_POINTS)
    rules = []

    # ---------------------------------------------------------------- D1
    r1 = Rule("C12-D1-walk-coverage", "D1",
              "extract_events_from_expr has an arm for MethodCall, Block, If (then and else), Match (every arm), Loop, While, ForLoop, Await and Try that "
              "recurses into the listed sub-expressions; handle_method_call recurses into the receiver and every argument; statements: expression "
              "statements and let initialisers; every top-level fn of the file is walked",
              "a missing arm (or a missing else-branch recursion) hides emit calls at that placement")
    fn = S.fn("EventParser", "extract_events_from_expr")
    if fn is None:
        r1.bad(V(r1.id, "<anchor>", "missing:extract_events_from_expr", "anchor not found"))
    else:
        m = [e for e in walk_block(fn.body) if e.get("k") == "match" and expr_text(e["expr"]) == "expr"]
        arms = {}
        if m:
            for arm in m[0]["arms"]:
                pt = pat_text(arm["pat"])
                mm = re.match(r"Expr::(\w+)\((\w+)\)", pt)
                if mm:
                    arms[mm.group(1)] = (mm.group(2), arm["body"])
        for variant, needs in WALK_ARMS.items():
            if variant not in arms:
                r1.bad(V(r1.id, "EventParser::extract_events_from_expr", "no-arm:%s" % variant, "emit calls inside Expr::%s are not found" % variant))
                continue
            bind, body = arms[variant]
            calls = [x for x in walk(body) if x.get("k") == "mcall" and expr_text(x["recv"]) == "self"]
            argtxt = [re.sub(r"^&", "", expr_text(c["args"][0])) for c in calls if c["args"]]
            loops = {pat_text(x["pat"]): expr_text(x["iter"]) for x in walk(body) if x.get("k") == "for"}
            for need in needs:
                if need == "<handle_method_call>":
                    ok = any(c["method"] == "handle_method_call" for c in calls) or "EventParser::handle_method_call" in getattr(S, "relocated", {}) \
                        or S.fn("EventParser", "handle_method_call") is not None and S.fn("EventParser", "handle_method_call").name != "handle_method_call"
                elif need == "arm.body":
                    ok = any(a.endswith(".body") and a.split(".")[0] in loops and loops[a.split(".")[0]].endswith(bind + ".arms") for a in argtxt)
                elif need == "else_branch":
                    ok = any(a == "else_branch" for a in argtxt) and "else_branch" in expr_text(body) or any("else_branch" in a for a in argtxt)
                else:
                    ok = any(a == "%s.%s" % (bind, need) or a.endswith("." + need) and a.startswith(bind + ".") for a in argtxt)
                if ok:
                    r1.ok("Expr::%s → %s" % (variant, need))
                else:
                    r1.bad(V(r1.id, "EventParser::extract_events_from_expr", "no-recursion:%s:%s" % (variant, need), "the Expr::%s arm does not walk %s (walks %s)" % (variant, need, argtxt)))
    hm = S.fn("EventParser", "handle_method_call")
    if hm is None:
        r1.bad(V(r1.id, "<anchor>", "missing:handle_method_call", "anchor not found"))
    else:
        calls = [x for x in walk_block(hm.body) if x.get("k") == "mcall" and x["method"] == "extract_events_from_expr" and x["args"]]
        args = [re.sub(r"^&", "", expr_text(c["args"][0])) for c in calls]
        loops = {pat_text(x["pat"]): expr_text(x["iter"]) for x in walk_block(hm.body) if x.get("k") == "for"}
        # `let args = &method_call.args; for arg in args`: the loop's collection through a local alias
        from srclib import stmt_exprs as _se2
        aliases = {}
        for x in walk_block(hm.body):
            for key_ in ("then", "stmts", "body"):
                for st_ in (x.get(key_) if isinstance(x.get(key_), list) else []):
                    if isinstance(st_, dict) and st_.get("k") == "let" and (st_.get("pat") or {}).get("k") == "ident" and st_.get("init") is not None:
                        aliases[st_["pat"]["name"]] = expr_text(st_["init"]).lstrip("&")
            if x.get("k") == "match":
                for arm_ in x["arms"]:
                    if arm_["body"].get("k") == "block":
                        for st_ in arm_["body"]["stmts"]:
                            if st_.get("k") == "let" and (st_.get("pat") or {}).get("k") == "ident" and st_.get("init") is not None:
                                aliases[st_["pat"]["name"]] = expr_text(st_["init"]).lstrip("&")
        loops = {k_: aliases.get(v_.lstrip("&"), v_) for k_, v_ in loops.items()}
        recv_ok = any(a.endswith(".receiver") for a in args)
        args_ok = any(a in loops and loops[a].endswith(".args") for a in args)
        if recv_ok and args_ok:
            r1.ok("handle_method_call recurses into the receiver and every argument")
        else:
            r1.bad(V(r1.id, "EventParser::handle_method_call", "recursion:receiver=%s,args=%s" % (recv_ok, args_ok), "method calls: receiver walked=%s, arguments walked=%s" % (recv_ok, args_ok)))
        # the recursion is unconditional (not only for emit calls)
    st = S.fn("EventParser", "extract_events_from_stmt")
    if st is None:
        # the statement walk folded into the block walk (the helper was inlined into its only caller): same arms, one function up
        blk_ = S.fn("EventParser", "extract_events_from_block")
        if blk_ is not None and any(e.get("k") == "match" and any("Stmt::" in pat_text(a["pat"]) for a in e["arms"]) for e in walk_block(blk_.body)):
            st = blk_
    if st is not None:
        m = [e for e in walk_block(st.body) if e.get("k") == "match" and any("Stmt::" in pat_text(a["pat"]) for a in e["arms"])] or [e for e in walk_block(st.body) if e.get("k") == "match"]
        pats = [pat_text(a["pat"]) for a in m[0]["arms"]] if m else []
        has_expr = any(p.startswith("syn::Stmt::Expr") or p.startswith("Stmt::Expr") for p in pats)
        has_local = any("Stmt::Local" in p for p in pats)
        init = any(x.get("k") == "mcall" and x["method"] == "extract_events_from_expr" and "init" in expr_text(x["args"][0]) for x in walk_block(st.body))
        if has_expr and has_local and init:
            r1.ok("statements: expression statements and let initialisers")
        else:
            r1.bad(V(r1.id, "EventParser::extract_events_from_stmt", "stmt-coverage:expr=%s,local=%s,init=%s" % (has_expr, has_local, init), "statement coverage: expr=%s let=%s initialiser=%s" % (has_expr, has_local, init)))
    else:
        r1.bad(V(r1.id, "<anchor>", "missing:extract_events_from_stmt", "anchor not found"))
    ea = P.find("EventParser::extract_events_from_ast")
    for f in ea:
        cs = [c for c in f.calls if short_path(c.best) == "EventParser::extract_events_from_block"]
        for c in cs:
            extra = []
            for (bb, keep, lose) in f.filters_in_iteration(c.bb):
                o, _ = f.cond_struct(bb, keep[0])
                if o[0] in ("proj", "arg", "multi") or (o[0] == "call" and o[1].name == "next"):
                    continue
                extra.append(short_path(o[1].best) if o[0] == "call" else o[0])
            if extra:
                r1.bad(V(r1.id, f.id, "fn-filters:%s" % ",".join(extra), "branches on %s skip some top-level functions" % extra, c.file, c.line))
            else:
                r1.ok("every top-level fn body is walked")
    r1.require_floor(12, "walk facts")
    rules.append(r1)

    # ---------------------------------------------------------------- D2
    r2 = Rule("C12-D2-receiver-heuristic", "D2",
              "is_likely_tauri_emitter accepts an identifier or a field named app, window or webview, and any method-call result",
              "dropping a documented receiver form loses the events emitted through it")
    fn = S.fn("EventParser", "is_likely_tauri_emitter")
    if fn is None:
        r2.bad(V(r2.id, "<anchor>", "missing:is_likely_tauri_emitter", "anchor not found"))
    else:
        m = [e for e in walk_block(fn.body) if e.get("k") == "match" and expr_text(e["expr"]) == "receiver"]
        got = {}
        if m:
            for arm in m[0]["arms"]:
                pt = pat_text(arm["pat"])
                mm = re.match(r"Expr::(\w+)", pt)
                if not mm:
                    continue
                names = set()
                for x in walk(arm["body"]):
                    if x.get("k") == "binary" and x["op"] == "==":
                        for side in (x["l"], x["r"]):
                            s_ = lit_str(side)
                            if s_ and expr_text(x["l"] if side is x["r"] else x["r"]) == "name":
                                names.add(s_)
                    # the same names as a closed literal set in any spelling (matches!, TABLE.contains(..), a membership helper over a constant table)
                    from srclib import literal_set_guard as _lsg
                    g_ = _lsg(S, x)
                    if g_ is not None and x.get("k") in ("macro", "mcall", "call"):
                        names |= set(g_[1])
                always = arm["body"].get("k") == "lit" and arm["body"]["lit"].get("v") is True or (arm["body"].get("k") == "block" and any(s.get("k") == "expr" and s["e"].get("k") == "lit" and s["e"]["lit"].get("v") is True for s in arm["body"]["stmts"]))
                got[mm.group(1)] = (names, always)
                # "a field named app, window or webview" is a statement about the member alone: the arm must not look at what the field is
                # read off (seed C12/n: chains such as services.handles.window.emit(..) were dropped by a test on field_expr.base)
                if mm.group(1) == "Field":
                    binds = re.findall(r"\((\w+)\)", pt)
                    based = sorted({x["member"] for x in walk(arm["body"]) if x.get("k") == "field" and x.get("member") in ("base", "dot_token")
                                    and expr_text(x["base"]).lstrip("&*(").rstrip(")") in binds})
                    if "base" in based:
                        r2.bad(V(r2.id, "EventParser::is_likely_tauri_emitter", "field-receiver-depends-on-base",
                                 "the Field arm inspects %s.base: whether `x.y.window.emit(..)` is an emit then depends on the chain before the member, "
                                 "and handles reached through a longer chain lose their events" % (binds[0] if binds else "<field>")))
                    else:
                        r2.ok("Expr::Field: verdict is a function of the member only")
        need = {"app", "window", "webview"}
        for v in ("Path", "Field"):
            names = got.get(v, (set(), False))[0]
            if need <= names:
                r2.ok("Expr::%s: names %s" % (v, sorted(names)))
            else:
                r2.bad(V(r2.id, "EventParser::is_likely_tauri_emitter", "receiver-names:%s:%s" % (v, ",".join(sorted(need - names))), "%s receivers named %s are not recognised" % (v, sorted(need - names))))
        if got.get("MethodCall", (set(), False))[1]:
            r2.ok("Expr::MethodCall: always accepted")
        else:
            r2.bad(V(r2.id, "EventParser::is_likely_tauri_emitter", "method-call-receiver", "method-call results are not accepted as emitters"))
    # the heuristic is the only receiver test: in handle_method_call nothing but the method name (emit / emit_to) and is_likely_tauri_emitter
    # decides whether an emit call is extracted (a second opinion — declared type, symbol table, arity — silently narrows the documented forms)
    hm = P.find("EventParser::handle_method_call")
    n_sites = 0
    folded = not P.find("EventParser::extract_emit_event") or all(g_.id.split("::")[-1] != "extract_emit_event" for g_ in P.find("EventParser::extract_emit_event"))
    for f in hm:
        for c in f.calls:
            if folded:
                # extract_emit_event was folded into its caller: the extraction starts where the event name is read from the arguments
                if short_path(c.best) != "EventParser::extract_string_literal" or c.bb not in f.reach_blocks:
                    continue
            elif short_path(c.best) != "EventParser::extract_emit_event" or c.bb not in f.reach_blocks:
                continue
            n_sites += 1
            extra = []
            seen_h = False

            def lit_of(call, i):
                """string literal behind argument i (a literal compared by reference is a promoted constant of this body)"""
                s_ = call.arg_str(i)
                if s_ is not None:
                    return s_
                k_ = call.const_arg(i)
                if k_ and "promoted" in k_:
                    pb = P.fns.get("%s::{promoted#%d}" % (f.id, k_["promoted"]))
                    strs = pb.const_strs() if pb else []
                    return strs[0] if len(strs) == 1 else None
                return None
            state = {"h": False}

            def judge(effect_bb, depth=0):
                """conditions that can divert control away from effect_bb: each must be an accepted one; a bool that merely materialises such
                conditions (`matches!(name, "emit" | "emit_to")`, `let ok = a && b`) is looked through"""
                out_ = []
                for (bb, keep, lose) in f.filter_branches(0, effect_bb):
                    for lab in keep:
                        o, outcome = f.cond_struct(bb, lab)
                        if o[0] == "call" and o[1].name in ("eq", "ne") and (lit_of(o[1], 1) in ("emit", "emit_to") or lit_of(o[1], 0) in ("emit", "emit_to")):
                            continue
                        if o[0] == "call" and o[1].name == "any" and outcome == "true" and syn_method_names(S) == {"emit", "emit_to"}:
                            # the same test through a membership helper over a constant table (`ident_in(&call.method, &EMIT_METHODS)`, spliced
                            # in): the closure handed to any() compares the call's method identifier
                            clo = f.origin(o[1].args[1]) if len(o[1].args) > 1 else ("?",)
                            caps = clo[1].get("ops", []) if clo[0] == "aggr" and isinstance(clo[1], dict) else []
                            if any("ExprMethodCall.method" in f.describe_origin(f.origin(a_), deep=3) for a_ in caps):
                                continue
                        if outcome == "MethodCall" or (folded and o[0] == "multi" and outcome in ("true", "false") and False):
                            continue            # (being in the method-call arm of the expression walk at all)
                        if o[0] == "call" and short_path(o[1].best) == "EventParser::is_likely_tauri_emitter" and outcome == "true" \
                                and "ExprMethodCall.receiver" in f.describe_origin(f.origin(o[1].args[-1]), deep=2):
                            state["h"] = True
                            continue
                        # an arity test that extract_emit_event's own length guards imply (emit needs 2 arguments, emit_to 3) decides nothing new
                        if o[0] == "bin" and o[1] in ("Ge", "Gt", "Ne", "Lt", "Le", "Eq"):
                            sides = [o[2], o[3]]
                            lens = [x for x in sides if x[0] == "call" and x[1].name == "len" and "ExprMethodCall.args" in f.describe_origin(f.origin(x[1].args[0]), deep=2)]
                            consts = [x[1].get("int") for x in sides if x[0] == "const" and isinstance(x[1], dict) and "int" in x[1]]
                            if len(lens) == 1 and not consts and folded:
                                continue        # an arity test against a computed position (`args.len() > name_position + 1`): judged path by path in D3
                            if len(lens) == 1 and len(consts) == 1 and sides[0] is lens[0]:
                                n_ = int(consts[0])
                                kept = {("Ge", "true"): n_ <= 2, ("Gt", "true"): n_ <= 1, ("Ne", "true"): n_ == 0, ("Lt", "false"): n_ <= 2, ("Le", "false"): n_ <= 1, ("Eq", "false"): n_ == 0}
                                if kept.get((o[1], outcome)):
                                    continue
                        # a bool local that is assigned constants under conditions: judge the conditions under which it gets the kept value
                        if o[0] == "multi" and depth < 3 and outcome in ("true", "false"):
                            sw = f.blocks[bb]["term"]
                            pl = sw["discr"].get("copy") or sw["discr"].get("move") if isinstance(sw.get("discr"), dict) else None
                            defs_ = f.defs.get(pl["l"], []) if pl and not pl.get("p") else []
                            want_ = outcome == "true"
                            tb = [d[1] for d in defs_ if d[0] == "stmt" and d[3]["k"] == "use" and (d[3]["op"].get("const") or {}).get("bool") is want_]
                            if defs_ and tb and all(d[0] == "stmt" and d[3]["k"] == "use" and "bool" in (d[3]["op"].get("const") or {}) for d in defs_):
                                for t_ in tb:
                                    out_.extend(judge(t_, depth + 1))
                                continue
                        out_.append("%s=%s" % (f.describe_origin(o)[:60], outcome))
                return out_
            extra = judge(c.bb)
            seen_h = state["h"]
            if extra or not seen_h:
                r2.bad(V(r2.id, f.id, "extraction-guard:%s" % (";".join(sorted(set(extra))) or "no-heuristic"),
                         "whether an emit call is extracted depends on more (or other) than the method name and is_likely_tauri_emitter(receiver): %s" % (extra or "the heuristic is not consulted"), c.file, c.line))
            else:
                r2.ok("handle_method_call: extraction guarded by the method name and the receiver heuristic only")
    if not n_sites:
        r2.bad(V(r2.id, "<anchor>", "missing:extract_emit_event-call", "anchor not found: handle_method_call does not call extract_emit_event"))
    r2.require_floor(4, "receiver forms + extraction guard")
    rules.append(r2)

    # ---------------------------------------------------------------- D3
    r3 = Rule("C12-D3-argument-positions", "D3",
              "extract_emit_event takes (name, payload) = (args[0], args[1]) for emit and (args[1], args[2]) for emit_to, under length guards, and "
              "the name only from a string literal (Lit::Str value)",
              "taking the target label of emit_to as the event name subscribes the listener to the wrong event")
    fn = S.fn("EventParser", "extract_emit_event")
    if fn is None:
        r3.bad(V(r3.id, "<anchor>", "missing:extract_emit_event", "anchor not found"))
    else:
        # decided path by path on the type-checked body (helpers spliced in): on every path that records an event, the argument taken for the
        # name and the one taken for the payload are args[1], args[2] when the method is emit_to and args[0], args[1] otherwise, and the
        # dominating length test admits that payload index — whether the indices are literals or computed (`name_index + 1`)
        from rulelib import enumerate_paths, path_int_env
        tuples = set()
        bad_paths = []
        n_paths = 0
        for f in P.find("EventParser::extract_emit_event"):
            pushes = [c for c in f.calls if short_path(c.path) == "Vec::push" and "EventInfo" in " ".join(c.generics + [c.self_ty or ""]) and c.bb in f.reach_blocks]
            for pc in pushes:
                for path in enumerate_paths(f, pc.bb):
                    env, calls, conds = path_int_env(f, path)
                    is_to = None
                    for (b_, o, outcome, cmpv) in conds:
                        if o[0] == "call" and o[1].name in ("eq", "ne") and len(o[1].args) == 2 and "emit_to" in (o[1].arg_lit(0, P), o[1].arg_lit(1, P)):
                            is_to = (outcome == "true") == (o[1].name == "eq")
                    idxs = [vals[1] for (b_, c, vals) in calls if c is not None and c.path == "std::ops::Index::index" and "Punctuated" in (c.self_ty or "") + " ".join(c.generics) and len(vals) > 1]
                    lens = []
                    for (b_, o, outcome, cmpv) in conds:
                        if cmpv and o[0] == "bin":
                            op_, a_op, a_v, b_op, b_v = cmpv
                            la = f.origin(a_op)
                            lb = f.origin(b_op)
                            if la[0] == "call" and la[1].name == "len" and b_v is not None:
                                n_ = {("Ge", "true"): b_v, ("Gt", "true"): b_v + 1, ("Lt", "false"): b_v, ("Le", "false"): b_v + 1, ("Eq", "true"): b_v}.get((op_, outcome))
                                if n_ is not None:
                                    lens.append(n_)
                            elif lb[0] == "call" and lb[1].name == "len" and a_v is not None:
                                n_ = {("Le", "true"): a_v, ("Lt", "true"): a_v + 1, ("Gt", "false"): a_v, ("Ge", "false"): a_v + 1, ("Eq", "true"): a_v}.get((op_, outcome))
                                if n_ is not None:
                                    lens.append(n_)
                    n_paths += 1
                    tup = (is_to, tuple(idxs), max(lens) if lens else 0)
                    tuples.add(tup)
                    want = (1, 2) if is_to else (0, 1)
                    if is_to is None or tuple(idxs) != want or tup[2] < want[1] + 1:
                        bad_paths.append(tup)
        okp = n_paths > 0 and not bad_paths and {t[0] for t in tuples} == {True, False}
        if okp:
            r3.ok("emit_to → (args[1], args[2]); emit → (args[0], args[1])")
        else:
            r3.bad(V(r3.id, "EventParser::extract_emit_event", "positions:%s" % sorted(bad_paths or tuples, key=str)[:4], "argument positions (emit_to?, indices, admitted length) per recording path are %s" % sorted(tuples, key=str)))
    hmf = S.fn("EventParser", "handle_method_call")
    if hmf is not None:
        # the literals the method name is compared with (==, matches!, match: all are str equality calls in the type-checked program)
        names = set()
        for f in P.find("EventParser::handle_method_call"):
            for c in f.calls:
                if c.name in ("eq", "ne") and len(c.args) == 2 and c.bb in f.reach_blocks:
                    for i in (0, 1):
                        s_ = c.arg_str(i)
                        if s_ is None:
                            k_ = c.const_arg(i)
                            if k_ and "promoted" in k_:
                                pb = P.fns.get("%s::{promoted#%d}" % (f.id, k_["promoted"]))
                                strs = pb.const_strs() if pb else []
                                s_ = strs[0] if len(strs) == 1 else None
                        if s_ is not None and "ExprMethodCall.method" in f.describe_origin(f.origin(c.args[1 - i]), deep=3):
                            names.add(s_)
        if not names:
            names = set(syn_method_names(S))    # the method test written as membership in a constant table
        if names == {"emit", "emit_to"}:
            r3.ok("methods: emit, emit_to")
        else:
            r3.bad(V(r3.id, "EventParser::handle_method_call", "methods:%s" % ",".join(sorted(names)), "recognised emit methods are %s" % sorted(names)))
    esl = S.fn("EventParser", "extract_string_literal")
    if esl is not None:
        import json as _json
        t = " ".join(pat_text(e["pat"]) for e in walk_block(esl.body) if e.get("k") == "letcond")
        # (the same test written as one match arm with a nested pattern: `Expr::Lit(ExprLit { lit: Lit::Str(s), .. }) => Some(s.value())`)
        raw = _json.dumps([e["pat"] for e in walk_block(esl.body) if e.get("k") == "letcond"] + [a_["pat"] for e in walk_block(esl.body) if e.get("k") == "match" for a_ in e["arms"]])
        if re.search(r'"Lit", "Str"\]', raw):
            t += " Lit::Str"
        if "Lit::Str" in t and ".value()" in " ".join(expr_text(e) for e in walk_block(esl.body)):
            r3.ok("event name = Lit::Str value")
        else:
            r3.bad(V(r3.id, "EventParser::extract_string_literal", "name-source", "the event name is not taken from a string literal's value"))
    check_every_emit_recorded(P, r3)
    r3.require_floor(3, "position facts")
    rules.append(r3)

    # ---------------------------------------------------------------- D4
    r4 = Rule("C12-D4-subscription", "D4",
              "both event_listener templates emit exactly one `export async function {{ event.tsFunctionName }}` whose body calls "
              "listen<..>('{{ event.eventName }}', ..); events.ts loops over `events` unfiltered",
              "subscribing to the function name (or a filtered loop) disconnects listeners from the emitted event")
    for mode in ("typescript", "zod"):
        name = "%s/partials/event_listener.ts.tera" % mode
        for p in T.paths(name) or []:
            flat = p.flat()
            nf = len(re.findall(r"export\s+async\s+function\s+⟦event\.tsFunctionName⟧\s*\(", flat))
            nall = len(re.findall(r"export\s+(async\s+)?function\b", flat))
            ls = re.findall(r"\blisten<[^(]*>\(\s*([^,]*),", flat)
            if nf == 1 and nall == 1 and [x.strip() for x in ls] == ["'⟦event.eventName⟧'"]:
                r4.ok("%s: one function, listen('⟦event.eventName⟧')" % name)
            else:
                r4.bad(V(r4.id, name, "listener:fn=%d/%d:listen=%s" % (nf, nall, "|".join(x.strip() for x in ls)), "listener template emits %d/%d functions subscribed to %s" % (nf, nall, ls)))
        main = "%s/events.ts.tera" % mode
        for p in T.paths(main) or []:
            loops = [it for it in p.items if it[0] == "loop"]
            if len(loops) == 1 and loops[0][2] == "events" and all(re.search(r"export\s+async\s+function", bp.flat()) for bp in loops[0][3]):
                r4.ok("%s: one unfiltered loop over events" % main)
            else:
                r4.bad(V(r4.id, main, "events-loop:%s" % ",".join(it[2] for it in loops), "events.ts does not loop over `events` unfiltered"))
    r4.require_floor(4, "listener templates")
    rules.append(r4)

    # ---------------------------------------------------------------- D5
    r5 = Rule("C12-D5-legal-identifier", "D5",
              "event_name_to_function maps every character Tauri allows in event names but JavaScript does not allow in identifiers ('-', '/', ':') "
              "to a separator before PascalCasing (either an explicit replacement of each, or a character-class test that keeps only alphanumerics/_)",
              "`user:created/x-y` must not become `onUser:created/xY`, which does not parse")
    fn = S.fn("NamingContext", "event_name_to_function")
    if fn is None:
        r5.bad(V(r5.id, "<anchor>", "missing:event_name_to_function", "anchor not found"))
    else:
        replaced = set()
        classtest = False
        for e in walk_block(fn.body):
            if e.get("k") == "mcall" and e["method"] == "replace" and e["args"]:
                a = e["args"][0]
                if a.get("k") == "lit":
                    replaced.add(a["lit"]["v"])
                elif a.get("k") == "array":
                    for x in a["elems"]:
                        if x.get("k") == "lit":
                            replaced.add(x["lit"]["v"])
            if e.get("k") == "mcall" and e["method"] in ("is_ascii_alphanumeric", "is_alphanumeric"):
                classtest = True
            if e.get("k") == "binary" and e["op"] == "==":
                for side in (e["l"], e["r"]):
                    if side.get("k") == "lit" and side["lit"]["t"] == "char":
                        replaced.add(side["lit"]["v"])
            if e.get("k") == "macro" and e["name"] == "matches" and e.get("pat"):
                for pc in (e["pat"]["cases"] if e["pat"].get("k") == "or" else [e["pat"]]):
                    if pc.get("k") == "lit":
                        replaced.add(pc["lit"]["v"])
        need = {"-", "/", ":"}
        if classtest or need <= replaced:
            r5.ok("separators mapped away (%s)" % ("character-class test" if classtest else sorted(replaced)))
        else:
            r5.bad(V(r5.id, "NamingContext::event_name_to_function", "unmapped:%s" % "".join(sorted(need - replaced)),
                     "characters %s of Tauri event names survive into the function identifier" % sorted(need - replaced)))
        prefix = any(x.get("k") == "macro" and x["name"] == "format" and x.get("args") and (lit_str(x["args"][0]) or "").startswith("on") for x in walk_block(fn.body))
        if not prefix:
            # the same text assembled by hand: the returned String starts as the literal "on…" and is only appended to
            tail = fn.body[-1] if fn.body else None
            rv_ = expr_text(tail["e"]) if tail and tail.get("k") == "expr" and not tail.get("semi") else None
            for st in fn.body:
                if st.get("k") == "let" and rv_ and rv_ in pat_bindings(st["pat"]) and st.get("init") is not None:
                    it_ = st["init"]
                    l0 = lit_str(it_["args"][0]) if it_.get("k") == "call" and expr_text(it_["func"]) in ("String::from",) and it_.get("args") else (lit_str(it_["recv"]) if it_.get("k") == "mcall" and it_["method"] in ("to_string", "to_owned") else None)
                    if (l0 or "").startswith("on") and not any(x.get("k") == "mcall" and x["method"] in ("insert", "insert_str", "clear", "truncate", "replace_range") and expr_text(x["recv"]) == rv_ for x in walk_block(fn.body)):
                        prefix = True
        if prefix:
            r5.ok("identifier starts with the literal prefix `on` (a leading digit in the event name cannot start the identifier)")
        else:
            r5.bad(V(r5.id, "NamingContext::event_name_to_function", "no-prefix", "the identifier does not start with a fixed alphabetic prefix"))
    r5.require_floor(2, "identifier facts")
    rules.append(r5)

    # ---------------------------------------------------------------- D6
    r6 = Rule("C12-D6-uniqueness", "D6",
              "between the discovered events and the listener template there is a uniqueness step keyed on the event name and one keyed on the "
              "generated function identifier",
              "the same event emitted from several places (or two names that mangle alike) exports the same function twice")
    check_event_uniqueness(P, r6)
    r6.require_floor(2, "uniqueness steps")
    rules.append(r6)

    # ---------------------------------------------------------------- D7
    r7 = Rule("C12-D7-payload-typing", "D7",
              "infer_payload_type: string/int/float/bool literals → String/i32/f64/bool, struct expression → its type name, &x and x.clone() → the type "
              "of x, identifiers through the symbol table, everything else → unknown; the symbol table keeps the full type text of parameters and bindings",
              "a symbol table that keeps only the last path segment turns `items: Vec<P>` into the undefined type `Vec`")
    # a later `let x = ..` shadows an earlier binding of x: the symbol table is updated with insert (overwrite), never entry().or_insert (first wins)
    for g in P.find("EventParser::extract_local_binding") + P.find("EventParser::extract_param_types"):
        first_wins = [c for c in g.calls if short_path(c.path) in ("HashMap::entry", "Entry::or_insert", "Entry::or_insert_with", "HashMap::try_insert") and c.bb in g.reach_blocks]
        ins = [c for c in g.calls if short_path(c.path) == "HashMap::insert" and c.bb in g.reach_blocks]
        if first_wins:
            r7.bad(V(r7.id, g.id, "first-binding-wins:%s" % short_path(first_wins[0].path), "the symbol table keeps the first type recorded for a name (%s): a rebinding `let payload = Other {..}` is typed as the earlier one"
                     % short_path(first_wins[0].path), first_wins[0].file, first_wins[0].line))
        elif ins:
            r7.ok("%s: bindings overwrite (HashMap::insert ×%d)" % (short_path(g.id), len(ins)))
    fn = S.fn("EventParser", "infer_payload_type")
    if fn is None:
        r7.bad(V(r7.id, "<anchor>", "missing:infer_payload_type", "anchor not found"))
    else:
        paths = ev.fn_paths(fn, None, lambda n: None)
        lits = {}
        others = set()
        for conds, sv in paths:
            r_ = render(sv)
            lk = [re.search(r"Lit::(\w+)", c) for c in conds if "Lit::" in c]
            lk = [m.group(1) for m in lk if m]
            if lk:
                lits[lk[-1]] = r_
            top = [re.search(r"expr matches Expr::(\w+)", c) for c in conds]
            top = [m.group(1) for m in top if m]
            if top and sv[0] == "lit" and not lk:
                others.add((top[0], r_))
        want = {"Str": "String", "Int": "i32", "Float": "f64", "Bool": "bool"}
        for k, v in want.items():
            if lits.get(k) == v:
                r7.ok("Lit::%s → %s" % (k, v))
            else:
                r7.bad(V(r7.id, "EventParser::infer_payload_type", "literal:%s:%s" % (k, lits.get(k)), "a %s literal payload is typed %s (expected %s)" % (k, lits.get(k), v)))
        bogus = sorted(v for (k, v) in others if v not in ("unknown", "()", "String", "i32", "f64", "bool"))
        if bogus:
            r7.bad(V(r7.id, "EventParser::infer_payload_type", "invented-type:%s" % ",".join(bogus), "payload forms without evident type are typed %s instead of unknown" % bogus))
        else:
            r7.ok("forms without evident type → unknown")
        arms = {pat_text(a["pat"]).split("(")[0] for e in walk_block(fn.body) if e.get("k") == "match" and expr_text(e["expr"]) == "expr" for a in e["arms"]}
        for need in ("Expr::Reference", "Expr::Struct", "Expr::Path", "Expr::Lit", "Expr::MethodCall"):
            if need in arms:
                r7.ok("%s handled" % need)
            else:
                r7.bad(V(r7.id, "EventParser::infer_payload_type", "no-arm:%s" % need, "payload form %s is not handled" % need))
    check_generics_kept_unconditionally(S, r7)
    etn = find_type_namer(S)
    if etn is None:
        r7.bad(V(r7.id, "<anchor>", "missing:extract_type_name", "anchor not found"))
    else:
        txt = " ".join(expr_text(e) for e in walk_block(etn.body))
        rendered = [render(sv) for _, sv in ev.fn_paths(etn, None, lambda n: None)]
        keeps_args = any(re.search(r"<.*>", r_) and ("⟨" in r_ or "[" in r_ or "‹" in r_) for r_ in rendered) or "type_to_string" in txt or "to_token_stream" in txt
        if keeps_args:
            r7.ok("the symbol table keeps generic arguments")
        else:
            r7.bad(V(r7.id, "EventParser::extract_type_name", "drops-generic-arguments", "the symbol table records only the last path segment's identifier: `items: Vec<P>` is typed `Vec`"))
    # the translated type is what the listener is typed with, in both modes: the handler parameter and the `listen<..>` argument print the
    # payload's TypeScript rendering (typescriptPayloadType), qualified — not the Rust spelling kept next to it in the same context
    from tplpaths import Templates as _T7, consistent as _cons7
    T7 = _T7(S)
    for part_ in ("typescript/partials/event_listener.ts.tera", "zod/partials/event_listener.ts.tera"):
        flat_ = "".join(p_.flat() for p_ in (T7.paths_in_context(part_) or []) if _cons7(p_.conds))
        sites_ = re.findall(r"payload: ⟦([^⟧]*)⟧", flat_) + re.findall(r"listen<⟦([^⟧]*)⟧>", flat_)
        if len(sites_) < 2:
            r7.bad(V(r7.id, part_, "listener-type-sites:%d" % len(sites_), "expected the payload type at the handler parameter and at listen<..>"))
        for h_ in sorted(set(sites_)):
            if re.fullmatch(r"\w+\.typescriptPayloadType\|add_types_prefix", h_):
                r7.ok("%s: listener typed with %s" % (part_, h_))
            else:
                r7.bad(V(r7.id, part_, "listener-type-source:%s" % h_, "the listener is typed with `%s`, not with the qualified TypeScript rendering of the payload type" % h_))
    check_symbol_table_keys(P, r7)
    check_annotated_bindings(P, r7)
    check_init_type_selector(P, r7)
    check_namer_tuple_syntax(S, ev, r7)
    r7.require_floor(8, "payload typing facts")
    rules.append(r7)

    # ---------------------------------------------------------------- D8
    r8 = Rule("C12-D8-no-events-no-module", "D8",
              "in both generate_models write_events_file is called under the sole guard !events.is_empty()",
              "an events.ts without events (or none with events) breaks the index and the import surface")
    gens = [t for t in P.trait_impls.get(GEN_MODELS, []) if t in P.fns]
    for gid in gens:
        f = P.fns[gid]
        cs = [c for c in f.calls if short_path(c.best) == "FileWriter::write_events_file"]
        if len(cs) != 1:
            r8.bad(V(r8.id, gid, "write_events-calls:%d" % len(cs), "expected one write_events_file call"))
        for c in cs:
            conds = [x for x in f.must_conditions(c.bb) if "Try" not in x and not x.startswith("try(") and not x.endswith("next()=None")]
            if len(conds) == 1 and re.match(r"call (slice|Vec)::is_empty\(\)=false", conds[0]):
                r8.ok("%s: events.ts under exactly !events.is_empty()" % short_path(gid))
            else:
                r8.bad(V(r8.id, gid, "events-guard:%s" % ",".join(conds), "events.ts is written under %s" % conds, c.file, c.line))
    r8.require_floor(2, "generators")
    rules.append(r8)

    return finish(
        PROP, ctx, rules,
        "Arm-by-arm coverage tables of the expression walk, literal tables of the receiver heuristic / argument positions / payload typing, "
        "template path facts of the listener, separator coverage of the identifier mangling, presence of uniqueness steps keyed on name and identifier.",
        ["payload inference for expression forms outside the documented list", "emit calls inside closures, impl methods and nested fns (outside the statement's 'top-level function body')"],
        ["Tauri's event-name alphabet is [A-Za-z0-9_/:-] (statement)"])

"""predtable — acceptance table of a predicate over a syn path (`tauri::ipc::Channel<T>` …), read from the type-checked body.

The predicates of this crate that decide "is this a Tauri-injected parameter", "is this a channel" are decision lists over a handful of atoms:
the number of path segments, the identifier of the first / k-th / last segment compared with a literal, and the kind of the last segment's
generic arguments.  How the list is *spelled* (== chains, matches!, match on a string, early returns, let-else, a helper function) does not
matter to the property; which combinations are accepted does.  So the table is extracted from the MIR (helpers spliced in, bool materialisation
threaded): every acyclic path from the entry to an accepting exit contributes the atoms it passed with their outcomes.

    accept_paths(P, f, accept="true"|"some")  ->  [ {"len": [(op, n)], "seg": {key: (literal, bool)...}, "args": ..., "other": [...]} ]

Nothing is executed and no value is computed: this is a structural unfolding of a loop-free decision function.
"""
import re

from mirlib import op_place
from rulelib import enumerate_paths

MAX_PATHS = 4000


def _seg_key(f, o, depth=0):
    """which path segment an identifier operand belongs to: int index, "first", "last" or None"""
    seen = 0
    while seen < 24 and o is not None:
        seen += 1
        if o[0] == "proj":
            o = o[1]
            continue
        if o[0] == "multi":
            alts = [x for x in o[2] if x[0] != "unknown"]
            o = alts[0] if alts else None
            continue
        if o[0] == "call":
            c = o[1]
            nm = c.name or ""
            if nm in ("index", "index_mut") and len(c.args) > 1:
                k = c.const_arg(1)
                if k and isinstance(k.get("int"), int):
                    return k["int"]
                return "?"
            if nm in ("last", "last_mut"):
                return "last"
            if nm in ("first", "first_mut"):
                return 0
            if not c.args:
                return None
            o = c.fn.origin(c.args[0])
            continue
        if o[0] == "arg":
            # a segment handed in as a parameter (is_channel_segment(segment, all)): named after the parameter
            return "param:%s" % o[2]
        return None
    return None


def _is_ident_side(f, op):
    t = f.describe_origin(f.origin(op), deep=6)
    return "PathSegment.ident" in t or "path::PathSegment.ident" in t


def accept_paths(P, f, accept="true"):
    """paths of f that end in acceptance (`true` returned / `Some(..)` returned): list of atom dicts; None if the function is not loop-free enough"""
    # accepting / rejecting exits: blocks that assign the return place
    exits = []
    for b in sorted(f.reach_blocks):
        for st in f.blocks[b]["stmts"]:
            if "lhs" in st and st["lhs"]["l"] == 0 and not st["lhs"].get("p"):
                rv = st.get("rv") or {}
                val = None
                if rv.get("k") == "use":
                    c = rv["op"].get("const")
                    if c is not None and "bool" in c:
                        val = bool(c["bool"])
                    elif accept == "true":
                        val = "computed"
                elif rv.get("k") == "aggr":
                    val = rv.get("variant")
                elif rv.get("k") == "un" and accept == "true":
                    val = "computed"
                exits.append((b, val))
        t = f.blocks[b]["term"]
        if t["k"] == "call" and t["dest"]["l"] == 0 and not t["dest"].get("p"):
            exits.append((b, "call"))
    out = []
    n_paths = 0
    for (b, val) in exits:
        acc = (val is True) if accept == "true" else (val == "Some")
        if val in ("computed", "call"):
            acc = None          # value not decided by control flow: keep, flagged
        if acc is False:
            continue
        def tail_of(ret_o):
            """atom contributed by a verdict that is itself a test (`a == "X"`, `!args.is_empty()`, `opt.is_some_and(|s| ..)`), or None"""
            neg_ = False
            while ret_o is not None and ret_o[0] == "un" and ret_o[1] == "Not":
                ret_o = ret_o[2]
                neg_ = not neg_
            if ret_o is None:
                return None
            if not neg_ and ret_o[0] == "call" and ret_o[1].name == "unwrap_or" and len(ret_o[1].args) == 2 and _const_false(f, ret_o[1].args[1]):
                # `.map(|s| ..).unwrap_or(false)`
                inner = f.origin(ret_o[1].args[0])
                if inner[0] == "call" and inner[1].name == "map" and len(inner[1].args) == 2:
                    ret_o = ("call", _Shim("is_some_and", inner[1].args))
            if not neg_ and ret_o[0] == "call" and ret_o[1].name == "map_or" and len(ret_o[1].args) == 3 and _const_false(f, ret_o[1].args[1]):
                ret_o = ("call", _Shim("is_some_and", [ret_o[1].args[0], ret_o[1].args[2]]))
            if not neg_ and ret_o[0] == "call" and ret_o[1].name in ("is_some_and", "is_ok_and", "any") and ret_o[1].args:
                # `…last().is_some_and(|s| s.ident == "Option")` returned as the verdict: the closure's own accepting path, said of the receiver
                co = f.origin(ret_o[1].args[-1])
                cid = co[1].get("closure") if co[0] in ("aggr", "const") and isinstance(co[1], dict) else None
                sub = accept_paths(P, P.fns[cid], "true") if cid in P.fns else None
                if sub is not None and len(sub) == 1 and not sub[0]["other"] and not sub[0]["opaque_value"]:
                    return ("closure", (_seg_key(f, f.origin(ret_o[1].args[0])), sub[0]))
                return None
            if ret_o[0] == "call" and ret_o[1].name == "is_empty" and ret_o[1].args and "PathSegment.arguments" in f.describe_origin(f.origin(ret_o[1].args[0]), deep=3):
                return ("args", ("empty", not neg_))
            if not neg_ and ret_o[0] == "call" and ret_o[1].name == "is_ident" and len(ret_o[1].args) == 2 and ret_o[1].arg_lit(1, P) is not None:
                return ("is_ident", ret_o[1].arg_lit(1, P))
            if not neg_ and ret_o[0] == "call" and ret_o[1].name in ("eq", "ne") and len(ret_o[1].args) == 2:
                c_ = ret_o[1]
                for i in (0, 1):
                    l_ = c_.arg_lit(i, P)
                    if l_ is not None and _is_ident_side(f, c_.args[1 - i]) and c_.name == "eq":
                        return (_seg_key(f, f.origin(c_.args[1 - i])), l_)
            return None
        # the value returned is itself the last comparison of an `a == "X" || a == "Y"` chain: accepted exactly when it holds
        tail_atom = None
        slot = None             # `_0 = move X` with X assigned on several paths (a spliced-in helper's result): decided per path below
        if acc is None:
            ret_o = None
            t_ = f.blocks[b]["term"]
            if val == "call" and t_["k"] == "call":
                ret_o = ("call", f.call_at(b))
            elif val == "computed":
                for st in f.blocks[b]["stmts"]:
                    if "lhs" in st and st["lhs"]["l"] == 0 and not st["lhs"].get("p") and (st.get("rv") or {}).get("k") == "use":
                        pl_ = op_place(st["rv"]["op"])
                        if pl_ is not None and not pl_.get("p") and len(f.defs.get(pl_["l"], [])) > 1:
                            slot = pl_["l"]
                        ret_o = f.origin(st["rv"]["op"])
                    elif "lhs" in st and st["lhs"]["l"] == 0 and not st["lhs"].get("p") and (st.get("rv") or {}).get("k") == "un":
                        ret_o = ("un", st["rv"]["op"], f.origin(st["rv"]["a"]))
            if slot is None:
                tail_atom = tail_of(ret_o)
        for path in enumerate_paths(f, b, max_paths=MAX_PATHS):
            n_paths += 1
            if n_paths > MAX_PATHS:
                return None
            if slot is not None:
                # which definition of the slot lies on this path?
                on_path = {blk_: i_ for i_, (blk_, _) in enumerate(path)}
                best = None
                for d_ in f.defs.get(slot, []):
                    if d_[0] in ("stmt", "call") and d_[1] in on_path and (best is None or on_path[d_[1]] > on_path[best[1]]):
                        best = d_
                tail_atom = None
                if best is None:
                    pass
                elif best[0] == "stmt" and best[3].get("k") == "use" and "bool" in (best[3]["op"].get("const") or {}):
                    if not best[3]["op"]["const"]["bool"]:
                        continue            # this path returns false
                    tail_atom = ("const-true", None)
                else:
                    tail_atom = tail_of(f._origin_def(best, slot, 10, {slot}))
            if accept == "some" and val == "call" and slot is None:
                # `inner_option.map(render)` returned: Some exactly when the Option it is applied to is — and that one was assigned Some(..) / None by a
                # spliced-in helper on this very path
                cexit = f.call_at(b)
                if cexit is not None and cexit.name in ("map", "cloned", "copied", "as_ref", "as_deref", "inspect") and cexit.args:
                    L_ = (op_place(cexit.args[0]) or {}).get("l")
                    on_path = {blk_: i_ for i_, (blk_, _) in enumerate(path)}
                    hops_ = 0
                    verdict_ = None
                    while L_ is not None and hops_ < 6:
                        hops_ += 1
                        best = None
                        for d_ in f.defs.get(L_, []):
                            if d_[0] in ("stmt", "call") and d_[1] in on_path and (best is None or on_path[d_[1]] > on_path[best[1]]):
                                best = d_
                        if best is None or best[0] != "stmt":
                            break
                        rv_ = best[3]
                        if rv_.get("k") == "aggr" and rv_.get("variant") in ("Some", "None"):
                            verdict_ = rv_["variant"]
                            break
                        if rv_.get("k") == "use" and op_place(rv_["op"]) is not None and not op_place(rv_["op"]).get("p"):
                            L_ = op_place(rv_["op"])["l"]
                            continue
                        break
                    if verdict_ == "None":
                        continue
                    if verdict_ == "Some":
                        tail_atom = ("const-true", None)
            atoms = {"len": [], "seg": {}, "args": [], "other": [], "kind": [], "opaque_value": acc is None and tail_atom is None}
            if tail_atom is not None and tail_atom[0] == "const-true":
                pass
            elif tail_atom is not None and tail_atom[0] == "closure":
                rk, sub0 = tail_atom[1]
                for k_, v_ in sub0["seg"].items():
                    atoms["seg"].setdefault(rk if (isinstance(k_, str) and k_.startswith("param:")) else k_, []).extend(v_)
                atoms["len"].extend(sub0["len"])
                atoms["args"].extend(sub0["args"])
            elif tail_atom is not None and tail_atom[0] == "args":
                atoms["args"].append(tail_atom[1])
            elif tail_atom is not None:
                atoms["seg"].setdefault(tail_atom[0], []).append((tail_atom[1], True))
            ok = True
            for (blk, lab) in path:
                if lab is None:
                    continue
                t = f.blocks[blk]["term"]
                if t["k"] != "switch":
                    continue
                od = f.origin(t["discr"])
                if od[0] == "discr":
                    vs = set(od[2].values())
                    o, outcome = f.cond_struct(blk, lab)
                    if vs <= {"Some", "None"} or vs <= {"Continue", "Break"} or vs <= {"Ok", "Err"}:
                        continue            # unwrapping: structure, not a test of the path
                    if "AngleBracketed" in vs:
                        atoms["args"].append(("kind", outcome))
                        continue
                    # a test on the variant of some other enum (syn::Type, syn::Meta, GenericArgument …): kept for the rule to judge
                    atoms.setdefault("kind", []).append(("/".join(sorted(vs)), outcome))
                    continue
                o, outcome = f.cond_struct(blk, lab)
                neg = False
                while o[0] == "un" and o[1] == "Not":
                    o = o[2]
                    neg = not neg
                truth = None
                if outcome in ("true", "false"):
                    truth = (outcome == "true") != neg
                if o[0] == "call" and o[1].name in ("eq", "ne") and len(o[1].args) == 2 and truth is not None:
                    c = o[1]
                    lit = None
                    side = None
                    for i in (0, 1):
                        l_ = c.arg_lit(i, P)
                        if l_ is not None:
                            lit, side = l_, 1 - i
                    if lit is not None and _is_ident_side(f, c.args[side]):
                        key = _seg_key(f, f.origin(c.args[side]))
                        eq = truth if c.name == "eq" else (not truth)
                        atoms["seg"].setdefault(key, []).append((lit, eq))
                        continue
                    atoms["other"].append("%s=%s" % (f.describe_origin(o, deep=1)[:60], outcome))
                    continue
                if o[0] == "call" and o[1].name == "is_ident" and len(o[1].args) == 2 and truth is not None and o[1].arg_lit(1, P) is not None:
                    atoms["seg"].setdefault("is_ident", []).append((o[1].arg_lit(1, P), truth))
                    continue
                if o[0] == "bin" and o[1] in ("Eq", "Ne", "Lt", "Le", "Gt", "Ge") and truth is not None:
                    sides = [o[2], o[3]]
                    lens = [x for x in sides if x[0] == "call" and x[1].name == "len"]
                    consts = [x[1].get("int") for x in sides if x[0] == "const" and isinstance(x[1], dict) and isinstance(x[1].get("int"), int)]
                    if len(lens) == 1 and len(consts) == 1:
                        op = o[1]
                        if sides[1] is lens[0]:
                            op = {"Lt": "Gt", "Le": "Ge", "Gt": "Lt", "Ge": "Le"}.get(op, op)
                        if not truth:
                            op = {"Eq": "Ne", "Ne": "Eq", "Lt": "Ge", "Le": "Gt", "Gt": "Le", "Ge": "Lt"}[op]
                        atoms["len"].append((op, consts[0]))
                        continue
                    atoms["other"].append("%s=%s" % (f.describe_origin(o, deep=1)[:60], outcome))
                    continue
                if o[0] == "call" and o[1].name == "len":
                    # `match segments.len() { 1 => .., _ => .. }` / `if let 1 = segments.len()`: a switch on the length itself
                    if re.fullmatch(r"\d+", str(outcome)):
                        atoms["len"].append(("Eq", int(outcome)))
                        continue
                    vals_ = [v_ for (v_, _t) in t.get("targets", []) if isinstance(v_, int)]
                    if str(outcome) in ("otherwise", "_") and vals_:
                        for v_ in vals_:
                            atoms["len"].append(("Ne", v_))
                        continue
                txt = f.describe_origin(o, deep=2)
                if "PathSegment.arguments" in txt or "PathArguments" in txt:
                    if o[0] == "call" and o[1].name == "is_empty" and truth is not None:
                        atoms["args"].append(("empty", truth))
                    else:
                        atoms["args"].append(("kind", outcome))
                    continue
                if o[0] == "call" and o[1].name in ("is_some_and", "is_ok_and", "map_or", "any") and o[1].args and truth is True:
                    # `segments.first().is_some_and(|s| s.ident == "tauri")`: the closure's own (single) accepting path, said of the receiver's segment
                    co = f.origin(o[1].args[-1])
                    cid = co[1].get("closure") if co[0] in ("aggr", "const") and isinstance(co[1], dict) else None
                    sub = accept_paths(P, P.fns[cid], "true") if cid in P.fns else None
                    rk = _seg_key(f, f.origin(o[1].args[0]))
                    if sub is not None and len(sub) == 1 and not sub[0]["other"] and not sub[0]["opaque_value"]:
                        for k_, v_ in sub[0]["seg"].items():
                            atoms["seg"].setdefault(rk if (isinstance(k_, str) and k_.startswith("param:")) else k_, []).extend(v_)
                        atoms["len"].extend(sub[0]["len"])
                        atoms["args"].extend(sub[0]["args"])
                        continue
                    atoms["other"].append("%s=%s" % (txt[:60], outcome))
                    continue
                if o[0] == "multi" and f._operand_ty(t["discr"]) == "bool":
                    atoms["other"].append("%s=%s" % (txt[:60], outcome))      # a decision hidden in a bool that could not be threaded: not understood
                    continue
                if o[0] == "call" and o[1].name in ("next", "last", "first", "get", "branch", "as_str", "is_some", "is_none") or o[0] in ("proj", "arg", "multi", "discr", "unknown"):
                    # unwrapping of Option/iterator results and matching on the syn::Type variant: structure, not a name test
                    continue
                atoms["other"].append("%s=%s" % (txt[:60], outcome))
            # a segment cannot equal two different literals: such a path is not feasible
            if any(len({l for (l, eq) in v if eq}) > 1 for v in atoms["seg"].values()):
                continue
            out.append(atoms)
    return out


class _Shim:
    """`x.map_or(false, p)` and `x.map(p).unwrap_or(false)` read as `x.is_some_and(p)`"""
    def __init__(self, name, args):
        self.name = name
        self.args = args


def _const_false(f, op):
    c_ = op.get("const") if isinstance(op, dict) else None
    if isinstance(c_, dict) and "bool" in c_:
        return c_["bool"] is False
    o = f.origin(op)
    return o[0] == "const" and isinstance(o[1], dict) and o[1].get("bool") is False


def kind_allowed(k, generic_arg_tests=True):
    """variant tests that belong to looking at a type's path: the type is a path type, the generic argument is a type (the latter only where the
    predicate is about the argument — a filter on the *name* that also looks at what kind of argument follows is narrower than the name)"""
    vs, outcome = k
    vs = set(vs.split("/"))
    if "Reference" in vs and "Tuple" in vs:        # syn::Type
        return outcome == "Path"
    if "Lifetime" in vs and "Type" in vs:          # syn::GenericArgument
        return generic_arg_tests and outcome == "Type"
    return False


def classify(atoms, generic_arg_tests=True):
    """spelling class and accepted name of one accepting path: ("tauri::X" | "tauri::ipc::X" | "bare" | "bare+generics" | "other:..", name)"""
    lo, hi = len_range(atoms["len"])
    segs = {k: positive(v) for k, v in atoms["seg"].items()}
    odd_kinds = [k_ for k_ in atoms.get("kind", []) if not kind_allowed(k_, generic_arg_tests)]
    if atoms["other"] or atoms.get("opaque_value") or odd_kinds:
        return ("other:" + ";".join(atoms["other"] + ["%s=%s" % (k_[0][:30], k_[1]) for k_ in odd_kinds])[:60] if (atoms["other"] or odd_kinds) else "other:computed-result", None)
    if segs.get(0) == "tauri" and (lo, hi) == (2, 2) and segs.get(1) not in (None, "?"):
        return ("tauri::X", segs[1])
    if segs.get(0) == "tauri" and segs.get(1) == "ipc" and (lo, hi) == (3, 3) and segs.get(2) not in (None, "?"):
        return ("tauri::ipc::X", segs[2])
    lastk = [k for k in segs if k == "last" or (isinstance(k, str) and k.startswith("param:"))]
    if lastk and segs[lastk[0]] not in (None, "?"):
        generic = any((a == ("empty", False)) or (a[0] == "kind" and a[1] == "AngleBracketed") for a in atoms["args"])
        return ("bare+generics" if generic else "bare", segs[lastk[0]])
    if hi == 1 and segs.get(0) not in (None, "?"):
        generic = any((a == ("empty", False)) or (a[0] == "kind" and a[1] == "AngleBracketed") for a in atoms["args"])
        return ("bare+generics" if generic else "bare", segs[0])
    return ("other:len%s-%s:%s" % (lo, hi, sorted((str(k), v) for k, v in segs.items())), None)


def len_range(lens):
    lo, hi = 0, 99
    for (op, n) in lens:
        if op == "Eq":
            lo, hi = max(lo, n), min(hi, n)
        elif op == "Ge":
            lo = max(lo, n)
        elif op == "Gt":
            lo = max(lo, n + 1)
        elif op == "Le":
            hi = min(hi, n)
        elif op == "Lt":
            hi = min(hi, n - 1)
    return lo, hi


def positive(seglist):
    """the literal a segment must equal on this path (the one `==` that held), or None"""
    pos = [l for (l, eq) in seglist if eq]
    return pos[0] if len(pos) == 1 else (None if not pos else "?")

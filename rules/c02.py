"""C02 — generated modules are closed: every name resolves, none is declared twice.

  D1  TPATH/SV  per mode, every name pattern referenced through `types.` in commands.ts / events.ts (Params, ParamsSchema, struct and enum
                names) is declared in types.ts under a guard implied by the reference's guard; in Zod mode every struct AND enum gets both the
                schema constant and the inferred type alias; no pattern is declared twice under overlapping guards
  D2  SV        namespace qualification is structural: add_types_prefix may return its input unchanged only under a closed guard
                (primitive literals, already prefixed) and must recurse on every component of a composite it re-assembles
  D3  FLOW/TPATH  index.ts re-exports exactly the files written by this run: the list handed to the index template is the writer's list,
                which grows only after a successful write; the template skips only index.ts itself
  D4  (shared)  transitive closure of the declared set — C07-D3;   D5 (shared) one export per event — C12-D6
  D6  TPLTYPE   every variable path used by a rendered template resolves to a key inserted into its context and to serialised fields of
                the Rust type inserted under that key (a dangling path makes Tera fail and the generator writes an empty module)
"""
import re

from common import Rule, V, finish
from mirlib import ENTRY_POINTS, short_path, op_place
from rulelib import try_propagated, strip_generics
from srclib import walk, walk_block, lit_str, expr_text, stmt_exprs, tera_walk
from svlib import SVEval, render
from tplpaths import Templates, consistent, expr_text as tx

PROP = "C02"

P_ATOM = "command.parameters|length > 0"
C_ATOM = "command.channels|length > 0"


def renderer_frames(S):
    """literal frames of every function of the TypeScript-type renderers (TypeVisitor defaults, TypeScriptVisitor, and the part of ZodVisitor that
    visit_type_for_interface reaches): -> [(fn qname, first literal piece, last literal piece)] of each format!/literal it builds text with"""
    from srclib import walk_block as wb
    fns = [f for f in S.fns if f.body is not None and f.owner in ("TypeVisitor", "TypeScriptVisitor")]
    z = {f.name: f for f in S.fns if f.body is not None and f.owner == "ZodVisitor"}
    live = set()
    work = ["visit_type_for_interface"]
    while work:
        n = work.pop()
        if n in live or n not in z or n == "visit_type":
            continue
        live.add(n)
        for e in wb(z[n].body):
            if e.get("k") == "mcall" and expr_text(e["recv"]) == "self" and e["method"] in z:
                work.append(e["method"])
    fns += [z[n] for n in sorted(live)]
    out = []
    for f in fns:
        if "String" not in (f.sig.get("ret") or ""):
            continue
        for e in wb(f.body):
            if e.get("k") == "macro" and e["name"] == "format" and e.get("args") and lit_str(e["args"][0]) is not None:
                pieces = re.split(r"\{[^{}]*\}", lit_str(e["args"][0]))
                out.append((f.qname, pieces[0], pieces[-1]))
    return out


def check_frames_known_to_qualifier(S, rule):
    """every bracketing frame a TypeScript-type renderer emits is one add_types_prefix has a branch for; shared by C02-D2 and C01-D3"""
    ap = S.fn(None, "add_types_prefix")
    r2 = rule
    if ap is not None:
        known = set()
        # a frame may be tested through a variable that ranges over literals (`for suffix in [" | null", " | undefined"] { .. strip_suffix(suffix) .. }`,
        # `let close = "]";`)
        ranging = {}
        for e in walk_block(ap.body):
            if e.get("k") == "for" and e["pat"].get("k") == "ident":
                it_ = e["iter"]
                while it_.get("k") in ("ref", "paren") or (it_.get("k") == "mcall" and it_["method"] in ("iter", "into_iter", "copied", "cloned")):
                    it_ = it_["expr"] if it_.get("k") in ("ref", "paren") else it_["recv"]
                if it_.get("k") == "array":
                    lits_ = [lit_text(x_) for x_ in it_["elems"]]
                    if lits_ and all(v_ is not None for v_ in lits_):
                        ranging[e["pat"]["name"]] = lits_
        for st_ in ap.body:
            if st_.get("k") == "let" and st_.get("init") is not None and (st_.get("pat") or {}).get("k") == "ident" and lit_text(st_["init"]) is not None:
                ranging[st_["pat"]["name"]] = [lit_text(st_["init"])]
        for e in walk_block(ap.body):
            if e.get("k") == "mcall" and e["method"] in ("starts_with", "ends_with", "strip_prefix", "strip_suffix") and e["args"]:
                a_ = e["args"][0]
                vals_ = [lit_text(a_)] if lit_text(a_) is not None else (ranging.get(a_["segs"][0], []) if a_.get("k") == "path" and len(a_.get("segs", [])) == 1 else [])
                for v_ in vals_:
                    known.add((e["method"] in ("starts_with", "strip_prefix"), v_))
        for (qn, first, last) in renderer_frames(S):
            ftok, ltok = first.lstrip(), last.rstrip()
            if (not ftok or re.fullmatch(r"[\w ]*", ftok)) and (not ltok.strip() or re.fullmatch(r"[\w ]*", ltok.strip())):
                continue                      # no delimiter at all: a leaf
            if ftok and not re.fullmatch(r"[\w ]*", ftok):
                # the text begins with a delimiter: the qualifier must recognise the frame by that beginning (it looks at the start of the text first;
                # a frame it only knows by its ending — `X[]`, `X | null` — is cut there and the rest is treated as a name)
                okf = any(is_p and ftok.startswith(k_) for (is_p, k_) in known)
            else:
                okf = any((not is_p) and last.endswith(k_) for (is_p, k_) in known)
            if okf:
                r2.ok("%s frame %r..%r is known to add_types_prefix" % (qn, first, last))
            else:
                r2.bad(V(r2.id, qn, "frame-unknown-to-qualifier:%s..%s" % (first.strip(), last.strip()),
                         "%s emits the frame `%s…%s`, for which add_types_prefix has no branch: in commands.ts/events.ts the text is prefixed as if it were a name" % (qn, first, last)))


def guard_truth(conds, decl=False):
    """set of (P, C) assignments under which the path's conditions hold.  Atoms that are not over the two lengths are unknown:
    a reference under an unknown guard may happen (all combinations), a declaration under one may not (none)."""
    out = set()
    for p in (True, False):
        for c in (True, False):
            ok = True
            for txt, val in conds:
                t = eval_guard(txt, p, c)
                if t is None:
                    if decl:
                        ok = False
                    continue
                if t != val:
                    ok = False
            if ok:
                out.add((p, c))
    return out


def eval_guard(txt, p, c):
    t = txt.strip()
    m = {P_ATOM: p, C_ATOM: c, "command.parameters|length == 0": (not p), "command.channels|length == 0": (not c)}
    if t in m:
        return m[t]
    for op, fn in ((" or ", any), (" and ", all)):
        if op in t:
            parts = [eval_guard(x, p, c) for x in t.split(op)]
            if any(x is None for x in parts):
                return None
            return fn(parts)
    return None


def check(ctx):
    P = ctx.P
    S = ctx.S
    T = Templates(S)
    ev = SVEval(S)
    reach = P.reachable(ENTRY_POINTS)
    rules = []

    # ---------------------------------------------------------------- D1
    r1 = Rule("C02-D1-declared-vs-used", "D1",
              "for each mode and each (has parameters, has channels) combination, the command-level names referenced through `types.` are exported by the "
              "types templates for that combination; struct and enum names are exported in both spellings the mode uses (Zod: {X}Schema and type {X})",
              "commands.ts referring to types.FooParams / types.Status that types.ts does not export does not compile")
    def flat_all(name):
        out = []
        for p in T.paths(name) or []:
            if not consistent(p.conds):
                continue
            out.append((p, p.flat(loop=lambda it: "".join(bp.flat() for bp in it[3][:6]))))
        return out
    modes = {
        "typescript": {"decl": ["typescript/partials/param_interface.ts.tera"], "use": ["typescript/partials/command_function.ts.tera"]},
        "zod": {"decl": ["zod/partials/param_schemas.ts.tera", "zod/partials/type_aliases.ts.tera"], "use": ["zod/partials/command_function.ts.tera"]},
    }
    for mode, cfg in modes.items():
        declared = {}
        for name in cfg["decl"]:
            ast = T.ast_of(name)
            # param_schemas / type_aliases wrap everything in `for command in commands`: look at the loop body paths
            for p in T.paths(name) or []:
                bodies = []
                for it in p.items:
                    if it[0] == "loop" and it[2] == "commands":
                        bodies.extend(it[3])
                if not bodies:
                    bodies = [p]
                for bp in bodies:
                    if not consistent(bp.conds):
                        continue
                    flat = bp.flat(loop=lambda it: "".join(b2.flat() for b2 in it[3][:2]))
                    for m in re.finditer(r"export\s+(?:interface|type|const)\s+(⟦command\.tsTypeName⟧\w*)", flat):
                        declared.setdefault(m.group(1), []).append(guard_truth(bp.conds, decl=True))
        for name in cfg["use"]:
            for p, flat in flat_all(name):
                refs = set(re.findall(r"\btypes\.(⟦command\.tsTypeName⟧\w*)", flat))
                g = guard_truth(p.conds)
                for ref in sorted(refs):
                    decl_sets = declared.get(ref, [])
                    covered = set().union(*decl_sets) if decl_sets else set()
                    miss = g - covered
                    if not miss:
                        r1.ok("%s: types.%s used under %s, declared under %s" % (mode, ref, sorted(g), sorted(covered)))
                    else:
                        r1.bad(V(r1.id, name, "undeclared:%s:%s" % (ref, sorted(miss)),
                                 "%s mode: types.%s is referenced when (params, channels) ∈ %s but types.ts declares it only for %s" % (mode, ref, sorted(g), sorted(covered))))
        # duplicates: a pattern declared under overlapping guards
        for pat, sets in declared.items():
            seen = set()
            dup = set()
            for s_ in sets:
                dup |= (seen & s_)
                seen |= s_
            if dup:
                r1.bad(V(r1.id, mode, "declared-twice:%s:%s" % (pat, sorted(dup)), "%s mode: %s is exported twice when (params, channels) ∈ %s" % (mode, pat, sorted(dup))))
            else:
                r1.ok("%s: %s exported at most once per combination" % (mode, pat))
    # struct / enum names
    ts_types = flat_all("typescript/types.ts.tera")
    ok_plain = False
    for p, flat in ts_types:
        if re.search(r"export\s+type\s+⟦name⟧", flat) or re.search(r"export\s+interface\s+⟦name⟧", flat):
            ok_plain = True
    # both arms of the isEnum switch
    def flat_ctx(name):
        # as the including template sees the partial: `{% set name = struct.name %}` substituted, so `name` and `struct.name` are one spelling
        return "".join(p_.flat(loop=lambda it: "".join(bp.flat() for bp in it[3][:6])) for p_ in (T.paths_in_context(name) or []) if consistent(p_.conds))
    enum_t = flat_ctx("typescript/partials/enum.tera")
    iface_t = flat_ctx("typescript/partials/interface.tera")
    if re.search(r"export\s+type\s+⟦struct\.name⟧\s*=", enum_t) and re.search(r"export\s+interface\s+⟦struct\.name⟧\s*\{", iface_t):
        r1.ok("plain: every struct context is exported as interface ⟦name⟧ / type ⟦name⟧")
    else:
        r1.bad(V(r1.id, "typescript/types.ts.tera", "struct-exports", "plain mode does not export every struct/enum under its name"))
    schema_t = "".join(f for _, f in flat_all("zod/partials/schema.ts.tera"))
    if re.search(r"export\s+const\s+⟦name⟧Schema", schema_t) and re.search(r"export\s+type\s+⟦name⟧\s*=\s*z\.infer<typeof\s+⟦name⟧Schema>", schema_t):
        r1.ok("zod structs: const ⟦name⟧Schema + type ⟦name⟧")
    else:
        r1.bad(V(r1.id, "zod/partials/schema.ts.tera", "zod-struct-exports", "Zod struct template does not export both the schema and the inferred type"))
    ge = [f for f in S.fns if f.owner == "ZodBindingsGenerator" and f.name == "generate_enum_schema"]
    if ge:
        ps = ev.fn_paths(ge[0])
        txt = render(ps[0][1]) if ps else ""
        has_c = bool(re.search(r"export const ‹\w+›Schema\s*=", txt))
        has_t = bool(re.search(r"export type ‹\w+›\s*=\s*z\.infer<typeof ‹\w+›Schema>", txt))
        if has_c and has_t:
            r1.ok("zod enums: const {E}Schema + type {E}")
        else:
            r1.bad(V(r1.id, "ZodBindingsGenerator::generate_enum_schema", "zod-enum-exports:const=%s,type=%s" % (has_c, has_t),
                     "Zod mode exports %s for enums%s: command signatures refer to types.{E}, which does not exist"
                     % ("the schema constant" if has_c else "nothing", "" if has_t else " but no `export type {E}`")))
    else:
        r1.bad(V(r1.id, "<anchor>", "missing:generate_enum_schema", "anchor not found"))
    r1.require_floor(8, "declaration/use pairs")
    rules.append(r1)

    # ---------------------------------------------------------------- D2
    r2 = Rule("C02-D2-structural-qualification", "D2",
              "add_types_prefix: a branch that returns the text unchanged is guarded by a closed test (literal primitive names / already `types.`-prefixed); "
              "a branch that takes a composite apart re-assembles it from recursively qualified components",
              "a composite returned as is (Record<string, User>) or prefixed as a whole (types.Record<..>[]) leaves custom names unqualified: commands.ts refers to a name that is not in scope")
    ap = S.fn(None, "add_types_prefix")
    if ap is None:
        r2.bad(V(r2.id, "<anchor>", "missing:add_types_prefix", "anchor not found"))
    else:
        n_br = 0

        def _lit_array(it_):
            while it_.get("k") in ("ref", "paren") or (it_.get("k") == "mcall" and it_["method"] in ("iter", "into_iter", "copied", "cloned")):
                it_ = it_["expr"] if it_.get("k") in ("ref", "paren") else it_["recv"]
            return it_.get("k") == "array" and bool(it_["elems"]) and all(lit_text(x_) is not None for x_ in it_["elems"])

        def decision_ifs(stmts, ranging=frozenset()):
            """the branches of the decision list: top-level `if`s, and those written once for several literals (`for suffix in [" | null", ..] { if .. }`)"""
            for st_ in stmts:
                for e_ in stmt_exprs(st_):
                    if e_.get("k") == "if":
                        yield e_, ranging
                    elif e_.get("k") == "for" and e_["pat"].get("k") == "ident" and _lit_array(e_["iter"]):
                        yield from decision_ifs(e_["body"], ranging | {e_["pat"]["name"]})

        def builder_components(stmts, name):
            """`let mut x = INIT; x.push_str(A); x.push(B); .. x` -> [INIT, A, B], None when x is anything else"""
            comps = None
            for st_ in stmts:
                if st_.get("k") == "let" and (st_.get("pat") or {}).get("k") == "ident" and st_["pat"]["name"] == name and st_.get("init") is not None:
                    comps = [st_["init"]]
                    continue
                for e_ in stmt_exprs(st_):
                    for x_ in walk(e_):
                        if x_.get("k") == "mcall" and expr_text(x_["recv"]) == name:
                            if x_["method"] in ("push_str", "push") and x_["args"] and comps is not None:
                                a_ = x_["args"][0]
                                comps.append(a_["expr"] if a_.get("k") == "ref" else a_)
                            elif x_["method"] not in ("as_str", "len", "is_empty", "clone", "to_string"):
                                return None
                        elif x_.get("k") == "assign" and expr_text(x_["l"]) == name:
                            return None
            return comps
        for (e, ranging_vars) in decision_ifs(ap.body):
            if True:
                n_br += 1
                cond = e["cond"]
                ctext = expr_text(cond) if cond.get("k") != "letcond" else "let %s = %s" % ("..", expr_text(cond["expr"]))
                lits = ",".join(sorted(set(l for l in (lit_text(x) for x in walk(cond["expr"] if cond.get("k") == "letcond" else cond)) if l is not None)))
                from srclib import literal_set_guard
                closed = (cond.get("k") == "macro" and cond["name"] == "matches") or literal_set_guard(S, cond) is not None or bool(re.search(r'starts_with\("types\."\)', ctext))
                rets = [x for x in walk_block(e["then"]) if x.get("k") == "return" and x.get("expr") is not None]
                last = e["then"][-1] if e["then"] else None
                tail = [last["e"]] if last is not None and last.get("k") == "expr" and not last.get("semi") and not (last["e"].get("k") == "if" and last["e"].get("else") is None) else []
                vals = [x["expr"] for x in rets] + tail
                # `else` arm of the final if (custom type) is handled below
                for v in vals:
                    t = expr_text(v)
                    if t in ("ts_type.to_string()", "ts_type.to_owned()", "ts_type.into()"):
                        if closed:
                            r2.ok("unchanged under closed guard `%s`" % ctext[:60])
                        elif v in rets and any(x.get("k") == "if" for s in e["then"] for x in stmt_exprs(s)) and False:
                            pass
                        else:
                            # nested closed guard (e.g. inside the `[]` branch: primitives)
                            inner_closed = False
                            for x in walk_block(e["then"]):
                                if x.get("k") == "if" and ((x["cond"].get("k") == "macro" and x["cond"]["name"] == "matches") or literal_set_guard(S, x["cond"]) is not None):
                                    if any(y is v or (y.get("k") == "return" and y.get("expr") is v) for y in walk_block(x["then"])):
                                        inner_closed = True
                            if inner_closed:
                                r2.ok("unchanged under nested closed guard in `%s`" % ctext[:40])
                            else:
                                r2.bad(V(r2.id, "add_types_prefix", "unchanged-under-open-guard:%s" % lits,
                                         "under `%s` the type text is returned unchanged although it may contain custom type names" % ctext))
                    elif v.get("k") == "path" and len(v.get("segs", [])) == 1 and builder_components(e["then"], v["segs"][0]) is not None:
                        # the result assembled piece by piece in a String
                        for a in builder_components(e["then"], v["segs"][0]):
                            at = expr_text(a)
                            if at.startswith("add_types_prefix("):
                                r2.ok("component re-qualified recursively in `%s`" % ctext[:40])
                            elif lit_text(a) is not None or (a.get("k") == "path" and len(a.get("segs", [])) == 1 and a["segs"][0] in ranging_vars) \
                                    or (a.get("k") in ("call", "mcall") and a.get("args") is not None and at.startswith(("String::new(", "String::with_capacity("))):
                                continue
                            else:
                                r2.bad(V(r2.id, "add_types_prefix", "component-not-recursed:%s" % lits,
                                         "under `%s` the component `%s` is re-assembled without being qualified recursively" % (ctext, at)))
                    elif v.get("k") != "macro" or v["name"] != "format":
                        r2.bad(V(r2.id, "add_types_prefix", "unrecognised-branch:%s:%s" % (lits, t[:40]),
                                 "under `%s` the result `%s` is neither the unchanged text nor a re-assembly of recursively qualified components" % (ctext, t)))
                    elif v.get("k") == "macro" and v["name"] == "format":
                        args = v.get("args", [])[1:]
                        for a in args:
                            at = expr_text(a)
                            if at.startswith("add_types_prefix("):
                                r2.ok("component re-qualified recursively in `%s`" % ctext[:40])
                            elif lit_str(a) is not None:
                                continue
                            else:
                                r2.bad(V(r2.id, "add_types_prefix", "component-not-recursed:%s" % lits,
                                         "under `%s` the component `%s` is re-assembled without being qualified recursively" % (ctext, at)))
        if n_br < 5:
            r2.bad(V(r2.id, "add_types_prefix", "shape:%d" % n_br, "unexpected structure of add_types_prefix (%d branches)" % n_br))
    # ... and it is applied at every rendered-type hole of the modules that reach declarations through `types.` (commands.ts, events.ts),
    # and at none inside types.ts (where the declarations are in scope unqualified)
    from c01 import Producers, TYPE_RENDER, split_hole
    from tpltypes import Typing
    typing = Typing(S, P, T)
    prod = Producers(S, None)
    n_holes = 0
    for name in sorted(T.rendered_names()):
        outside = bool(re.search(r"/(commands|events)\.ts\.tera$", name))
        inside = bool(re.search(r"/types\.ts\.tera$|/partials/(schema|param_schemas|type_aliases)\.ts\.tera$", name))
        if not (outside or inside):
            continue
        seen = set()
        for p_ in T.paths(name) or []:
            if not consistent(p_.conds):
                continue
            for it in p_.holes():
                h = it[1]
                if h in seen:
                    continue
                seen.add(h)
                base, filters, _ = split_hole(h)
                m = re.match(r"^\(([^()]*)\)(.*)$", base)
                if m:
                    base = m.group(1) + m.group(2)
                fo = typing.field_of(base)
                if not fo or fo[0] == "ambiguous" or prod.field(*fo) != TYPE_RENDER:
                    continue
                n_holes += 1
                q = "add_types_prefix" in filters
                if outside and not q:
                    r2.bad(V(r2.id, name, "unqualified-type-hole:%s" % h, "`{{ %s }}` (a rendered type, %s.%s) is interpolated in %s without add_types_prefix: custom type names there are not in scope" % (h, fo[0], fo[1], name)))
                elif inside and q:
                    r2.bad(V(r2.id, name, "qualified-inside-types:%s" % h, "`{{ %s }}` is namespace-qualified inside the types module itself, where `types` is not defined" % h))
                else:
                    r2.ok("%s: {{ %s }} %s" % (name, h, "qualified" if q else "unqualified (types module)"))
    # sibling agreement: every bracketing frame a TypeScript-type renderer can emit is one the qualifier has a branch for.  A renderer that starts
    # emitting a new frame (e.g. `(T | null)[]`) while add_types_prefix still only knows `X[]`, `X | null`, `Record<..>`, `[..]` yields `types.(T | null)[]`
    check_frames_known_to_qualifier(S, r2)
    r2.require_floor(12, "qualification branches and type holes")
    rules.append(r2)

    # ---------------------------------------------------------------- D3
    r3 = Rule("C02-D3-index", "D3",
              "generate_index_file receives file_writer.get_generated_files(); write_typescript_file pushes the name after fs::write succeeded; "
              "the index template loops over `files` and skips only \"index.ts\"",
              "an index that re-exports a file that was not written (or omits one that was) breaks the package entry point")
    gens = [t for t in P.trait_impls.get("tauri_typegen::generators::base::BaseBindingsGenerator::generate_models", []) if t in P.fns]
    for gid in gens:
        f = P.fns[gid]
        gi = [c for c in f.calls if c.best.endswith("::generate_index_file")]
        for c in gi:
            t = f.describe_origin(f.origin(c.args[1]), deep=3) if len(c.args) > 1 else ""
            if "get_generated_files" in t:
                r3.ok("%s: index built from file_writer.get_generated_files()" % short_path(gid))
            else:
                r3.bad(V(r3.id, gid, "index-source:%s" % t[:60], "the index is not built from the writer's list: %s" % t, c.file, c.line))
        if not gi:
            r3.bad(V(r3.id, gid, "no-index", "no index file is generated"))
        # ... and the list is read when it is complete: no content file is written after the index was rendered from the list (a file written
        # later — events.ts — exists on disk but is not re-exported)
        from rulelib import blocks_reachable_from as _brf
        for c in gi:
            after = _brf(f, c.bb)
            late = sorted({short_path(w_.best) for w_ in f.calls if w_.bb in f.reach_blocks and w_.bb in after and w_.bb != c.bb
                           and re.search(r"FileWriter::write_\w+_file$", short_path(w_.best)) and not short_path(w_.best).endswith("write_index_file")})
            if late:
                r3.bad(V(r3.id, gid, "index-rendered-before:%s" % ",".join(late), "%s renders the index from the writer's list and writes %s afterwards: that file is not "
                         "re-exported by index.ts" % (short_path(gid), late), c.file, c.line))
            else:
                r3.ok("%s: the index is rendered after the last content file was written" % short_path(gid))
    wt = P.find("FileWriter::write_typescript_file")
    for f in wt:
        from rulelib import continue_edge_of_try, blocks_reachable_from
        from c08 import write_skip_analysis
        w = [c for c in f.calls if strip_generics(c.path) == "std::fs::write" and c.bb in f.reach_blocks]
        pu = [c for c in f.calls if short_path(c.path) == "Vec::push" and c.bb in f.reach_blocks]
        if not w or not pu:
            r3.bad(V(r3.id, f.id, "shape:%d:%d" % (len(w), len(pu)), "unexpected shape of write_typescript_file"))
            continue
        # a name is recorded only for a file that is there: no push is reachable from the failing side of a write, and a push reached without
        # the write is one where the file on disk already equals the content (shared with C08-D2)
        bad_ = None
        for wc in w:
            ce = continue_edge_of_try(f, wc)
            if ce is None:
                okflow, how, _ = try_propagated(f, wc)
                if not okflow:
                    bad_ = "the result of fs::write is not propagated (%s)" % how
                continue
            for lab, tgt in f.succ_edges(ce[0]):
                if lab != ce[1] and any(p_.bb == tgt or p_.bb in blocks_reachable_from(f, tgt) for p_ in pu):
                    bad_ = "a push is reachable from the failing side of the write"
        st_, why_ = write_skip_analysis(P, f)
        seen_ = {0}
        work_ = [0]
        wbs = {c.bb for c in w}
        while work_:
            x = work_.pop()
            if x in wbs:
                continue
            for y in f.succ[x]:
                if y not in seen_:
                    seen_.add(y)
                    work_.append(y)
        if any(p_.bb in seen_ for p_ in pu) and st_ != "justified":
            bad_ = "a push is reachable without the write (%s)" % why_
        if bad_:
            r3.bad(V(r3.id, f.id, "push-before-write", "the file name is recorded although the write may not have happened: " + bad_, pu[0].file, pu[0].line))
        else:
            r3.ok("generated_files.push only after fs::write(..)? succeeded or the file already holds the content")
    sites = []
    for sf in S.fns:
        if sf.body is not None and sf.name == "generate_index_file":
            collect_renders(sf, sf.body, {}, sites)
            params = [a["pat"].get("name") for a in sf.sig.get("params", []) if a.get("pat")]
            for (_, tpl, keys) in sites[-1:]:
                val = (keys.get("files") or "").lstrip("&")
                if val in params and val != "self":
                    r3.ok("%s: `files` is the list handed in (%s)" % (sf.qname, val))
                else:
                    r3.bad(V(r3.id, sf.qname, "files-key:%s" % val, "the template's `files` is %r, not the list of written files passed in" % val))
    for mode in ("typescript", "zod"):
        name = "%s/index.ts.tera" % mode
        ast = T.ast_of(name)
        loops = [n for n in tera_walk(ast or []) if n.get("k") == "for"]
        conds = [tx(c["cond"]) for n in tera_walk(ast or []) if n.get("k") == "if" for c in n["conds"]]
        # every pass through the loop body either re-exports the file or is the pass for index.ts itself — whether the skip is written as
        # `if file != "index.ts" { export }` or as `if file == "index.ts" { continue }`
        body_ok = False
        loop_items = [it for p_ in (T.paths(name) or []) for it in p_.items if it[0] == "loop"]
        if loop_items:
            body_ok = True
            n_exp = 0
            for bp in loop_items[0][3]:
                if not consistent(bp.conds):
                    continue
                exports = re.search(r"export \* from '\./⟦file\|replace\(from=\"\.ts\",to=\"\"\)⟧'", bp.flat()) is not None
                cs = set()
                for (c_, v_) in bp.conds:
                    m_ = re.fullmatch(r'file (==|!=) "index\.ts"', c_)
                    cs.add(("is-index", v_ if m_ and m_.group(1) == "==" else (not v_)) if m_ else ("other:" + c_, v_))
                if exports and cs == {("is-index", False)}:
                    n_exp += 1
                elif not exports and cs == {("is-index", True)}:
                    pass
                else:
                    body_ok = False
            body_ok = body_ok and n_exp >= 1
        if len(loops) == 1 and tx(loops[0]["container"]) == "files" and body_ok:
            r3.ok("%s: loop over files, skipping only index.ts" % name)
        else:
            r3.bad(V(r3.id, name, "index-template:%s:%s" % ([tx(l["container"]) for l in loops], conds), "index template loops %s under %s" % ([tx(l["container"]) for l in loops], conds)))
    r3.require_floor(5, "index facts")
    rules.append(r3)

    # ---------------------------------------------------------------- D4 / D5 (rules shared with C07-D3 and C12-D6)
    r4 = Rule("C02-D4-declared-set-closed", "D4",
              "every name inserted into the declared set is the output of the transitive closure over field types (rule shared with C07-D3)",
              "a payload or field type that is referenced but not declared does not resolve inside types.ts")
    from c07 import check_closure_before_insert
    check_closure_before_insert(P, r4)
    # a serde type the tool fails to recognise is referenced but never declared (rule shared with C07-D5)
    from c07 import check_serde_filter, check_builtin_table
    check_serde_filter(S, P, r4)
    check_builtin_table(S, r4)
    # a type text the harvester takes apart wrongly yields no name: the type is referenced but never declared (shared with C07-D4 / C09-D4)
    from c07 import check_type_text_splitting
    check_type_text_splitting(P, r4)
    # names harvested from a field ahead of its assignment are the placeholder's, not the extracted values' (shared with C07-D1)
    from c07 import check_stale_harvest_reads
    check_stale_harvest_reads(P, r4, P.reachable(ENTRY_POINTS))
    # the payload type of `emit("e", v)` with `let v = Type::ctor(..)` is the leading path segment (shared with C12-D7)
    from c12 import check_init_type_selector
    check_init_type_selector(P, r4)
    for v in r4.violations:
        v.rule = r4.id
    r4.require_floor(2, "insertions into the declared set")
    rules.append(r4)
    r5 = Rule("C02-D5-one-export-per-event", "D5",
              "listeners are made unique by event name and by generated identifier (rule shared with C12-D6)",
              "two listeners with the same identifier declare the same exported name twice in events.ts")
    from c12 import check_event_uniqueness
    check_event_uniqueness(P, r5)
    for v in r5.violations:
        v.rule = r5.id
    r5.require_floor(2, "uniqueness steps")
    rules.append(r5)

    # ---------------------------------------------------------------- D6
    r6 = Rule("C02-D6-template-variable-typing", "D6",
              "for every render(\"template\", &context) call: each root identifier a template (and its includes) uses is a key inserted into that context, a "
              "loop/set variable or `loop`; each dotted path below a key whose Rust type is a context struct names a serialised field of that struct",
              "a dangling variable makes Tera fail at run time; the generator then writes an empty file, so every name it should have exported is missing")
    # struct field tables (serde names)
    def ser_fields(sname):
        st = S.structs.get(sname)
        if not st:
            return None
        camel = any(a["path"] == ["serde"] and "camelCase" in a["tokens"] for a in st["attrs"])
        out = {}
        for fld in st["fields"]:
            skip = any(a["path"] == ["serde"] and re.search(r"\bskip\b|skip_serializing\b", a["tokens"]) for a in fld["attrs"])
            if skip:
                continue
            nm = fld["name"]
            ren = [re.search(r'\brename\s*=\s*"([^"]*)"', a["tokens"]) for a in fld["attrs"] if a["path"] == ["serde"]]
            ren = [m.group(1) for m in ren if m]
            if ren:
                out[ren[0]] = fld["ty"]
                continue
            if camel:
                parts = nm.split("_")
                nm = parts[0] + "".join(x[:1].upper() + x[1:] for x in parts[1:])
            out[nm] = fld["ty"]
        return out
    def elem_struct(ty):
        m = re.findall(r"\b([A-Z]\w*Context)\b", ty or "")
        return m[-1] if m else None
    render_sites = []
    for f in S.fns:
        if f.body is None:
            continue
        collect_renders(f, f.body, {}, render_sites)
    n_paths = 0
    for (fn, tpl, keys) in render_sites:
        # MIR types of the inserted values
        ktypes = {}
        for mf in P.find("%s::%s" % (fn.owner, fn.name)) if fn.owner else []:
            for c in mf.calls:
                if strip_generics(c.path).endswith("tera::context::Context::insert") or short_path(c.path) == "Context::insert":
                    k = c.arg_str(1)
                    if k and c.generics:
                        ktypes[k] = c.generics[0]
        ast = T.ast_of(tpl)
        if ast is None:
            r6.bad(V(r6.id, "%s::%s" % (fn.owner, fn.name), "unregistered-template:%s" % tpl, "render(\"%s\") names a template that is not registered" % tpl))
            continue
        n_paths += check_template_vars(r6, tpl, ast, set(keys), ktypes, ser_fields, elem_struct, fn, T)
        check_import_guards(r6, tpl, ast, keys, fn, S.fns)
    r6.samples.append("%d render sites, %d variable paths resolved" % (len(render_sites), n_paths))
    r6.require_floor(60, "template variable paths")
    rules.append(r6)

    return finish(
        PROP, ctx, rules,
        "Declaration/reference patterns with their guards enumerated from the template control paths and the Rust-side emitters (truth table over "
        "has-parameters/has-channels), branch discipline of the qualification filter, provenance of the index list, and typing of every template "
        "variable path against the context keys and the serialised fields of the inserted Rust types.",
        ["collisions that depend on user identifiers (struct GetUserParams next to fn get_user)",
         "transitive closure of the declared set (C07-D3) and one export per event (C12-D6) are decided by those properties' checks"],
        ["Tera fails on an undefined variable path (documented); serde's rename_all = camelCase on the context structs"])


def lit_text(e):
    if e and e.get("k") == "lit" and e["lit"]["t"] in ("str", "char"):
        return e["lit"]["v"]
    return None


def check_import_guards(rule, tpl, ast, keys, fn, S_all=()):
    """`{% if G %}import type { Channel } ..{% endif %}`: the file mentions `Channel<..>` once per channel of each command, so the flag G handed in by
    the generator must be the existential "some command has a channel".  Decided on the value expression of the key: it reads the `channels`
    of the commands and combines them with an existential adapter; a universal one (`all`), or an expression that does not look at the channels,
    drops the import from files that use the name."""
    from srclib import walk as _walk, walk_block as _wb, pat_bindings as _pb, expr_text as _et, tera_expr_idents
    guards = []
    for node in ast:
        if node.get("k") != "if":
            continue
        for c in node["conds"]:
            ids = tera_expr_idents(c["cond"])
            txt = "".join(n_.get("v", "") for n_ in c["body"] if n_.get("k") == "text")
            if len(ids) == 1 and re.search(r"\bimport\b[^;]*\bChannel\b", txt):
                guards.append(ids[0])
    for g in guards:
        kv = keys.get(g)
        if kv is None or kv.ast is None:
            continue            # (dangling names are reported by the variable-typing rule)
        ex = kv.ast
        vfn = kv.fn or fn
        hops = 0
        unknown = False
        while hops < 6:
            hops += 1
            while ex.get("k") in ("ref", "paren") and isinstance(ex.get("expr"), dict):
                ex = ex["expr"]
            if ex.get("k") == "path" and len(ex.get("segs", [])) == 1:
                nm = ex["segs"][0]
                init = None
                for st in vfn.body or []:
                    if isinstance(st, dict) and st.get("k") == "let" and st.get("init") is not None and nm in _pb(st["pat"]):
                        init = st["init"]
                if init is None:
                    # a parameter: the value the (single) caller hands in
                    ps = [p_ for p_ in vfn.sig.get("params", [])]
                    pos = [i_ for i_, p_ in enumerate(ps) if (p_.get("pat") or {}).get("name") == nm]
                    has_self = bool(ps and ps[0].get("self"))
                    sites_ = []
                    if pos:
                        for g_ in S_all:
                            for x in (_wb(g_.body) if g_.body is not None else []):
                                if x.get("k") == "mcall" and x["method"] == vfn.name and has_self and len(x["args"]) == len(ps) - 1:
                                    sites_.append((g_, x["args"][pos[0] - 1]))
                                elif x.get("k") == "call" and _et(x["func"]).split("::")[-1].strip() == vfn.name and len(x["args"]) in (len(ps), len(ps) - (1 if has_self else 0)):
                                    sites_.append((g_, x["args"][pos[0] - (len(ps) - len(x["args"]))]))
                    if len(sites_) == 1:
                        vfn, ex = sites_[0]
                        continue
                    unknown = True
                    break
                ex = init
                continue
            break
        if unknown:
            rule.ok(None)       # handed in from more than one place / not a local: not followed
            continue
        # `!commands.iter().all(|c| c.channels.is_empty())` is the same existential (¬∀¬): an outer negation turns `all` into "some ... not"
        outer_neg = False
        while ex.get("k") in ("unary", "paren") and isinstance(ex.get("expr"), dict):
            if ex.get("k") == "unary" and ex.get("op") == "!":
                outer_neg = not outer_neg
            ex = ex["expr"]
        methods = [x["method"] for x in _walk(ex) if x.get("k") == "mcall"]
        # what the quantified predicate says about a command's channels: "has some" (`!c.channels.is_empty()`, `len() > 0`) or "has none"
        body_pol = None
        for x in _walk(ex):
            if x.get("k") == "mcall" and x["method"] in ("any", "all") and x.get("args") and x["args"][0].get("k") == "closure":
                bt = re.sub(r"\s+", "", _et(x["args"][0]["body"]))
                if re.fullmatch(r"!\w+\.channels\.is_empty\(\)", bt) or re.fullmatch(r"\w+\.channels\.len\(\)(>0|!=0|>=1)", bt):
                    body_pol = True
                elif re.fullmatch(r"\w+\.channels\.is_empty\(\)", bt) or re.fullmatch(r"\w+\.channels\.len\(\)==0", bt):
                    body_pol = False
        quant = "any" if ("any" in methods and "all" not in methods) else ("all" if ("all" in methods and "any" not in methods) else None)
        if quant is not None:
            good = (quant == "any" and not outer_neg and body_pol is not False) or (quant == "all" and outer_neg and body_pol is not True)
            # rewrite to the canonical pair the decision below reads: existential = `any`, everything else = `all`
            methods = [m_ for m_ in methods if m_ not in ("any", "all")] + (["any"] if good else ["all"])
        reads_channels = any(x.get("k") == "field" and x.get("member") == "channels" for x in _walk(ex))
        where = "%s::%s" % (vfn.owner, vfn.name)
        if "all" in methods and not any(m_ in methods for m_ in ("any", "find", "position", "flat_map", "filter", "sum", "count")):
            rule.bad(V(rule.id, where, "import-guard-universal:%s:%s" % (tpl, g), "`%s` (guard of the Channel import in %s) is not the existential \"some command has a "
                       "channel\" (quantifier, negation or predicate polarity differ): the import is missing in files that still mention Channel<..>" % (g, tpl)))
        elif not reads_channels and ex.get("k") in ("lit", "path", "mcall", "call", "binary", "unary") and not any(m_ in methods for m_ in ("any", "find", "position", "flat_map", "filter")):
            helper = [x for x in _walk(ex) if x.get("k") in ("call", "mcall")]
            if helper and ex.get("k") in ("call", "mcall") and not methods[:-1]:
                rule.ok(None)   # a helper computes it: not followed here
            else:
                rule.bad(V(rule.id, where, "import-guard-ignores-channels:%s:%s" % (tpl, g), "`%s` (guard of the Channel import in %s) is computed as `%s`, which does not "
                           "look at the commands' channels" % (g, tpl, _et(ex)[:80])))
        else:
            rule.ok("%s: the Channel import of %s is guarded by `%s` = %s (existential over the commands' channels)" % (where, tpl, g, _et(ex)[:70]))


from tpltypes import collect_renders     # noqa: E402  (one implementation of "which keys are in the context at this render call")


def walk_shallow(e):
    """walk an expression without descending into nested block expressions (they are separate scopes)"""
    from srclib import children
    stack = [e]
    first = True
    while stack:
        x = stack.pop()
        if not isinstance(x, dict):
            continue
        yield x
        if x.get("k") == "block" and not first:
            continue
        first = False
        if x.get("k") == "block":
            continue
        stack.extend(children(x))


def check_template_vars(r6, name, ast, keys, ktypes, ser_fields, elem_struct, fn, T):
    """resolve every identifier path; returns number of paths checked"""
    from srclib import tera_expr_idents
    n = 0

    def resolve(path, scope):
        parts = path.split(".")
        root = parts[0]
        if root == "loop":
            return True, None
        if root in scope:
            sname = scope[root]
        elif root in keys:
            sname = elem_struct(ktypes.get(root, ""))
        else:
            return False, "`%s` is neither a context key (%s) nor a loop/set variable" % (root, sorted(keys))
        for p in parts[1:]:
            if sname is None:
                return True, None  # untyped value (string, list of strings): deeper access not checkable
            flds = ser_fields(sname)
            if flds is None:
                return True, None
            if p not in flds:
                return False, "`%s` is not a serialised field of %s (has %s)" % (p, sname, sorted(flds))
            sname = elem_struct(flds[p])
        return True, sname

    def walk_nodes(nodes, scope, name=name, depth=0, share=False):
        nonlocal n
        if not share:
            scope = dict(scope)     # (the branches of an `if` open no scope in Tera: a `set` there is visible after it)
        for node in nodes:
            k = node.get("k")
            exprs = []
            if k == "var":
                exprs.append(node["e"])
            elif k == "set":
                exprs.append(node["value"])
            elif k == "for":
                exprs.append(node["container"])
            elif k == "if":
                for c in node["conds"]:
                    exprs.append(c["cond"])
            for e in exprs:
                for ident in tera_expr_idents(e):
                    n += 1
                    okr, why = resolve(ident, scope)
                    if okr:
                        r6.ok(None)
                    else:
                        r6.bad(V(r6.id, name, "dangling:%s" % ident, "template variable `%s` does not resolve in the context built by %s::%s: %s" % (ident, fn.owner, fn.name, why)))
            if k == "set":
                ids = tera_expr_idents(node["value"])
                t = None
                if len(ids) == 1 and not node["value"].get("filters") and node["value"]["val"]["k"] == "ident":
                    okr, t = resolve(ids[0], scope)
                scope[node["key"]] = t
            elif k == "for":
                ids = tera_expr_idents(node["container"])
                t = None
                if ids:
                    okr, t = resolve(ids[0], scope)
                inner = dict(scope)
                inner[node["value"]] = t
                if node.get("key"):
                    inner[node["key"]] = None
                walk_nodes(node["body"], inner, name, depth)
            elif k == "if":
                for c in node["conds"]:
                    walk_nodes(c["body"], scope, name, depth, share=True)
                if node.get("else"):
                    walk_nodes(node["else"], scope, name, depth, share=True)
            elif k == "include":
                # Tera includes see the including scope (loop and set variables included)
                sub = None
                for nm in node["names"]:
                    sub = T.ast_of(nm)
                    if sub is not None:
                        if depth < 6:
                            walk_nodes(sub, scope, nm, depth + 1)
                        break
                if sub is None:
                    r6.bad(V(r6.id, name, "missing-include:%s" % ",".join(node["names"]), "include of an unregistered template %s" % node["names"]))
    walk_nodes(ast, {})
    return n

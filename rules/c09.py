"""C09 — in Zod mode no schema is read before it is defined.

  D1  TPATH/FLOW  in zod/types.ts.tera the hole carrying the struct/enum schema definitions precedes the hole carrying the parameter
                  schemas, which precedes the type aliases; each hole is fed from the emitter of that section
  D2  FLOW        the loop that appends struct schemas iterates the value returned by topological_sort_types unchanged
  D3  ORDER       post-order DFS with sorted (order-free) visiting — shared with C20-D1..D4 and C13-D1
  D4  CTRL        resolve_types_lazily records add_dependencies(type, deps) for every resolved type, with deps harvested from all its fields
"""
import re

from common import Rule, V, finish
from mirlib import ENTRY_POINTS, short_path
from rulelib import is_try_branch
from srclib import walk_block, walk, lit_str, expr_text
from tplpaths import Templates
from unord import Unord

PROP = "C09"



def check_harvest_reaches_record(P, rule):
    """resolve_types_lazily: what extract_type_names harvests from a field reaches the set that is recorded as the type's dependencies and queued
    for resolution — either it is harvested straight into that set, or it is merged into it (extend) on every path of the same iteration.
    A merge that can be skipped (`continue` when the field mentions a mapped type, a size test, ...) loses the other names of that field."""
    from unord import Unord
    for f in P.find("CommandAnalyzer::resolve_types_lazily"):
        base = lambda op: Unord._base_local(None, f, op)
        ad = [c for c in f.calls if short_path(c.best) == "TypeDependencyGraph::add_dependencies" and c.bb in f.reach_blocks]
        hv = [c for c in f.calls if short_path(c.best) == "CommandAnalyzer::extract_type_names" and c.bb in f.reach_blocks]
        if not ad or not hv:
            rule.bad(V(rule.id, f.id, "harvest-anchors:%d:%d" % (len(hv), len(ad)), "resolve_types_lazily: %d harvest calls, %d add_dependencies calls" % (len(hv), len(ad))))
            continue
        recs = set()
        for a in ad:
            o = a.args[-1]
            oo = f.origin(o)
            while oo[0] == "proj":
                oo = oo[1]
            if oo[0] == "call" and oo[1].name in ("clone", "to_owned") and oo[1].args:
                recs.add(base(oo[1].args[0]))
            else:
                recs.add(base(o))
        for h in hv:
            acc = base(h.args[-1])
            if acc in recs:
                rule.ok("field types are harvested straight into the recorded dependency set")
                continue
            merges = [c for c in f.calls if c.name in ("extend", "union", "append") and c.bb in f.reach_blocks and len(c.args) >= 2
                      and base(c.args[0]) in recs and base(c.args[1]) == acc and f.dominates(h.bb, c.bb)]
            if not merges:
                rule.bad(V(rule.id, f.id, "harvest-not-recorded", "the names harvested from a field go into a set that is never merged into the recorded dependency set", h.file, h.line))
                continue
            for m in merges:
                # between the harvest and the merge (same iteration) nothing may divert control
                skips = []
                for (bb, keep, lose) in f.filter_branches(h.target if h.target is not None else h.bb, m.bb, stops=f.natural_loop_heads(h.bb)):
                    for lab in lose:
                        o, outcome = f.cond_struct(bb, lab)
                        skips.append("%s=%s" % (f.describe_origin(o)[:50], outcome))
                if skips:
                    rule.bad(V(rule.id, f.id, "harvest-conditionally-merged", "the names harvested from a field are merged into the dependency set only on some paths (skipped when %s): "
                               "the other types of that field are neither recorded as dependencies nor resolved" % "; ".join(sorted(set(skips)))[:160], m.file, m.line))
                else:
                    rule.ok("harvested field types are merged into the recorded set unconditionally")

def check(ctx):
    P = ctx.P
    S = ctx.S
    T = Templates(S)
    rules = []

    # ---------------------------------------------------------------- D1
    r1 = Rule("C09-D1-section-order", "D1",
              "zod/types.ts.tera prints struct_schemas, then param_schemas, then type_aliases; generate_types_file_content inserts under those keys "
              "the struct schema text, the rendered param_schemas partial and the rendered type_aliases partial respectively",
              "parameter schemas reference {X}Schema constants: printed before the struct section they read an undefined const")
    ps = T.paths("zod/types.ts.tera") or []
    for p in ps:
        order = [h[1] for h in p.holes(in_loops=False) if h[1] in ("struct_schemas", "param_schemas", "type_aliases")]
        if order == ["struct_schemas", "param_schemas", "type_aliases"]:
            r1.ok("types.ts.tera [%s]: struct_schemas < param_schemas < type_aliases" % p.cond_text())
        else:
            r1.bad(V(r1.id, "zod/types.ts.tera", "section-order:%s" % ">".join(order), "sections are printed in the order %s" % order))
    fn = [f for f in S.fns if f.owner == "ZodBindingsGenerator" and f.name == "generate_types_file_content"]
    if not fn:
        r1.bad(V(r1.id, "<anchor>", "missing:generate_types_file_content", "anchor not found"))
    else:
        fn = fn[0]
        inserts = {}
        for e in walk_block(fn.body):
            if e.get("k") == "mcall" and e["method"] == "insert" and len(e["args"]) == 2 and lit_str(e["args"][0]) in ("struct_schemas", "param_schemas", "type_aliases"):
                inserts[lit_str(e["args"][0])] = expr_text(e["args"][1]).lstrip("&")
        # what each local holds
        lets = {}
        for st in fn.body:
            pt_ = st.get("pat") or {}
            if pt_.get("k") == "typed":
                pt_ = pt_["pat"]
            if st.get("k") == "let" and pt_.get("k") == "ident" and st.get("init"):
                lets[pt_["name"]] = st["init"]
        def renders(var, tpl):
            init = lets.get(var)
            if init is None:
                return False
            # `self.render(tpl, &ctx)`, directly or through a private wrapper that is handed the template name (`self.render_or_empty(tpl, &ctx, ..)`)
            return any(x.get("k") in ("mcall", "call") and any(lit_str(a_) == tpl for a_ in x.get("args", [])) for x in walk(init))
        def deep_mentions(e, name, owner, depth=0):
            """does expression e call `name`, directly, inside a closure, or through a private helper of the same type?"""
            for x in walk(e):
                if x.get("k") == "mcall" and x["method"] == name:
                    return True
                if x.get("k") == "call" and x["func"].get("k") == "path" and x["func"]["segs"][-1] == name:
                    return True
                callee = x["method"] if x.get("k") == "mcall" else (x["func"]["segs"][-1] if x.get("k") == "call" and x["func"].get("k") == "path" else None)
                if callee and depth < 2:
                    for g in S.fns:
                        if g.name == callee and g.owner == owner and g.body is not None and g.name != fn.name:
                            if any(deep_mentions(y, name, owner, depth + 1) for y in walk_block(g.body)):
                                return True
            return False
        sv_ = inserts.get("struct_schemas")
        ok_struct_alt = sv_ in lets and deep_mentions(lets[sv_], "generate_struct_schema", fn.owner) and not any(
            x.get("k") == "mcall" and x["method"] in ("push_str", "insert_str", "clear", "truncate") and expr_text(x["recv"]) == sv_ for x in walk_block(fn.body))
        ok_struct = ok_struct_alt or inserts.get("struct_schemas") in lets and any(
            x.get("k") == "mcall" and x["method"] == "push_str" and expr_text(x["recv"]) == inserts.get("struct_schemas") and "generate_struct_schema" in expr_text(x["args"][0])
            for x in walk_block(fn.body))
        if ok_struct:
            r1.ok("struct_schemas ← concatenation of generate_struct_schema(..)")
        else:
            r1.bad(V(r1.id, "ZodBindingsGenerator::generate_types_file_content", "struct-section-source:%s" % inserts.get("struct_schemas"), "the struct section is not the concatenated struct schemas"))
        for key, tpl in (("param_schemas", "zod/partials/param_schemas.ts.tera"), ("type_aliases", "zod/partials/type_aliases.ts.tera")):
            if renders(inserts.get(key), tpl):
                r1.ok("%s ← render(%s)" % (key, tpl))
            else:
                r1.bad(V(r1.id, "ZodBindingsGenerator::generate_types_file_content", "section-source:%s:%s" % (key, inserts.get(key)), "context key %s is not fed from %s" % (key, tpl)))
    # param schemas / aliases only define Params names (they never define {X}Schema of structs)
    r1.require_floor(4, "section facts")
    rules.append(r1)

    # ---------------------------------------------------------------- D2
    r2 = Rule("C09-D2-emission-follows-sort", "D2",
              "the struct-schema loop iterates the Vec returned by analyzer.topological_sort_types(&names) as is: no rev/sort/dedup/filter on it, not the HashMap",
              "iterating the map (or a reversed list) emits a dependent before the schema it references")
    gf = P.find("ZodBindingsGenerator::generate_types_file_content")
    if not gf:
        r2.bad(V(r2.id, "<anchor>", "missing:generate_types_file_content(MIR)", "anchor not found"))
    else:
        f = gf[0]
        ts = [c for c in f.calls if short_path(c.best) == "CommandAnalyzer::topological_sort_types"]
        gsites = P.find_call_sites(f.id, lambda c: short_path(c.best) == "ZodBindingsGenerator::generate_struct_schema")
        gs = [c for (_, c) in gsites]
        if len(ts) != 1 or not gs:
            r2.bad(V(r2.id, f.id, "shape:%d:%d" % (len(ts), len(gs)), "expected one topological_sort_types call and a generate_struct_schema loop"))
        else:
            # the emission is repeated over the sorted list: a `for` loop over it, or an iterator chain over it whose closure emits
            srcs = P.iteration_sources(f.id, gsites[0][0], gsites[0][1])
            okh = False
            outer = [x for x in srcs if "topological_sort_types" in x]
            for src in outer[-1:]:
                if not re.search(r"\b(rev|sort\w*|dedup\w*|filter\w*|skip|take|step_by|chain)\(", src):
                    okh = True
                    r2.ok("loop source: %s" % src[:100])
                else:
                    r2.bad(V(r2.id, f.id, "loop-source:%s" % src[:80], "the struct-schema loop iterates `%s`, not the topological order as returned" % src, gs[0].file, gs[0].line))
            if not outer and srcs:
                r2.bad(V(r2.id, f.id, "loop-source:%s" % srcs[-1][:80], "the struct-schema loop iterates `%s`, not the topological order as returned" % srcs[-1], gs[0].file, gs[0].line))
            heads = srcs
            if not heads:
                r2.bad(V(r2.id, f.id, "no-loop", "generate_struct_schema is not called in a loop over the sorted names"))
            # the sorted vector is not mutated between the sort and the loop
            from c20 import recv_name
            sorted_name = f.lname(ts[0].dest["l"]) if not ts[0].dest.get("p") else None
            for c in f.calls:
                if c.name in ("reverse", "sort", "sort_by", "sort_by_key", "sort_unstable", "dedup", "retain", "swap", "truncate", "insert", "remove", "push") and c.args:
                    if sorted_name and recv_name(f, c) == sorted_name:
                        r2.bad(V(r2.id, f.id, "sorted-mutated:%s" % c.name, "the sorted list is modified by %s before it is emitted" % c.name, c.file, c.line))
            # requested set = keys of the used structs
            req = f.describe_origin(f.origin(ts[0].args[1]), deep=4) if len(ts[0].args) > 1 else ""
            if "used_structs" in req or "keys" in req or "collect" in req:
                r2.ok("requested set: names of the used structs")
            # lookups by name keep the order: get(name)
            r2.ok("schemas are looked up by name in sorted order")
    r2.require_floor(2, "emission facts")
    rules.append(r2)

    # ---------------------------------------------------------------- D3 (shared)
    r3 = Rule("C09-D3-order-free-post-order", "D3",
              "topological_visit emits a node after all its dependencies (no recursion reachable from the push; dependency lookup dominates it) and "
              "neither it nor topological_sort_types leaks hash-iteration order (sorted before visiting)",
              "the property must hold for every internal iteration order of the hash-based collections")
    v = P.fns.get("tauri_typegen::analysis::dependency_graph::TypeDependencyGraph::topological_visit")
    s_ = P.fns.get("tauri_typegen::analysis::dependency_graph::TypeDependencyGraph::topological_sort_types")
    if v is None or s_ is None:
        r3.bad(V(r3.id, "<anchor>", "missing:topological_visit", "anchor not found"))
    else:
        from rulelib import blocks_reachable_from
        rec = [c for c in v.calls if v.id in P.targets(c)]
        pushes = [c for c in v.calls if short_path(c.path) == "Vec::push"]
        for p in pushes:
            after = blocks_reachable_from(v, p.bb)
            if any(c.bb in after for c in rec):
                r3.bad(V(r3.id, v.id, "recursion-after-push", "a dependency can be visited after the node was emitted", p.file, p.line))
            else:
                r3.ok("post-order: no recursive visit reachable from the push")
        # every dependency is visited before the node is emitted: the loop over a node's dependencies runs until its iterator is exhausted
        # (a `break` on an already placed dependency leaves the later ones unvisited: the node's schema then precedes theirs)
        from rulelib import all_loop_exits
        for (drv_, exits_) in all_loop_exits(v):
            for (b_, to_, cond_, kind_) in exits_:
                r3.bad(V(r3.id, v.id, "dependency-loop-left-early:%s" % kind_, "the loop over a node's dependencies is left by `%s` under `%s`: dependencies after that point "
                         "are not visited before the node is emitted" % (kind_, cond_)))
            if not exits_:
                r3.ok("topological_visit: the dependency loop runs until its iterator is exhausted")
        U = Unord(P)
        for site in U.sites([v, s_]):
            if site.kind in ("erased", "sorted", "scalar"):
                r3.ok("%s: %s over %s — %s" % (short_path(site.fn.id), site.call.name, site.source, site.why))
            else:
                r3.bad(V(r3.id, site.fn.id, "order-leak:" + site.ident(), "%s iterates %s in hash order: %s" % (short_path(site.fn.id), site.source, site.why), site.call.file, site.call.line))
        # the same discipline through a generic helper (`for dep in sorted_names(deps)`): new private helpers are spliced into their callers, and a
        # generic one keeps its type parameters there, so the type-driven site enumeration above does not see what it iterates.  Such a helper
        # that builds a vector must sort it itself (then the hash order ends inside it); one that does not is reported
        for g_ in (v, s_):
            for hid in sorted({b_.get("inl") for b_ in g_.d.get("blocks", []) if b_.get("inl")}):
                hf = P.fns.get(hid)
                if hf is None or not re.search(r"Vec<", hf.locals[0] if hf.locals else ""):
                    continue
                generic = any(re.search(r"\b[A-Z]\b|impl |::Item", t_) for t_ in hf.locals[1:hf.arg_count + 1])
                if not generic:
                    continue
                sorts = any((cc.name or "").startswith("sort") or "BTree" in cc.path for k2 in P.family(hid) if "{promoted" not in k2 for cc in P.fns[k2].calls if cc.bb in P.fns[k2].reach_blocks)
                if sorts:
                    r3.ok("%s: the generic helper %s returns the names it was handed sorted" % (short_path(g_.id), short_path(hid)))
                else:
                    r3.bad(V(r3.id, g_.id, "order-leak:generic-helper:%s" % short_path(hid), "%s collects what it is handed into a vector without sorting it: when it is handed a "
                             "hash-based collection the visiting order is the hash order" % short_path(hid)))
    r3.require_floor(2, "ordering facts")
    rules.append(r3)

    # ---------------------------------------------------------------- D4
    r4 = Rule("C09-D4-edges-recorded", "D4",
              "resolve_types_lazily calls add_dependencies(type_name, deps) for every type it resolves, under no guard beyond successful resolution, "
              "with deps harvested by extract_type_names from every field of that type",
              "a type without recorded edges is treated as independent and may be emitted before what it references")
    from c07 import check_harvester_normalisation
    check_harvester_normalisation(S, r4)
    from c07 import check_type_text_splitting
    check_type_text_splitting(P, r4)
    # ... and the argument list of a map / tuple is cut by a scan that tracks all three bracket kinds: a comma inside a tuple key is no separator
    # (shared with C05-D5 / C01-D4); otherwise the fragments `(A` and `B)` name no type and the edge to A and B is not recorded
    from c05 import check_splitters
    n_before = len(r4.violations)
    check_splitters(S, r4)
    for v_ in r4.violations[n_before:]:
        v_.rule = r4.id
    for v in r4.violations:
        v.rule = r4.id
    rl = P.find("CommandAnalyzer::resolve_types_lazily")
    if not rl:
        r4.bad(V(r4.id, "<anchor>", "missing:resolve_types_lazily", "anchor not found"))
    else:
        f = rl[0]
        ad = [c for c in f.calls if short_path(c.best) == "TypeDependencyGraph::add_dependencies"]
        ins = [c for c in f.calls if short_path(c.path) == "HashMap::insert" and "StructInfo" in " ".join(c.generics)]
        if len(ad) != 1:
            r4.bad(V(r4.id, f.id, "add_dependencies-calls:%d" % len(ad), "expected one add_dependencies call"))
        # the set recorded as a type's edges is built for that type only: it is created (HashSet::new / clear) inside the iteration that resolves
        # the type — a scratch set that lives across iterations makes every type inherit the edges of the ones resolved before it
        for c in ad:
            o_ = f.origin(c.args[-1]) if c.args else ("?",)
            while o_[0] == "proj":
                o_ = o_[1]
            if o_[0] == "call" and o_[1].name in ("clone", "to_owned") and o_[1].args:
                o_ = f.origin(o_[1].args[0])
                while o_[0] == "proj":
                    o_ = o_[1]
            if o_[0] == "call" and o_[1].name in ("new", "default", "with_capacity", "collect", "from_iter"):
                ha = f.natural_loop_heads(c.bb)
                hn = f.natural_loop_heads(o_[1].bb)
                # the set must be created inside every loop that surrounds the add_dependencies call (each such loop iterates over types)
                outside = [h for h in ha if h not in hn]
                # ... or emptied at the start of the iteration: a clear()/drain() of that very set inside those loops, before the record is made
                if outside:
                    for c2 in f.calls:
                        if c2.name in ("clear", "drain") and c2.args and f.dominates(c2.bb, c.bb) and all(h in f.natural_loop_heads(c2.bb) for h in outside):
                            o2 = f.origin(c2.args[0])
                            while o2[0] == "proj":
                                o2 = o2[1]
                            if o2[0] == "call" and o2[1] is o_[1]:
                                outside = []
                                break
                if outside:
                    r4.bad(V(r4.id, f.id, "dependency-set-outlives-type", "the dependency set handed to add_dependencies is created outside the loop over the resolved types and reused: edges of earlier types leak into later ones (false cycles, wrong order)", o_[1].file, o_[1].line))
                else:
                    r4.ok("the dependency set is created per resolved type")
            else:
                r4.notes.append("dependency-set origin not a constructor: %s" % f.describe_origin(o_)[:80])
        for c in ad:
            extra = []
            for (bb, keep, lose) in f.filters_in_iteration(c.bb):
                o, _ = f.cond_struct(bb, keep[0])
                if o[0] == "call":
                    nm = short_path(o[1].best)
                    if o[1].name in ("next", "pop") or nm in ("HashSet::contains", "HashMap::contains_key", "TypeDependencyGraph::get_type_definition_path", "AstCache::get_cloned",
                                                               "CommandAnalyzer::extract_type_from_ast", "Option::cloned", "TypeDependencyGraph::has_type_definition") or is_try_branch(o[1]):
                        continue
                    # the worklist's own exhaustion test (`while !pending.is_empty() { let t = pending.pop().unwrap(); .. }`)
                    if o[1].name == "is_empty" and o[1].args:
                        from unord import Unord as _U
                        wl_ = {_U._base_local(None, f, c2.args[0]) for c2 in f.calls if short_path(c2.path) in ("Vec::pop", "VecDeque::pop_front", "VecDeque::pop_back") and c2.args}
                        if _U._base_local(None, f, o[1].args[0]) in wl_:
                            continue
                    extra.append(nm)
                elif o[0] in ("proj", "multi", "arg"):
                    continue
                else:
                    extra.append(o[0])
            if extra:
                r4.bad(V(r4.id, f.id, "edge-recording-filters:%s" % ",".join(sorted(extra)), "branches on %s can skip recording a resolved type's dependencies" % extra, c.file, c.line))
            else:
                r4.ok("add_dependencies for every resolved type (only resolution tests in between)")
            # same iteration also stores the struct: edges exist for every declared type
            if ins and any(f.dominates(c.bb, i.bb) or f.dominates(i.bb, c.bb) for i in ins):
                r4.ok("the type is stored in the same straight-line segment as its edges")
            else:
                r4.bad(V(r4.id, f.id, "edges-and-store-diverge", "a resolved type can be stored without its dependency edges"))
            deps = f.describe_origin(f.origin(c.args[2]), deep=2) if len(c.args) > 2 else ""
        # deps filled from all fields
        et = [c for c in f.calls if short_path(c.best) == "CommandAnalyzer::extract_type_names"]
        okf = False
        for c in et:
            t = f.describe_origin(f.origin(c.args[1]), short=False, deep=3)
            if "FieldInfo.rust_type" in t:
                heads = f.enclosing_loop_heads(c.bb)
                if heads:
                    src = f.describe_origin(f.origin(f.call_at(max(heads, key=lambda h: len(f.dom[h]))).args[0]), deep=4)
                    if "StructInfo.fields" in src and not re.search(r"\b(take|skip|filter\w*|step_by)\(", src):
                        okf = True
        if not okf:
            # the same through an accessor that yields every field's type text (`for t in struct_info.field_rust_types()`): the loop's element
            # comes from FieldInfo.rust_type of StructInfo.fields and no adapter on the way drops elements
            from c07 import model_fields_in_slice
            for c in et:
                via = model_fields_in_slice(P, f, c.args[1])
                fed = {x.split("::")[-1] for x in f.feeding_calls(c.args[1], depth=8)}
                if {"FieldInfo.rust_type", "StructInfo.fields"} <= via and not (fed & {"take", "skip", "filter", "filter_map", "step_by", "take_while", "skip_while", "nth", "last", "first"}) \
                        and f.enclosing_loop_heads(c.bb):
                    okf = True
        check_harvest_reaches_record(P, r4)
        if okf:
            r4.ok("deps harvested from every field's rust_type")
        else:
            r4.bad(V(r4.id, f.id, "deps-source", "dependencies are not harvested from every field of the resolved type"))
    r4.require_floor(3, "edge facts")
    rules.append(r4)

    return finish(
        PROP, ctx, rules,
        "Hole order of the Zod types template, provenance of each section's content, loop-source provenance of the schema emission, "
        "post-order/ordering facts of the DFS (shared with C20/C13), divert-branch enumeration around add_dependencies.",
        ["that the harvested edge set (text scanner) equals the set of {X}Schema references of the rendered right-hand side (TypeStructure scanner): a semantic equivalence of two scanners",
         "cyclic type graphs (the statement is conditional on acyclicity)"],
        ["z.object/z.enum right-hand sides reference exactly the schemas of the field types' custom names"])

"""C01 — every generated file is syntactically valid TypeScript (structural necessary conditions).

  D1  TPATH/LEX  every control path of every rendered template, holes replaced by placeholders, lexes as TypeScript: strings and comments are
                 terminated, ()[]{} and the generic brackets <> nest; every loop body is balanced on its own (so it may repeat 0..n times)
  D2  HAZARD     sink typing: the lexical context of every hole (declared identifier, member after `.`, unquoted property key, '..' / ".."
                 string, comment, type/expression position) is derived from the template text; the characters the hole's value may contain are
                 derived from the Rust code that fills the context field (model seed -> naming function -> context field -> filters);
                 a hole whose value may contain a character its context forbids is a violation.  The same for the Rust-side emitters.
  D3  SHAPE      every rendering of every TypeStructure constructor by the four visitor entries is bracket-balanced around its recursive holes
  D4  SV/CTRL    no Rust surface syntax: the type parser's fall-through (TypeStructure::Custom of the remaining text) is reached only by text that
                 was validated as a plain identifier
"""
import json
import re

from common import Rule, V, finish
from srclib import walk, walk_block, lit_str, expr_text, stmt_exprs, pat_bindings, pat_text
from svlib import SVEval, render, leaves
from tplpaths import Templates, Path, consistent
from tpltypes import Typing

PROP = "C01"

# ------------------------------------------------------------------------------------------------ hazards
ALL = frozenset(["dq", "sq", "bs", "nl", "dash", "colon", "slash", "raw", "reserved", "empty", "leaddigit", "punct", "starslash"])
NONE = frozenset()
RUST_IDENT = frozenset(["raw", "reserved"])
FREE = ALL
EVENT = frozenset(["dash", "colon", "slash", "leaddigit"])
FSPATH = frozenset(["slash", "bs", "dash", "colon", "punct"])
TYPETEXT = frozenset(["punct", "colon", "raw", "sq"])       # Rust type text (`&'a str`, `a::B<C>`)
TYPE_RENDER = frozenset(["<type>"])                         # output of a visitor: decided by D3/D4, legal only in type/expression position
PRE_RENDERED = frozenset(["<rendered>"])                    # output of another template: decided by that template's own paths
UNKNOWN = frozenset(["<unknown>"])

HAZ_TEXT = {"dq": '"', "sq": "'", "bs": "\\", "nl": "line break", "dash": "-", "colon": ":", "slash": "/", "raw": "r#", "reserved": "JS reserved word",
            "empty": "empty string", "leaddigit": "leading digit", "punct": "other punctuation", "starslash": "*/"}

# seeds: what a model field may contain, from the property's input space (Rust identifiers, serde rename values, Tauri event names ..)
MODEL = {
    ("CommandInfo", "name"): RUST_IDENT, ("ParameterInfo", "name"): RUST_IDENT, ("StructInfo", "name"): RUST_IDENT,
    ("FieldInfo", "name"): RUST_IDENT, ("ChannelInfo", "parameter_name"): RUST_IDENT, ("ChannelInfo", "command_name"): RUST_IDENT,
    ("ParameterInfo", "serde_rename"): FREE, ("FieldInfo", "serde_rename"): FREE, ("ChannelInfo", "serde_rename"): FREE,
    ("EventInfo", "event_name"): EVENT,
    ("CommandInfo", "file_path"): FSPATH, ("ChannelInfo", "file_path"): FSPATH, ("EventInfo", "file_path"): FSPATH, ("StructInfo", "file_path"): FSPATH,
    ("CommandInfo", "line_number"): NONE, ("ChannelInfo", "line_number"): NONE, ("EventInfo", "line_number"): NONE,
    ("CommandInfo", "return_type"): TYPETEXT, ("ParameterInfo", "rust_type"): TYPETEXT, ("FieldInfo", "rust_type"): TYPETEXT,
    ("ChannelInfo", "message_type"): TYPETEXT, ("EventInfo", "payload_type"): TYPETEXT,
    ("CommandInfo", "is_async"): NONE, ("ParameterInfo", "is_optional"): NONE, ("FieldInfo", "is_optional"): NONE, ("StructInfo", "is_enum"): NONE,
}
# parameters that are filled from a model field by every caller (one line of reason each)
PARAM_SEEDS = {
    ("StructContext", "from_struct_info", "name"): ("StructInfo", "name"),   # key of the used-struct map = StructInfo.name (C07 decides the map)
    ("ZodBindingsGenerator", "generate_object_schema", "name"): ("StructInfo", "name"),   # element of the sorted struct-name list (C09)
    ("ZodBindingsGenerator", "generate_enum_schema", "name"): ("StructInfo", "name"),
}
RAW_NAME_FIELDS = [("CommandInfo", "name"), ("ParameterInfo", "name"), ("StructInfo", "name"), ("FieldInfo", "name"), ("ChannelInfo", "parameter_name")]

JS_RESERVED = set("break case catch class const continue debugger default delete do else enum export extends false finally for function if import in "
                  "instanceof new null return super switch this throw true try typeof var void while with yield let static implements interface package "
                  "private protected public await".split())


def lit_hazards(s):
    h = set()
    if s == "":
        return frozenset(["empty"])
    for ch, name in (('"', "dq"), ("'", "sq"), ("\\", "bs"), ("\n", "nl"), ("-", "dash"), (":", "colon"), ("/", "slash")):
        if ch in s:
            h.add(name)
    if re.search(r"[^\w\"'\\\n\-:/$]", s):
        h.add("punct")
    if s[0].isdigit():
        h.add("leaddigit")
    if s in JS_RESERVED:
        h.add("reserved")
    return frozenset(h)


TRANSPARENT = {"clone", "to_string", "to_owned", "as_str", "into", "as_ref", "as_deref", "borrow", "to_vec", "iter", "cloned", "unwrap", "unwrap_or_default"}
VISITOR_ENTRIES = {"visit_type", "visit_type_for_interface"}


FIXED_RULES = {"CamelCase", "PascalCase", "SnakeCase", "LowerCase", "UpperCase", "ScreamingSnakeCase"}
BOOLISH = {"any", "all", "is_empty", "len", "contains", "is_some", "is_none", "starts_with", "ends_with", "count"}


def conv(h, rule_text):
    """effect of RenameRule::<rule>.apply_to_field/variant on a hazard class"""
    h = set(h)
    m = re.search(r"RenameRule\s*::\s*(\w+)$", rule_text or "")
    rule = m.group(1) if m else None
    if rule not in FIXED_RULES:
        h.add("dash")            # may be kebab-case / SCREAMING-KEBAB-CASE
    if rule not in ("SnakeCase", "ScreamingSnakeCase"):
        h.add("empty")           # `__` -> "" for the word-joining rules
        h.add("leaddigit")       # `_2fa` -> `2fa`: the word-joining rules drop the underscore a Rust identifier needs in front of a digit
    if rule in ("PascalCase", "UpperCase", "ScreamingSnakeCase"):
        h.discard("reserved")
    return frozenset(h)


class Producers:
    """hazard class of every context-struct field, computed from the code that assigns it (syntactic, interprocedural through
    `self.<naming fn>(..)` calls and through the callers of a constructor parameter)"""

    def __init__(self, S, ev):
        self.S = S
        self.memo = {}
        self.notes = []
        self.model = dict(MODEL)
        self._seed_raw()

    # -- `raw` stays in a name seed unless every construction site of that model field unraws the identifier
    def _seed_raw(self):
        S = self.S
        for (m, fld) in RAW_NAME_FIELDS:
            sites = []
            for f in S.fns:
                if f.body is None or "/analysis/" not in "/" + f.file:
                    continue
                for e in walk_block(f.body):
                    if e.get("k") == "struct" and e["path"][-1] == m:
                        for fe in e["fields"]:
                            if fe["member"] == fld:
                                sites.append((f, fe["expr"]))
            if not sites:
                self.notes.append("seed %s.%s: no construction site found, keeping `raw`" % (m, fld))
                continue
            if all(self._mentions_unraw(f, ex, 0) for f, ex in sites):
                self.model[(m, fld)] = self.model[(m, fld)] - {"raw"}
                self.notes.append("seed %s.%s: all %d construction sites unraw the identifier" % (m, fld, len(sites)))

    def _mentions_unraw(self, f, e, depth):
        if depth > 4:
            return False
        for x in walk(e):
            if x.get("k") == "mcall" and x["method"] == "unraw":
                return True
            if x.get("k") == "call" and expr_text(x["func"]).endswith("unraw"):
                return True
        if e.get("k") == "path" and len(e["segs"]) == 1:
            init = self._let_init(f, e["segs"][0])
            if init is not None:
                return self._mentions_unraw(f, init, depth + 1)
            # a parameter of a (new) helper that builds the model value: what every caller hands in
            plist = [p for p in f.sig.get("params", []) if p.get("pat")]
            idx = [i for i, p in enumerate(plist) if p["pat"].get("name") == e["segs"][0]]
            if idx:
                sites = []
                for g in self.S.fns:
                    if g.body is None:
                        continue
                    for x in walk_block(g.body):
                        if x.get("k") == "mcall" and x["method"] == f.name and len(x["args"]) == len(plist):
                            sites.append((g, x["args"][idx[0]]))
                        elif x.get("k") == "call" and len(x["args"]) == len(plist) and re.sub(r"\s+", "", expr_text(x["func"])).split("::")[-1] == f.name:
                            sites.append((g, x["args"][idx[0]]))
                if sites:
                    return all(self._mentions_unraw(g, a, depth + 1) for g, a in sites)
        return False

    def _stmts(self, f):
        """every statement of the function, nested blocks and closure bodies included"""
        out = []

        def rec_stmts(stmts):
            for st in stmts or []:
                if not isinstance(st, dict):
                    continue
                out.append(st)
                for e in stmt_exprs(st):
                    rec_expr(e)

        def rec_expr(e):
            for x in walk(e):
                k = x.get("k")
                if k == "if":
                    rec_only(x["then"])
                if k == "block":
                    rec_only(x["stmts"])
                if k in ("loop", "while", "for") and isinstance(x.get("body"), list):
                    rec_only(x["body"])

        def rec_only(stmts):
            for st in stmts or []:
                if isinstance(st, dict) and st.get("k") in ("let", "expr", "item"):
                    out.append(st)
        rec_stmts(f.body)
        return out

    def _let_init(self, f, name):
        found = None
        for st in self._stmts(f):
            if st.get("k") == "let" and st.get("init") is not None and name in pat_bindings(st["pat"]):
                found = st["init"]
        return found

    def _let_tuple_component(self, f, name):
        """`let (a, b) = (x, y);` / `let (a, b) = self.pair_of(..);` where pair_of ends in a tuple expression: the expression that `name` stands
        for, with the function and parameter environment it is to be evaluated in"""
        for st in self._stmts(f):
            if st.get("k") != "let" or st.get("init") is None:
                continue
            pat = st["pat"]["pat"] if st["pat"].get("k") == "typed" else st["pat"]
            if pat.get("k") != "tuple":
                continue
            idx = None
            for i, sub in enumerate(pat["elems"]):
                if pat_bindings(sub) == [name]:
                    idx = i
            if idx is None:
                continue
            init = st["init"]
            while init.get("k") in ("paren",):
                init = init["expr"]
            if init.get("k") == "tuple" and idx < len(init["elems"]):
                return (init["elems"][idx], f, None)
            callee = init["method"] if init.get("k") == "mcall" and expr_text(init["recv"]) == "self" else (
                init["func"]["segs"][-1] if init.get("k") == "call" and init["func"].get("k") == "path" else None)
            if callee:
                for g in [x for x in self.S.fns if x.name == callee and x.body]:
                    tail = g.body[-1]
                    te = tail["e"] if tail.get("k") == "expr" and not tail.get("semi") else None
                    while isinstance(te, dict) and te.get("k") == "paren":
                        te = te["expr"]
                    if isinstance(te, dict) and te.get("k") == "tuple" and idx < len(te["elems"]):
                        params = [p["pat"]["name"] for p in g.sig.get("params", []) if p.get("pat") and p["pat"].get("name")]
                        args = [self.expr(a, f, {}, (), 1) for a in init["args"]]
                        return (te["elems"][idx], g, dict(zip(params, args)))
        return None

    def _pushes_ctx(self, f, name):
        """[(pushed expression, [(condition, truth) ...enclosing ifs])] for `name.push(..)` / `name.push_str(..)` anywhere in f"""
        out = []

        def visit_expr(e, guards):
            if not isinstance(e, dict):
                return
            k = e.get("k")
            if k == "if":
                c = e["cond"]
                if c.get("k") != "letcond":
                    visit_expr(c, guards)
                    visit_stmts(e["then"], guards + [(c, True)])
                    if e.get("else") is not None:
                        visit_expr(e["else"], guards + [(c, False)])
                else:
                    visit_expr(c.get("expr"), guards)
                    visit_stmts(e["then"], guards)
                    if e.get("else") is not None:
                        visit_expr(e["else"], guards)
                return
            if k == "block":
                visit_stmts(e["stmts"], guards)
                return
            if k == "closure":
                return
            if k == "mcall" and e["method"] in ("push_str", "push") and expr_text(e["recv"]) == name and e["args"]:
                out.append((e["args"][0], list(guards)))
            from srclib import children
            for c_ in children(e):
                visit_expr(c_, guards)

        def visit_stmts(stmts, guards):
            for st in stmts or []:
                for e in stmt_exprs(st):
                    visit_expr(e, guards)
        visit_stmts(f.body, [])
        return out

    def _loop_source(self, f, name):
        """`for name in SRC.chars()` somewhere in f: SRC"""
        for e in walk_block(f.body):
            if e.get("k") == "for" and name in pat_bindings(e["pat"]):
                it = e["iter"]
                while it.get("k") in ("paren", "ref"):
                    it = it["expr"]
                if it.get("k") == "mcall" and it["method"] == "chars" and not it["args"]:
                    return it["recv"]
        return None

    def _pushes(self, f, name):
        out = []
        for e in walk_block(f.body):
            if e.get("k") == "mcall" and e["method"] in ("push_str", "push") and expr_text(e["recv"]) == name and e["args"]:
                out.append(e["args"][0])
        return out

    # -- context field
    def field(self, struct, fld, stack=()):
        key = (struct, fld)
        if key in self.memo:
            return self.memo[key]
        if key in stack:
            return NONE
        out = set()
        n = 0
        for f in self.S.fns:
            if f.body is None:
                continue
            for e in walk_block(f.body):
                if e.get("k") != "assign" or e["l"].get("k") != "field" or e["l"]["member"] != fld:
                    continue
                base = expr_text(e["l"]["base"])
                if not ((f.owner == struct and base == "self") or self._local_struct(f, base) == struct):
                    continue
                n += 1
                out |= self.expr(e["r"], f, {}, stack + (key,))
        if n == 0:
            # structs that are only ever built by a literal (GlobalContext)
            sites = []
            for f in self.S.fns:
                if f.body is None:
                    continue
                for e in walk_block(f.body):
                    if e.get("k") == "struct" and e["path"][-1] in (struct, "Self") and (e["path"][-1] == struct or f.owner == struct):
                        sites.append((f, e))
            # placeholder values of a constructor (`new()` filling every field with an empty default) do not survive when the value handed on is
            # a *complete* literal built elsewhere (every field given, no `..base`): only that literal's fields reach the templates
            nfields = len((self.S.structs.get(struct) or {}).get("fields", []))
            complete = [(f, e) for (f, e) in sites if f.name not in ("new", "default") and not e.get("rest") and nfields and len(e["fields"]) == nfields]
            if complete:
                sites = [(f, e) for (f, e) in sites if f.name not in ("new", "default")]
            for (f, e) in sites:
                for fe in e["fields"]:
                    if fe["member"] == fld:
                        n += 1
                        out |= self.expr(fe["expr"], f, {}, stack + (key,))
        if n == 0:
            out |= UNKNOWN
            self.notes.append("no producer found for %s.%s" % (struct, fld))
        self.memo[key] = frozenset(out)
        return self.memo[key]

    def declared_names_capitalised(self):
        """types are discovered only through extract_type_names_recursive, whose insert is guarded by `!name.starts_with(char::is_lowercase)`:
        a struct whose name starts with a lowercase letter is never declared (so no reserved word is)"""
        if "_cap" in self.memo:
            return self.memo["_cap"]
        ok = False
        from c07 import find_harvester
        fn = find_harvester(self.S)
        if fn is not None:
            for e in walk_block(fn.body):
                if e.get("k") == "if" and any(x.get("k") == "mcall" and x["method"] == "insert" for x in walk_block(e["then"])):
                    ct = expr_text(e["cond"])
                    if re.search(r"!\s*\w+\.starts_with\(char::is_lowercase\)", ct):
                        ok = True
        self.notes.append("declared type names start with a non-lowercase character: %s" % ok)
        self.memo["_cap"] = ok
        return ok

    def _local_struct(self, f, var):
        init = self._let_init(f, var)
        if init is None:
            return None
        m = re.match(r"^(\w+Context)::new\(", expr_text(init))
        return m.group(1) if m else None

    def _param_ty(self, f, name):
        for p in f.sig.get("params", []):
            if p.get("pat") and p["pat"].get("name") == name:
                return p.get("ty", "")
        return None

    def refine(self, env_in, cond, truth, f, env_base, stack, depth):
        """environment under `cond == truth` for the guards the repository uses on names (reserved word / leading digit / empty), looking through
        `!`, parentheses, and `a && b` (when true) / `a || b` (when false)"""
        c = cond
        while c.get("k") == "paren":
            c = c["expr"]
        if c.get("k") == "unary" and c.get("op") == "!":
            return self.refine(env_in, c["expr"], not truth, f, env_base, stack, depth)
        if c.get("k") == "binary" and ((c["op"] == "&&" and truth) or (c["op"] == "||" and not truth)):
            e1 = self.refine(env_in, c["l"], truth, f, env_base, stack, depth)
            return self.refine(e1, c["r"], truth, f, env_base, stack, depth)
        g = self.guard_of(c, f)
        if g is None:
            return env_in
        var, removed = g
        cur = set(env_in[var]) if var in env_in and isinstance(env_in[var], frozenset) else set(self.expr({"k": "path", "segs": [var]}, f, env_base, stack, depth + 1))
        out = dict(env_in)
        if truth:
            if removed == {"reserved"}:
                out[var] = frozenset(["reserved"])          # one of the listed words: letters only
            elif removed == {"leaddigit"}:
                out[var] = frozenset(cur - {"empty", "reserved"})
            elif removed == {"<alnum>"}:
                out[var] = frozenset(cur & {"leaddigit", "empty"})      # letters and digits of the source only
            elif removed == {"empty"}:
                out[var] = frozenset(cur & {"empty"})
                # `conv(y).is_empty()` holds only when y has no word characters (separators only): y keeps at most `empty`
                vinit = self._let_init(f, var)
                if vinit is not None and vinit.get("k") == "mcall" and vinit["method"] in ("apply_naming_convention", "apply_to_field", "apply_to_variant") and vinit["args"]:
                    y = vinit["args"][0]
                    while y.get("k") in ("ref", "paren"):
                        y = y["expr"]
                    if y.get("k") == "path" and len(y["segs"]) == 1:
                        out[y["segs"][0]] = frozenset(set(self.expr(y, f, env_base, stack, depth + 1)) & {"empty"})
        elif removed != {"<alnum>"}:
            out[var] = frozenset(cur - removed)
        return out

    @staticmethod
    def _diverges(stmts):
        if not stmts:
            return False
        last = stmts[-1]
        if last.get("k") != "expr":
            return False
        e = last["e"]
        return e.get("k") in ("return", "continue", "break") or (e.get("k") == "macro" and e.get("name") in ("panic", "unreachable", "unimplemented", "todo"))

    def block_value(self, stmts, f, env, stack, depth):
        """class of a block used as a value: its tail expression plus every explicit `return`; statements are taken in order, so a guard clause
        (`if guard(v) { return ..; }`) refines v for everything after it"""
        out = set()
        env = dict(env)
        n = len(stmts or [])
        for i, st in enumerate(stmts or []):
            last = (i == n - 1)
            if st.get("k") == "let" and st.get("init") is not None and not last:
                out |= self.returns_of([st], f, env, stack, depth)
                continue
            if st.get("k") == "expr":
                e = st["e"]
                if last and not st.get("semi"):
                    out |= self.expr(e, f, env, stack, depth + 1)
                    out |= self.returns_of([st], f, env, stack, depth, skip_tail=True)
                    continue
                if e.get("k") == "if" and e.get("else") is None and e["cond"].get("k") != "letcond" and self._diverges(e["then"]):
                    env_t = self.refine(env, e["cond"], True, f, env, stack, depth)
                    out |= self.returns_of(e["then"], f, env_t, stack, depth + 1)
                    env = self.refine(env, e["cond"], False, f, env, stack, depth)
                    continue
                out |= self.returns_of([st], f, env, stack, depth)
        return frozenset(out)

    def block_value_old(self, stmts, f, env, stack, depth):
        """class of a block used as a value: its tail expression plus every explicit `return` (evaluated under the bindings of the
        if-let / match arm that encloses it)"""
        out = set()
        if stmts:
            last = stmts[-1]
            if last.get("k") == "expr" and not last.get("semi"):
                out |= self.expr(last["e"], f, env, stack, depth + 1)
        out |= self.returns_of(stmts, f, env, stack, depth, skip_tail=True)
        return frozenset(out)

    def returns_of(self, stmts, f, env, stack, depth, skip_tail=False):
        out = set()
        if depth > 40:
            return out
        n = len(stmts or [])
        for i, st in enumerate(stmts or []):
            tail = skip_tail and i == n - 1 and st.get("k") == "expr" and not st.get("semi")
            for e in stmt_exprs(st):
                out |= self._returns_expr(e, f, env, stack, depth + 1, value_position=tail)
        return out

    def _returns_expr(self, e, f, env, stack, depth, value_position=False):
        """classes of the `return` expressions below e; value_position: e's own value was already accounted for by the caller"""
        out = set()
        if not isinstance(e, dict) or depth > 40:
            return out
        k = e.get("k")
        if k == "closure":
            return out
        if k == "return":
            if e.get("expr") is not None:
                out |= self.expr(e["expr"], f, env, stack, depth + 1)
            return out
        if k == "if":
            env2 = env
            c = e["cond"]
            if c.get("k") == "letcond":
                hc = self.expr(c["expr"], f, env, stack, depth + 1)
                env2 = dict(env)
                for b in pat_bindings(c["pat"]):
                    env2[b] = hc
            out |= self.returns_of(e["then"], f, env2, stack, depth + 1, skip_tail=value_position)
            if e.get("else") is not None:
                out |= self._returns_expr(e["else"], f, env, stack, depth + 1, value_position)
            return out
        if k == "match":
            for arm in e["arms"]:
                env2 = self.bind_arm(arm["pat"], e["expr"], f, env, stack, depth)
                out |= self._returns_expr(arm["body"], f, env2, stack, depth + 1, value_position)
            return out
        if k == "block":
            out |= self.returns_of(e["stmts"], f, env, stack, depth + 1, skip_tail=value_position)
            return out
        from srclib import children
        for c in children(e):
            out |= self._returns_expr(c, f, env, stack, depth + 1)
        return out

    def bind_arm(self, pat, subj, f, env, stack, depth):
        """environment of a match arm: each binding gets the class of the part of the subject it names — component-wise when a tuple of
        values is matched against a tuple pattern (`match (rename, rename_all) { (Some(r), _) => .. }`)"""
        env2 = dict(env)
        s_ = subj
        while isinstance(s_, dict) and s_.get("k") in ("paren", "ref"):
            s_ = s_["expr"]
        p_ = pat
        while isinstance(p_, dict) and p_.get("k") in ("ref", "paren") and p_.get("pat") is not None:
            p_ = p_["pat"]
        if isinstance(s_, dict) and s_.get("k") == "tuple" and isinstance(p_, dict) and p_.get("k") == "tuple" and len(p_.get("elems", [])) == len(s_.get("elems", [])):
            for sub_p, sub_e in zip(p_["elems"], s_["elems"]):
                hs = self.expr(sub_e, f, env, stack, depth + 1)
                for b in pat_bindings(sub_p):
                    env2[b] = hs
            return env2
        hs = self.expr(subj, f, env, stack, depth + 1)
        for b in pat_bindings(pat):
            env2[b] = hs
        return env2

    def call_fn(self, nf, args, stack):
        params = [p["pat"]["name"] for p in nf.sig.get("params", []) if p.get("pat") and p["pat"].get("name")]
        env = dict(zip(params, args))
        key = ("call", nf.qname)
        if key in stack:
            return NONE
        return self.block_value(nf.body, nf, env, stack + (key,), 0)

    def expr(self, e, f, env, stack, depth=0):
        if e is None or depth > 40:
            return UNKNOWN
        k = e.get("k")
        if k in ("ref", "paren", "unary", "try", "cast", "return"):
            return self.expr(e["expr"], f, env, stack, depth + 1)
        if k == "path" and lit_str(e) is not None:
            return lit_hazards(lit_str(e))        # a string literal that was given a const name
        if k == "lit":
            if e["lit"]["t"] in ("str", "char"):
                return lit_hazards(e["lit"]["v"])
            return NONE
        if k == "block":
            return self.block_value(e["stmts"], f, env, stack, depth)
        if k == "if":
            env2 = env
            c = e["cond"]
            if c.get("k") == "letcond":
                hc = self.expr(c["expr"], f, env, stack, depth + 1)
                env2 = dict(env)
                for b in pat_bindings(c["pat"]):
                    env2[b] = hc
            if c.get("k") == "mcall" and c["method"] == "is_empty" and c["recv"].get("k") == "path" and len(c["recv"]["segs"]) == 1:
                # `conv(y).is_empty()` holds only when y has no word characters (separators only): y keeps at most `empty`
                vinit = self._let_init(f, c["recv"]["segs"][0])
                if vinit is not None and vinit.get("k") == "mcall" and vinit["method"] in ("apply_naming_convention", "apply_to_field", "apply_to_variant") and vinit["args"]:
                    y = vinit["args"][0]
                    while y.get("k") in ("ref", "paren"):
                        y = y["expr"]
                    if y.get("k") == "path" and len(y["segs"]) == 1:
                        env2 = dict(env2)
                        env2[y["segs"][0]] = frozenset(set(self.expr(y, f, env, stack, depth + 1)) & {"empty"})
            if c.get("k") != "letcond":
                env2 = self.refine(env2, c, True, f, env, stack, depth)
            out = set(self.block_value(e["then"], f, env2, stack, depth))
            if e.get("else") is not None:
                # guard sensitivity: `if is_reserved_word(&v) {..} else ..` / `if v.is_empty() {..} else ..` refine v in the else branch
                env3 = self.refine(env, c, False, f, env, stack, depth) if c.get("k") != "letcond" else env
                out |= self.expr(e["else"], f, env3, stack, depth + 1)
            return frozenset(out)
        if k == "match":
            out = set()
            cls = self.classifier_of(e["expr"], f)
            for arm in e["arms"]:
                env2 = self.bind_arm(arm["pat"], e["expr"], f, env, stack, depth)
                if cls is not None:
                    # `match identifier_defect(&name) { Some(Defect::ReservedWord) => .., None => name }`: in each arm the classified variable has
                    # the defects its variants stand for, and none of the other classified ones
                    var, table = cls
                    import json as _json
                    ptxt = _json.dumps(arm["pat"])
                    here = {hz for vn, hz in table.items() if re.search(r'"%s"\]' % re.escape(vn), ptxt)}
                    cur = set(env[var]) if var in env and isinstance(env[var], frozenset) else set(self.expr({"k": "path", "segs": [var]}, f, env, stack, depth + 1))
                    wild = (arm["pat"].get("k") == "wild" or (arm["pat"].get("k") == "ident" and re.match(r"[a-z_]", arm["pat"].get("name") or "_"))) and not here
                    if not wild:
                        if here == {"reserved"}:
                            env2[var] = frozenset(["reserved"])
                        elif here == {"empty"}:
                            env2[var] = frozenset(cur & {"empty"})
                            # `conv(y)` is empty only when y has no word characters (separators only): y keeps at most `empty`
                            vinit = self._let_init(f, var)
                            if vinit is not None and vinit.get("k") == "mcall" and vinit["method"] in ("apply_naming_convention", "apply_to_field", "apply_to_variant") and vinit["args"]:
                                y = vinit["args"][0]
                                while y.get("k") in ("ref", "paren"):
                                    y = y["expr"]
                                if y.get("k") == "path" and len(y["segs"]) == 1:
                                    env2[y["segs"][0]] = frozenset(set(self.expr(y, f, env, stack, depth + 1)) & {"empty"})
                        else:
                            env2[var] = frozenset((cur - set(table.values())) | here)
                out |= self.expr(arm["body"], f, env2, stack, depth + 1)
            return frozenset(out)
        if k == "index":
            return self.expr(e["base"], f, env, stack, depth + 1)
        if k == "call":
            ft = expr_text(e["func"])
            if ft in ("String::new", "Vec::new", "String::with_capacity", "Vec::with_capacity", "String::default"):
                return frozenset(["empty"])
            if ft in ("String::from", "Some", "Ok"):
                return self.expr(e["args"][0], f, env, stack, depth + 1) if e["args"] else NONE
            # a free function of the crate (`identifiers::event_name_words(name)`): its own return value on these arguments
            nm_ = re.sub(r"\s+", "", ft).split("::")[-1]
            free = [x for x in self.S.fns if x.name == nm_ and x.body is not None and not x.owner and len([p_ for p_ in x.sig.get("params", []) if not p_.get("self")]) == len(e["args"])]
            if len(free) == 1 and re.fullmatch(r"[a-z_][a-z0-9_]*", nm_) and depth < 12:
                args = [self.expr(a, f, env, stack, depth + 1) for a in e["args"]]
                return frozenset(self.call_fn(free[0], args, stack))
            return UNKNOWN
        if k == "mcall":
            m = e["method"]
            recv = expr_text(e["recv"])
            if m in TRANSPARENT or m in ("next", "chars", "to_ascii_lowercase", "to_ascii_uppercase", "to_lowercase", "to_uppercase", "trim", "as_deref"):
                return self.expr(e["recv"], f, env, stack, depth + 1)
            if m in BOOLISH:
                return NONE
            if m in VISITOR_ENTRIES:
                return TYPE_RENDER
            if m == "render":
                return PRE_RENDERED
            if m in ("to_rfc3339", "to_rfc3339_opts"):
                return frozenset(["dash", "colon", "punct"])
            if m in ("apply_to_field", "apply_to_variant") and e["args"]:
                return conv(self.expr(e["args"][0], f, env, stack, depth + 1), self.rule_text(e["recv"], f, env))
            if m == "apply_naming_convention" and len(e["args"]) == 2:
                return conv(self.expr(e["args"][0], f, env, stack, depth + 1), self.rule_text(e["args"][1], f, env))
            if m == "replace" and len(e["args"]) == 2 and e["args"][0].get("k") == "closure" and lit_str(e["args"][1]) is not None:
                # `s.replace(|c: char| !c.is_alphanumeric(), "_")`: the alphanumerics of s plus the literal (the same map as char_map)
                cl_ = e["args"][0]
                pn_ = pat_bindings(cl_["params"][0])[0] if cl_.get("params") else None
                b_ = cl_["body"]
                if b_.get("k") == "block" and len(b_["stmts"]) == 1 and b_["stmts"][0].get("k") == "expr":
                    b_ = b_["stmts"][0]["e"]
                if pn_ and re.fullmatch(r"!\s*%s\.is_(ascii_)?alphanumeric\(\)" % re.escape(pn_), expr_text(b_).strip()):
                    h_ = set(self.expr(e["recv"], f, env, stack, depth + 1)) & {"leaddigit", "empty"}
                    return frozenset(h_ | (set(lit_hazards(lit_str(e["args"][1]))) - {"empty", "reserved", "leaddigit"}))
            if m == "collect" and e["recv"].get("k") == "mcall" and e["recv"]["method"] == "map":
                cm = self.char_map(e["recv"], f, env, stack, depth)
                if cm != UNKNOWN:
                    return cm
            # text accumulated from an iterator chain: the elements are what the (innermost) mapping closure returns
            if m in ("collect", "concat") or (m == "join" and e["args"] and lit_str(e["args"][0]) is not None):
                return self.expr(e["recv"], f, env, stack, depth + 1)
            if m in ("map", "filter_map", "flat_map", "and_then") and e["args"] and e["args"][0].get("k") == "closure":
                return self.expr(e["args"][0]["body"], f, env, stack, depth + 1)
            if m == "or_insert" and e["args"]:
                return self.expr(e["args"][0], f, env, stack, depth + 1)
            if recv == "self" and m.startswith("generate_"):
                return PRE_RENDERED      # Rust-side emitters and template renderers: checked on their own (D1/D2)
            if (m == "unwrap_or" and e["recv"].get("k") == "mcall" and e["recv"]["method"] == "strip_prefix" and e["recv"]["args"]
                    and lit_str(e["recv"]["args"][0]) == "r#" and expr_text(e["args"][0]).lstrip("&") == expr_text(e["recv"]["recv"]).lstrip("&")):
                return frozenset(set(self.expr(e["recv"]["recv"], f, env, stack, depth + 1)) - {"raw"})
            if m in ("unwrap_or", "unwrap_or_else", "or", "or_else", "unwrap_or_default"):
                h = set(self.expr(e["recv"], f, env, stack, depth + 1))
                for a in e["args"]:
                    if a.get("k") == "closure":
                        h |= self.expr(a["body"], f, env, stack, depth + 1)
                    else:
                        h |= self.expr(a, f, env, stack, depth + 1)
                return frozenset(h)
            if recv == "self" or recv.startswith("self."):
                nf = [x for x in self.S.fns if x.name == m and x.body is not None]
                if nf:
                    args = [self.expr(a, f, env, stack, depth + 1) for a in e["args"]]
                    out = set()
                    for g in nf:
                        out |= self.call_fn(g, args, stack)
                    return frozenset(out)
            return UNKNOWN
        if k == "macro":
            if e["name"] == "format":
                args = e.get("args") or []
                if args and lit_str(args[0]) is not None:
                    lits = re.split(r"\{[^{}]*\}", lit_str(args[0]))
                    frame = "".join(lits)
                    h = set()
                    for a in args[1:]:
                        h |= self.expr(a, f, env, stack, depth + 1)
                    if frame:
                        h |= lit_hazards(frame) - {"empty", "reserved", "leaddigit"}
                        h -= {"empty", "reserved"}
                    if lits and lits[0]:
                        h -= {"leaddigit"}
                    return frozenset(h)
                return UNKNOWN
            if e["name"] == "env":
                return frozenset(["punct", "dash"])     # CARGO_PKG_VERSION: digits, dots, pre-release tags
            if e["name"] in ("matches",):
                return NONE
            return UNKNOWN
        if k == "field":
            base = e["base"]
            if base.get("k") == "path" and len(base["segs"]) == 1:
                bname = base["segs"][0]
                if bname in env and isinstance(env[bname], tuple):
                    pass
                ty = self._param_ty(f, bname)
                if ty:
                    cands = re.findall(r"\b(\w+Info)\b", ty)
                else:
                    cands = sorted({m for (m, fl) in self.model if fl == e["member"]})
                hs = [self.model[(c, e["member"])] for c in cands if (c, e["member"]) in self.model]
                if cands and len(hs) == len(cands):
                    out = set()
                    for h in hs:
                        out |= h
                    return frozenset(out)
                st = self._local_struct(f, bname)
                if st:
                    return self.field(st, e["member"], stack)
                if bname == "self" and f.owner and f.owner.endswith("Context"):
                    return self.field(f.owner, e["member"], stack)
            return UNKNOWN
        if k == "path" and len(e["segs"]) == 1:
            v = e["segs"][0]
            if v in env:
                return env[v]
            init = self._let_init(f, v)
            comp = self._let_tuple_component(f, v) if init is not None else None
            if comp is not None:
                ce, cf, cenv = comp
                return self.expr(ce, cf, cenv if cf is not f else env, stack, depth + 1)
            if init is not None:
                out = set(self.expr(init, f, env, stack, depth + 1))
                pushes = self._pushes_ctx(f, v)
                it = expr_text(init)
                prefix = lit_str(init["args"][0]) if init.get("k") == "call" and it.startswith("String::from") and init.get("args") and lit_str(init["args"][0]) else None
                cond_only = all(g for (_, g) in pushes) and bool(pushes)
                for (a, guards) in pushes:
                    env_a = env
                    for (c_, truth_) in guards:
                        env_a = self.refine(env_a, c_, truth_, f, env, stack, depth)
                    ha = set(self.expr(a, f, env_a, stack, depth + 1))
                    if prefix:
                        # what follows a non-empty literal prefix can neither lead with a digit, be empty, nor be a reserved word on its own
                        ha -= {"leaddigit", "empty", "reserved"}
                    out |= ha
                if pushes and not cond_only:
                    out.discard("empty")
                if prefix:
                    out -= {"empty", "reserved", "leaddigit"} - (lit_hazards(prefix) & {"leaddigit"})
                return frozenset(out)
            src = self._loop_source(f, v)
            if src is not None:
                # a character of SRC: whatever SRC may contain (narrowed by `is_alphanumeric()` guards through refine)
                return frozenset(self.expr(src, f, env, stack, depth + 1))
            ty = self._param_ty(f, v)
            if ty is not None:
                seed = PARAM_SEEDS.get((f.owner, f.name, v))
                if seed is not None:
                    h = self.model[seed]
                    if seed == ("StructInfo", "name") and self.declared_names_capitalised():
                        h = h - {"reserved"}     # every JS reserved word starts with a lowercase letter
                    return h
                if re.search(r"\busize\b|\bu32\b|\bbool\b", ty):
                    return NONE
                return self.param_from_callers(f, v, stack)
            return UNKNOWN
        if k == "path":
            return NONE   # enum constant / const path
        return UNKNOWN

    def classifier_of(self, subj, f):
        """`classify(&v)` where classify is a free function of the crate that sorts its argument into the variants of a field-less enum by the
        recognised name guards: -> (v, {variant name: hazard}) or None.  The table is read off the classifier's own arms: the arm for the empty
        text (`chars().next()` is None / `is_empty()`), the arm guarded by a leading-digit test, the arm guarded by the reserved-word test."""
        while isinstance(subj, dict) and subj.get("k") in ("paren", "ref"):
            subj = subj["expr"]
        if not (isinstance(subj, dict) and subj.get("k") == "call" and subj["func"].get("k") == "path" and len(subj["args"]) == 1):
            return None
        a = subj["args"][0]
        while a.get("k") in ("ref", "paren") or (a.get("k") == "mcall" and a["method"] in ("as_str", "as_ref")):
            a = a["expr"] if a.get("k") in ("ref", "paren") else a["recv"]
        if not (a.get("k") == "path" and len(a["segs"]) == 1):
            return None
        gs = [x for x in self.S.fns if x.name == subj["func"]["segs"][-1] and x.body is not None and not x.owner]
        if len(gs) != 1:
            return None
        g = gs[0]
        prm = [p_["pat"].get("name") for p_ in g.sig.get("params", []) if p_.get("pat") and not p_.get("self")]
        if len(prm) != 1 or len(g.body) != 1 or g.body[0].get("k") != "expr":
            return None
        top = g.body[0]["e"]
        if top.get("k") != "match":
            return None
        table = {}
        scrut = expr_text(top["expr"]).replace(" ", "")
        for arm in top["arms"]:
            body = arm["body"]
            vm = re.search(r"(\w+)\s*\)?\s*$", expr_text(body).strip())
            vname = vm.group(1) if vm else None
            if not vname or vname in ("None",):
                continue
            ptxt = expr_text({"k": "path", "segs": ["_"]}) if False else str(arm["pat"])
            gd = arm.get("guard")
            haz = None
            if gd is not None:
                gt = expr_text(gd)
                if re.search(r"is_ascii_digit\(\)|is_numeric\(\)|is_digit\(", gt):
                    haz = "leaddigit"
                else:
                    gg = self.guard_of(gd, g)
                    if gg is not None and gg[0] == prm[0] and len(gg[1]) == 1:
                        haz = next(iter(gg[1]))
            elif scrut.endswith(".chars().next()") and re.search(r"'None'", ptxt) and "Some" not in ptxt:
                haz = "empty"
            if haz in ("empty", "leaddigit", "reserved"):
                table[vname] = haz
        if len(table) < 2:
            return None
        return (a["segs"][0], table)

    def guard_of(self, c, f):
        """(variable, hazards excluded when the condition is false) for the two recognised guards"""
        def var_of(a):
            while a.get("k") in ("ref", "paren") or (a.get("k") == "mcall" and a["method"] in ("as_str", "as_ref", "clone", "to_string")):
                a = a["expr"] if a.get("k") in ("ref", "paren") else a["recv"]
            return a["segs"][0] if a.get("k") == "path" and len(a["segs"]) == 1 else None
        if c.get("k") == "mcall" and c["method"] == "is_empty" and not c["args"]:
            v = var_of(c["recv"])
            return (v, {"empty"}) if v else None
        if c.get("k") == "mcall" and c["method"] in ("is_alphanumeric", "is_ascii_alphanumeric") and not c["args"]:
            v = var_of(c["recv"])
            return (v, {"<alnum>"}) if v else None
        if c.get("k") == "mcall" and c["method"] == "starts_with" and len(c["args"]) == 1 and c["args"][0].get("k") == "closure" \
                and re.search(r"is_ascii_digit\(\)|is_numeric\(\)|is_digit\(", expr_text(c["args"][0]["body"])):
            v = var_of(c["recv"])
            return (v, {"leaddigit"}) if v else None
        # the word list kept in a constant table: `RESERVED.contains(&name)` / `RESERVED.contains(&name.as_str())`
        from srclib import literal_set_guard
        lg = literal_set_guard(self.S, c)
        if lg is not None and JS_RESERVED <= set(lg[1]):
            m_ = re.fullmatch(r"[&*]*(\w+)(\.(as_str|as_ref|clone|to_string)\(\))*", lg[0] or "")
            if m_:
                return (m_.group(1), {"reserved"})
        if c.get("k") == "call" and c["func"].get("k") == "path" and len(c["args"]) == 1:
            v = var_of(c["args"][0])
            if not v:
                return None
            for g in [x for x in self.S.fns if x.name == c["func"]["segs"][-1] and x.body is not None]:
                # a named wrapper around one of the guards (`fn starts_with_ascii_digit(s: &str) -> bool { s.starts_with(|c| c.is_ascii_digit()) }`)
                prm = [p_["pat"].get("name") for p_ in g.sig.get("params", []) if p_.get("pat") and not p_.get("self")]
                if len(prm) == 1 and g.body and len(g.body) == 1 and g.body[0].get("k") == "expr" and not g.body[0].get("semi") and g is not f:
                    inner = self.guard_of(g.body[0]["e"], g)
                    if inner is not None and inner[0] == prm[0]:
                        return (v, inner[1])
                words = set()
                for x in walk_block(g.body):
                    if x.get("k") == "macro" and x["name"] == "matches":
                        words |= set(re.findall(r'"([a-z]+)"', x.get("tokens", "")))
                    if x.get("k") == "match":
                        for arm in x["arms"]:
                            words |= set(re.findall(r'"([a-z]+)"', str(arm["pat"])))
                    lg2 = literal_set_guard(self.S, x) if x.get("k") in ("mcall", "binary") else None
                    if lg2 is not None:
                        words |= set(lg2[1])
                if words:
                    missing = JS_RESERVED - words
                    if not missing:
                        return (v, {"reserved"})
                    self.notes.append("%s does not list the reserved words %s" % (g.qname, sorted(missing)))
        return None

    def rule_text(self, e, f, env):
        while e.get("k") in ("ref", "paren", "unary"):
            e = e["expr"]
        t = expr_text(e)
        if re.search(r"RenameRule\s*::\s*\w+$", t):
            return t
        return None

    def char_map(self, mp, f, env, stack, depth):
        """`s.chars().map(|c| if c.is_alphanumeric() { c } else { LIT }).collect()`: alphanumerics of s plus the literal"""
        cl = mp["args"][0] if mp["args"] else None
        src = mp["recv"]
        if cl is None or cl.get("k") != "closure":
            return UNKNOWN
        body = cl["body"]
        if body.get("k") == "block" and len(body["stmts"]) == 1 and body["stmts"][0].get("k") == "expr":
            body = body["stmts"][0]["e"]
        pname = pat_bindings(cl["params"][0])[0] if cl.get("params") else None
        if body.get("k") == "if" and re.match(r"^%s\.is_(ascii_)?alphanumeric\(\)$" % re.escape(pname or "?"), expr_text(body["cond"])):
            then = body["then"]
            keeps = len(then) == 1 and then[0].get("k") == "expr" and expr_text(then[0]["e"]) == pname
            other = self.expr(body["else"], f, env, stack, depth + 1) if body.get("else") else UNKNOWN
            if keeps:
                h = set(self.expr(src, f, env, stack, depth + 1)) & {"leaddigit", "empty"}
                return frozenset(h | (set(other) - {"empty", "reserved", "leaddigit"}))
        return UNKNOWN

    def param_from_callers(self, f, pname, stack):
        plist = [p for p in f.sig.get("params", []) if p.get("pat")]
        idx = None
        for i, p in enumerate(plist):
            if p["pat"].get("name") == pname:
                idx = i
        key = ("param", f.qname, pname)
        if idx is None or key in stack:
            return UNKNOWN if idx is None else NONE
        out = set()
        n = 0
        for g in self.S.fns:
            if g.body is None:
                continue
            for e in walk_block(g.body):
                if e.get("k") == "mcall" and e["method"] == f.name and len(e["args"]) == len(plist):
                    n += 1
                    out |= self.expr(e["args"][idx], g, {}, stack + (key,))
                elif (e.get("k") == "call" and len(e["args"]) == len(plist) and f.owner
                      and re.search(r"(^|::)(%s|Self)::%s$" % (re.escape(f.owner), re.escape(f.name)), expr_text(e["func"]))):
                    n += 1
                    out |= self.expr(e["args"][idx], g, {}, stack + (key,))
        if n == 0:
            return UNKNOWN
        return frozenset(out)


# ------------------------------------------------------------------------------------------------ lexer
OPEN = {"(": ")", "[": "]", "{": "}", "<": ">"}
CLOSE = {v: k for k, v in OPEN.items()}
HOLE_RE = re.compile(r"⟦([^⟧]*)⟧")


class Tok:
    __slots__ = ("kind", "text", "holes", "ws_before", "ctx")

    def __init__(self, kind, text, holes=(), ws_before=True, ctx="code"):
        self.kind, self.text, self.holes, self.ws_before, self.ctx = kind, text, list(holes), ws_before, ctx

    def __repr__(self):
        return "%s:%s" % (self.kind, self.text)


def lex(text):
    """-> (tokens, string/comment holes [(expr, ctx)], errors).  Code tokens: 'word' (identifier chars and holes glued together), 'p' punctuation."""
    toks, inner, errs = [], [], []
    i, n = 0, len(text)
    stack = []
    ws = True
    while i < n:
        ch = text[i]
        if ch in " \t\r\n":
            ws = True
            i += 1
            continue
        if text.startswith("//", i):
            j = text.find("\n", i)
            j = n if j < 0 else j
            for m in HOLE_RE.finditer(text[i:j]):
                inner.append((m.group(1), "line_comment"))
            i = j
            ws = True
            continue
        if text.startswith("/*", i):
            j = text.find("*/", i + 2)
            if j < 0:
                errs.append("unterminated block comment")
                j = n - 2
            for m in HOLE_RE.finditer(text[i:j]):
                inner.append((m.group(1), "block_comment"))
            i = j + 2
            ws = True
            continue
        if ch in "'\"`":
            j = i + 1
            closed = False
            while j < n:
                c2 = text[j]
                if c2 == "\\":
                    j += 2
                    continue
                if c2 == "⟦":
                    j = text.index("⟧", j) + 1
                    continue
                if c2 == ch:
                    closed = True
                    break
                if c2 == "\n" and ch != "`":
                    break
                j += 1
            if not closed:
                errs.append("unterminated %s string starting %r" % (ch, text[i:i + 30]))
            body = text[i + 1:j]
            ctx = {"'": "str_sq", '"': "str_dq", "`": "str_bt"}[ch]
            for m in HOLE_RE.finditer(body):
                inner.append((m.group(1), ctx))
            toks.append(Tok("str", text[i:j + 1], ws_before=ws, ctx=ctx))
            i = j + 1
            ws = False
            continue
        if ch == "⟦" or ch.isalnum() or ch in "_$" or ord(ch) > 127:
            j = i
            holes = []
            while j < n:
                c2 = text[j]
                if c2 == "⟦":
                    k2 = text.index("⟧", j)
                    holes.append(text[j + 1:k2])
                    j = k2 + 1
                elif c2.isalnum() or c2 in "_$" or (ord(c2) > 127 and c2 not in "⟦⟧"):
                    j += 1
                else:
                    break
            toks.append(Tok("word", text[i:j], holes, ws))
            i = j
            ws = False
            continue
        # punctuation
        for p3 in ("...", "=>", "?.", "===", "!==", "==", "!=", "&&", "||", "<=", ">="):
            if text.startswith(p3, i):
                toks.append(Tok("p", p3, ws_before=ws))
                i += len(p3)
                break
        else:
            if ch in OPEN:
                stack.append(ch)
            elif ch in CLOSE:
                if not stack or stack[-1] != CLOSE[ch]:
                    errs.append("unbalanced %r (open: %s)" % (ch, "".join(stack[-4:])))
                else:
                    stack.pop()
            toks.append(Tok("p", ch, ws_before=ws))
            i += 1
        ws = False
    if stack:
        errs.append("unclosed %s" % "".join(stack))
    return toks, inner, errs


DECL_FN = {"function"}
DECL_TY = {"interface", "type", "const", "let", "var", "class", "enum", "namespace"}


def classify(toks):
    """-> [(hole expr, context, glue)] for holes in code; glue = (has literal identifier prefix, has literal identifier suffix/other part)"""
    out = []
    for i, t in enumerate(toks):
        if t.kind != "word" or not t.holes:
            continue
        lit = HOLE_RE.sub("", t.text)
        lead = not t.text.startswith("⟦")
        prev = toks[i - 1] if i > 0 else None
        nxt = toks[i + 1] if i + 1 < len(toks) else None
        nxt2 = toks[i + 2] if i + 2 < len(toks) else None
        if prev is not None and prev.kind == "word" and prev.text in DECL_FN:
            ctx = "decl_fn"
        elif prev is not None and prev.kind == "word" and prev.text in DECL_TY:
            ctx = "decl_name"
        elif prev is not None and prev.kind == "p" and prev.text in (".", "?.") and not t.ws_before:
            ctx = "member"
        elif (nxt is not None and nxt.kind == "p" and (nxt.text == ":" or (nxt.text == "?" and nxt2 is not None and nxt2.text == ":"))
              and (prev is None or (prev.kind == "p" and prev.text in ("{", ",", ";", "}")) or prev.kind == "str" or (prev.kind == "word" and t.ws_before and prev.text not in ("?",)))
              and not (prev is not None and prev.kind == "p" and prev.text in ("?", ":", "(", "<", "=", "|", "=>"))):
            ctx = "key"
        else:
            ctx = "expr"
        for h in t.holes:
            out.append((h, ctx, (lead, bool(lit)), len(t.holes)))
    return out


FORBID = {
    "decl_fn": ALL, "decl_name": ALL, "ident_ref": ALL - {"reserved"}, "member": ALL - {"reserved"}, "key": ALL - {"reserved"},
    "str_sq": frozenset(["sq", "bs", "nl"]), "str_dq": frozenset(["dq", "bs", "nl"]), "str_bt": frozenset(["bs", "punct"]),
    "line_comment": frozenset(["nl"]), "block_comment": frozenset(["starslash"]),
}


def variants(path):
    """flattened texts of a control path: for each loop, one variant per body path (the other loops use their first body)"""
    loops = []

    def find(p, trail):
        for idx, it in enumerate(p.items):
            if it[0] == "loop":
                loops.append((trail + (idx,), it))
                for bi, bp in enumerate(it[3]):
                    find(bp, trail + (idx, bi))
    find(path, ())

    def flat(p, trail, choice):
        out = []
        for idx, it in enumerate(p.items):
            if it[0] == "text":
                out.append(it[1])
            elif it[0] == "hole":
                out.append("⟦%s⟧" % it[1])
            else:
                bodies = [b for b in it[3] if consistent(p.conds + b.conds)] or it[3]
                if not bodies:
                    continue
                k = choice.get(trail + (idx,), 0)
                k = k if k < len(it[3]) else 0
                out.append(flat(it[3][k], trail + (idx, k), choice))
        return "".join(out)
    yield flat(path, (), {})
    for trail, it in loops:
        for bi in range(1, len(it[3])):
            ch = {trail: bi}
            # make the enclosing loops choose the body that contains this loop
            for d in range(2, len(trail), 2):
                ch[trail[:d - 1]] = trail[d - 1]
            yield flat(path, (), ch)


def loop_bodies(path):
    for it in path.items:
        if it[0] == "loop":
            for bp in it[3]:
                yield it, bp
                yield from loop_bodies(bp)


def split_hole(h):
    parts = h.split("|")
    base = parts[0].strip()
    filters = [re.sub(r"\(.*$", "", p).strip() for p in parts[1:]]
    return base, filters, parts[1:]


def check(ctx):
    S = ctx.S
    P = ctx.P
    T = Templates(S)
    ev = SVEval(S)
    typing = Typing(S, P, T)
    prod = Producers(S, ev)
    rules = []

    rendered = sorted(T.rendered_names())

    # ---------------------------------------------------------------- D4 first (its verdict types the visitor output)
    r4 = Rule("C01-D4-no-rust-surface-syntax", "D4",
              "TypeResolver::parse_type_structure ends in TypeStructure::Custom(<remaining text>); that fall-through is guarded by a test that the text is a plain "
              "identifier (or the text is reduced to its last path segment / rejected), because every Custom renderer emits the name verbatim",
              "`std::collections::HashSet<String>`, `Request<'_>` or `&'a T` reach the output verbatim: `::`, lifetimes and half generic lists are not TypeScript")
    pts = S.fn("TypeResolver", "parse_type_structure")
    custom_validated = False
    if pts is None:
        r4.bad(V(r4.id, "<anchor>", "missing:parse_type_structure", "anchor not found"))
    else:
        falls = []
        for st in pts.body:
            for e in stmt_exprs(st):
                if st.get("k") == "expr" and e.get("k") in ("call", "struct") and "Custom" in expr_text(e)[:40]:
                    falls.append(e)
        tail = pts.body[-1] if pts.body else None
        tail_e = tail.get("e") if tail and tail.get("k") == "expr" else None
        if tail_e is None or "TypeStructure::Custom" not in expr_text(tail_e):
            r4.bad(V(r4.id, "TypeResolver::parse_type_structure", "fallthrough-shape:%s" % expr_text(tail_e)[:60], "the fall-through of the type parser is not the Custom constructor any more: re-anchor"))
        else:
            arg = tail_e["args"][0] if tail_e.get("args") else None
            while arg is not None and arg.get("k") in ("ref", "paren") or (arg is not None and arg.get("k") == "mcall" and arg["method"] in TRANSPARENT):
                arg = arg["expr"] if arg.get("k") in ("ref", "paren") else arg["recv"]
            var = arg["segs"][0] if arg is not None and arg.get("k") == "path" and len(arg["segs"]) == 1 else None
            init = prod._let_init(pts, var) if var else None
            ok, why = (False, "the text is not a local derived from a sanitiser")
            if init is not None:
                ok, why = sanitised(init, S, pts)
            if ok:
                custom_validated = True
                r4.ok("Custom(%s): %s" % (var, why))
                # the recognisers must see the same sanitised text, otherwise std::collections::HashMap<..> falls through with its arguments
                for st in pts.body:
                    for e in stmt_exprs(st):
                        for x in walk(e):
                            if x.get("k") == "mcall" and (x["method"].startswith("extract_") or x["method"] == "map_to_target_primitive") and x["args"]:
                                a = expr_text(x["args"][0]).lstrip("&")
                                if a == var:
                                    r4.ok(None)
                                else:
                                    r4.bad(V(r4.id, "TypeResolver::parse_type_structure", "recogniser-on-raw-text:%s" % x["method"],
                                             "%s is applied to `%s`, not to the sanitised text `%s`" % (x["method"], a, var)))
            else:
                r4.bad(V(r4.id, "TypeResolver::parse_type_structure", "custom-remainder-unvalidated",
                         "any text no recogniser claims becomes TypeStructure::Custom(%s) and is emitted verbatim by visit_custom: %s" % (expr_text(arg), why)))
        # a custom name is an arbitrary Rust identifier: nothing keeps a JS reserved word out of type position
        guards_reserved = False
        for st in pts.body:
            for e in stmt_exprs(st):
                for x in walk(e):
                    if x.get("k") == "call" and re.search(r"reserved|keyword", expr_text(x["func"])):
                        guards_reserved = True
        if guards_reserved:
            r4.ok("custom names are checked against reserved words")
        else:
            r4.bad(V(r4.id, "TypeResolver::parse_type_structure", "custom-name-reserved",
                     "a type named by a JS reserved word (`struct delete`) is emitted as a type reference: `d: delete;` does not parse"))
        # the Custom renderers emit the name verbatim (so the guard above is the only barrier)
        for owner in ("TypeScriptVisitor", "ZodVisitor", "TypeVisitor"):
            vc = [f for f in S.fns if f.owner == owner and f.name == "visit_custom" and f.body is not None]
            for f in vc:
                for conds, sv in ev.fn_paths(f):
                    vs = [l for l in leaves(sv) if l[0] == "var"]
                    r4.ok("%s::visit_custom -> %s" % (owner, render(sv)))
    # "half of a generic argument list": type text is only ever cut by depth-aware scans (rule shared with C05-D5)
    from c05 import check_splitters
    sub = Rule("C01-D4-no-rust-surface-syntax", "D4", "", "")
    check_splitters(S, sub)
    r4.instances += sub.instances
    r4.discharged += sub.discharged
    for v in sub.violations:
        v.rule = r4.id
        r4.violations.append(v)
    # a payload variable that is not found in the event parser's table is emitted under its own (Rust) spelling, `r#` included (shared with C12-D7)
    from c12 import check_symbol_table_keys
    check_symbol_table_keys(ctx.P, r4)
    r4.require_floor(6, "custom fall-through and splitter facts")
    rules.append(r4)

    # ---------------------------------------------------------------- D1
    r1 = Rule("C01-D1-skeleton", "D1",
              "every control path of every rendered template lexes with terminated strings/comments and nested ()[]{}<>; every loop body path is balanced on its own",
              "a bracket or quote dropped on a path the fixtures do not render (channel-only commands, no-parameter commands) is a syntax error for exactly those projects")
    # D2 collects while D1 lexes
    r2 = Rule("C01-D2-sink-typing", "D2",
              "for every hole: characters its value may contain (seed -> naming function -> context field -> filters) ∩ characters its lexical context forbids = ∅",
              "an identifier, key or string position that can receive `-`, `r#`, a reserved word, a quote or a backslash produces a file that does not parse for that input")
    feff = filter_effects(S, r2)
    seen_holes = {}
    n_paths = 0
    for name in rendered:
        paths = T.paths(name)
        if paths is None:
            r1.bad(V(r1.id, name, "unregistered", "rendered template is not registered"))
            continue
        for p in paths:
            if not consistent(p.conds):
                continue
            n_paths += 1
            for it, bp in loop_bodies(p):
                if not consistent(p.conds + bp.conds):
                    continue
                txt = "".join(variants(bp).__next__())
                _, _, errs = lex(txt)
                errs = [e for e in errs]
                if errs:
                    r1.bad(V(r1.id, name, "loop-body:%s:%s" % (it[2], errs[0][:60]), "a body path of `for %s in %s` [%s] is not balanced on its own: %s" % (it[1], it[2], bp.cond_text(), errs[0])), count=False)
            for txt in variants(p):
                toks, inner, errs = lex(txt)
                if errs:
                    r1.bad(V(r1.id, name, "lex:%s" % errs[0][:70], "path [%s]: %s" % (p.cond_text(), errs[0])))
                else:
                    r1.ok(None)
                for (h, hctx) in inner:
                    seen_holes.setdefault((name, h, hctx, (False, False)), p.cond_text())
                for (h, hctx, glue, nh) in classify(toks):
                    seen_holes.setdefault((name, h, hctx, glue), p.cond_text())
    # separators inside loops: a separator printed *after* the item must be withheld on the last pass (`not loop.last`), one printed *before* the
    # item on the first pass (`not loop.first`); the other guard prints `a b,` instead of `a, b` (a missing and a dangling separator)
    from tplpaths import expr_text as _tx
    from srclib import tera_walk as _tw
    def _prints(n_):
        return (n_.get("k") == "text" and n_["v"].strip() != "") or n_.get("k") in ("var", "include", "for") or (n_.get("k") == "if" and any(_prints(b_) for c_ in n_["conds"] for b_ in c_["body"]))
    for tname in sorted(T.reachable_templates()):
        for node in _tw(T.ast_of(tname) or []):
            if node.get("k") != "for":
                continue
            body = node["body"]
            for i_, b_ in enumerate(body):
                if b_.get("k") != "if" or len(b_["conds"]) != 1 or b_.get("else") is not None:
                    continue
                ct = _tx(b_["conds"][0]["cond"]).replace(" ", "")
                if ct not in ("not(loop.last)", "not(loop.first)", "notloop.last", "notloop.first"):
                    continue
                if not all(x_.get("k") == "text" for x_ in b_["conds"][0]["body"]):
                    continue
                before = any(_prints(x_) for x_ in body[:i_])
                after = any(_prints(x_) for x_ in body[i_ + 1:])
                which = "last" if "last" in ct else "first"
                if before and not after and which != "last":
                    r1.bad(V(r1.id, tname, "separator-guard-position:trailing-under-not-first:%s" % _tx(node["container"]),
                             "in `for .. in %s` the separator is printed after the item but guarded by `not loop.first`: the first item gets none and the last one a dangling one" % _tx(node["container"])))
                elif after and not before and which != "first":
                    r1.bad(V(r1.id, tname, "separator-guard-position:leading-under-not-last:%s" % _tx(node["container"]),
                             "in `for .. in %s` the separator is printed before the item but guarded by `not loop.last`" % _tx(node["container"])))
                elif before != after:
                    r1.ok("%s: separator of `for .. in %s` guarded by not loop.%s" % (tname, _tx(node["container"]), which))
    r1.samples.append("%d rendered templates, %d consistent control paths" % (len(rendered), n_paths))
    r1.require_floor(40, "template control paths")
    rules.append(r1)

    # ---------------------------------------------------------------- D2: type every hole
    for (name, h, hctx, glue), where in sorted(seen_holes.items()):
        base, filters, rawf = split_hole(h)
        if " ~ " in base and "(" not in base:
            # a concatenation (`"tauri-typegen v" ~ global.version`, usually through a `set` variable): whatever any of its parts can contain
            cls, srcs = set(), []
            for part_ in base.split(" ~ "):
                part_ = part_.strip()
                if len(part_) >= 2 and part_[0] == '"' and part_[-1] == '"':
                    try:
                        cls |= set(lit_hazards(json.loads(part_)))
                    except ValueError:
                        cls |= set(UNKNOWN)
                    srcs.append("literal")
                else:
                    c_, s_ = hole_class(part_, typing, prod, S)
                    cls |= set(c_)
                    srcs.append(s_)
            cls, src = frozenset(cls), " ~ ".join(srcs)
        else:
            cls, src = hole_class(base, typing, prod, S)
        safe_as = None
        for fl in filters:
            plain = not (cls & {"<type>", "<rendered>", "<unknown>"})
            if feff.get(fl) == "escape":
                cls = cls - {"dq", "bs", "nl"} if plain else cls
            elif feff.get(fl) in ("key", "access") and plain:
                safe_as = feff[fl]
            elif fl in ("add_types_prefix", "replace", "default", "safe", "trim"):
                pass
            elif fl in ("length",):
                cls = NONE
            elif fl in ("lower", "upper", "capitalize", "title"):
                pass
            else:
                cls = UNKNOWN
                src += " |%s (unknown filter)" % fl
        if safe_as == "key":
            if hctx == "key":
                r2.ok("%s: {{ %s }} key through the identifier-or-quoted filter" % (name, h))
            else:
                r2.bad(V(r2.id, name, "key-filter-in-%s:%s" % (hctx, h), "a possibly quoted key is interpolated in %s position" % CTX_TEXT.get(hctx, hctx)))
            continue
        if safe_as == "access":
            if hctx in ("expr", "ident_ref") and glue[0]:
                r2.ok("%s: {{ %s }} member access through the .ident-or-[\"literal\"] filter" % (name, h))
            else:
                r2.bad(V(r2.id, name, "access-filter-in-%s:%s" % (hctx, h), "a member-access suffix is interpolated in %s position without an object in front" % CTX_TEXT.get(hctx, hctx)))
            continue
        lead, lit = glue
        if "<unknown>" in cls:
            r2.bad(V(r2.id, name, "unclassified:%s" % h, "hole `%s` (%s): cannot derive what its value may contain (%s)" % (h, hctx, src)))
            continue
        if "<rendered>" in cls:
            if hctx == "expr":
                r2.ok("%s: {{ %s }} is text rendered by another template (%s)" % (name, h, src))
            else:
                r2.bad(V(r2.id, name, "rendered-in-%s:%s" % (hctx, h), "pre-rendered text is interpolated in %s context" % hctx))
            continue
        if "<type>" in cls:
            if hctx == "expr":
                r2.ok("%s: {{ %s }} is visitor output in type/expression position (D3/D4)" % (name, h))
            else:
                r2.bad(V(r2.id, name, "type-in-%s:%s" % (hctx, h), "a rendered type is interpolated in %s context" % hctx))
            continue
        if hctx == "expr":
            # loop.index, booleans, counts: values without hazards; anything else in expression position is unexpected
            if not cls:
                r2.ok(None)
                continue
            hctx = "ident_ref"
        forbid = set(FORBID[hctx])
        eff = set(cls)
        if lit:
            eff -= {"empty", "reserved"}
        if lead:
            eff -= {"leaddigit"}
        bad = eff & forbid
        if bad:
            r2.bad(V(r2.id, name, "%s:%s:%s" % (hctx, h, ",".join(sorted(bad))),
                     "`{{ %s }}` is in %s position but its value (%s) may contain %s  [path: %s]" % (h, CTX_TEXT[hctx], src, fmt(bad), where)))
        else:
            r2.ok("%s: {{ %s }} in %s: %s" % (name, h, hctx, fmt(cls) or "no hazardous character"))
    # Rust-side emitters that build TS text from names: generate_enum_schema
    ge = [f for f in S.fns if f.owner == "ZodBindingsGenerator" and f.name == "generate_enum_schema"]
    for f in ge:
        # the literal pieces: each variant is wrapped in "..." by format!("\"{}\"", field.serialized_name)
        for e in walk_block(f.body):
            if e.get("k") == "macro" and e["name"] == "format" and e.get("args") and lit_str(e["args"][0]) is not None:
                frame = lit_str(e["args"][0])
                args = e["args"][1:]
                for m, a in zip(re.finditer(r"(.?)\{[^{}]*\}(.?)", frame), args):
                    quoted = m.group(1) == '"' and m.group(2) == '"'
                    at = expr_text(a)
                    if quoted:
                        esc = bool(re.search(r"escape_js|escape_for_js", at))
                        fc = prod.field("FieldContext", "serialized_name") if "serialized_name" in at else UNKNOWN
                        badc = set() if esc else set(fc) & {"dq", "bs", "nl"}
                        if "<unknown>" in fc:
                            r2.bad(V(r2.id, f.qname, "unclassified:%s" % at, "cannot classify `%s` inside a string literal" % at))
                        elif badc:
                            r2.bad(V(r2.id, f.qname, "str_dq:%s:%s" % (at, ",".join(sorted(badc))), "`%s` is emitted between double quotes without escaping and may contain %s" % (at, fmt(badc))))
                        else:
                            r2.ok("%s: \"%s\" escaped or harmless" % (f.qname, at))
    r2.notes.extend(prod.notes[:10])
    r2.require_floor(45, "holes")
    rules.append(r2)

    # ---------------------------------------------------------------- D3
    r3 = Rule("C01-D3-type-frames", "D3",
              "each rendering of each TypeStructure constructor by TypeScriptVisitor::visit_type, ZodVisitor::visit_type, ZodVisitor::visit_type_for_interface "
              "and ZodSchemaBuilder::render_type is bracket-balanced around its recursive holes (so balance holds at every depth by induction)",
              "an unbalanced frame (`Record<${k}, ${v}`) makes every type that uses the constructor unparsable, at any depth")
    from c05 import resolver
    entries = [("TypeScriptVisitor", "visit_type"), ("ZodVisitor", "visit_type"), ("ZodVisitor", "visit_type_for_interface"), ("ZodSchemaBuilder", "render_type")]
    for owner, entry in entries:
        res = resolver(S, owner)
        fn = res(entry)
        if fn is None:
            r3.bad(V(r3.id, "<anchor>", "missing:%s::%s" % (owner, entry), "entry not found"))
            continue
        paths = ev.fn_paths(fn, None, res)
        hops = 0
        while len(paths) == 1 and paths[0][1] and paths[0][1][0] == "rec" and hops < 3:
            nf = res(paths[0][1][1].split(".")[-1])
            if nf is None or nf is fn:
                break
            fn = nf
            paths = ev.fn_paths(fn, None, res)
            hops += 1
        for conds, sv in paths:
            txt = render(sv)
            skel = re.sub(r"⟨[^⟩]*⟩\*'[^']*'", "X", txt)
            for _ in range(4):
                skel = re.sub(r"⟨[^⟨⟩]*⟩|‹[^‹›]*›|#[^#]*#|«[^«»]*»", "X", skel)
            errs = balance(skel)
            if errs:
                r3.bad(V(r3.id, "%s::%s" % (owner, entry), "frame:%s" % txt[:60], "rendering `%s` is not bracket-balanced: %s" % (txt, errs)))
            else:
                r3.ok("%s::%s -> %s" % (owner, entry, txt[:60]))
    # the frames must also survive the namespace qualifier applied in commands.ts / events.ts (rule shared with C02-D2)
    from c02 import check_frames_known_to_qualifier
    sub3 = Rule(r3.id, "D3", "", "")
    check_frames_known_to_qualifier(S, sub3)
    r3.instances += sub3.instances
    r3.discharged += sub3.discharged
    for v_ in sub3.violations:
        v_.rule = r3.id
        r3.violations.append(v_)
    r3.require_floor(24, "constructor renderings")
    rules.append(r3)

    # ---------------------------------------------------------------- D5: the module on disk is the rendered text, nothing more
    r5 = Rule("C01-D5-whole-file-replacement", "D5",
              "the generated modules are written by whole-file replacement: fs::write, or a handle opened with truncate and written with write_all "
              "(rule shared with C14-D5 and C17-D2)",
              "a handle opened without truncate keeps the tail of a longer previous generation behind the new text: the file on disk is not the well-formed text that was rendered")
    from rulelib import check_whole_file_writes
    from mirlib import ENTRY_POINTS as _EP
    check_whole_file_writes(ctx.P, r5, ctx.P.reachable(_EP), scope=lambda fid: "::generators::" in fid, what="generated module")
    r5.require_floor(1, "generated-module write sites")
    rules.append(r5)

    return finish(
        PROP, ctx, rules,
        "Lexical structure and bracket nesting of every template control path, sink typing of every interpolation against the characters the filling Rust "
        "code can produce, bracket balance of every type-constructor frame, and the guard on the type parser's fall-through.  These are necessary "
        "conditions of syntactic validity, exhaustive over the template paths and emitters; acceptance by a full TypeScript grammar is not decided.",
        ["acceptance of the placeholder-substituted skeleton by a real TypeScript parser beyond lexical structure and bracket nesting",
         "values of type_mappings (taken as TypeScript type names, as the configuration documents)",
         "names made only of underscores are reported through the `empty` hazard; Unicode identifier classes are taken as equal in Rust and JS"],
        ["seed table: Rust identifiers contain only XID characters (plus an r# prefix unless unrawed); serde rename values and validator messages are free text; "
         "Tauri event names use [A-Za-z0-9_/:-]"])


CTX_TEXT = {"ident_ref": "identifier-reference", "decl_fn": "declared-function-name", "decl_name": "declared-name", "member": "member-access", "key": "unquoted-property-key",
            "str_sq": "single-quoted-string", "str_dq": "double-quoted-string", "str_bt": "template-literal", "line_comment": "line-comment",
            "block_comment": "block-comment", "expr": "expression"}


def fmt(h):
    return ", ".join(HAZ_TEXT.get(x, x) for x in sorted(h))


def balance(s):
    st = []
    s = s.replace("=>", "  ")
    for ch in s:
        if ch in OPEN:
            st.append(ch)
        elif ch in CLOSE:
            if not st or st[-1] != CLOSE[ch]:
                return "unexpected %r" % ch
            st.pop()
    return ("unclosed %s" % "".join(st)) if st else None


def sanitised(init, S, fn):
    """the expression yields type text whose leading module path was removed (or that is a key of the mapping table)"""
    k = init.get("k")
    if k == "if":
        c = expr_text(init["cond"])
        then_tail = init["then"][-1]["e"] if init["then"] and init["then"][-1].get("k") == "expr" else None
        a_ok = False
        if re.search(r"type_mappings\.contains_key\(", c) and then_tail is not None:
            a_ok = True   # mapped names are replaced by their mapping, never emitted
        else:
            a_ok, _ = sanitised(then_tail, S, fn) if then_tail is not None else (False, "")
        b = init.get("else")
        if b is not None and b.get("k") == "block" and b["stmts"] and b["stmts"][-1].get("k") == "expr":
            b = b["stmts"][-1]["e"]
        b_ok, why = sanitised(b, S, fn) if b is not None else (False, "no else branch")
        return (a_ok and b_ok), ("mapping keys kept, otherwise " + why if a_ok and b_ok else "a branch keeps the raw text")
    if k in ("call", "mcall"):
        name = expr_text(init["func"]).split("::")[-1] if k == "call" else init["method"]
        cands = [f for f in S.fns if f.name == name and f.body is not None]
        for f in cands:
            for x in walk_block(f.body):
                if x.get("k") == "mcall" and x["method"] in ("rfind", "rsplit", "rsplit_once", "rsplitn") and x["args"] and lit_str(x["args"][0]) == "::":
                    return True, "%s cuts at the last `::` of the leading path" % f.qname
                if x.get("k") == "mcall" and x["method"] in ("all",) and re.search(r"is_alphanumeric|is_ascii_alphanumeric", expr_text(x)):
                    return True, "%s validates identifier characters" % f.qname
        if k == "mcall" and init["method"] in TRANSPARENT | {"trim"}:
            return sanitised(init["recv"], S, fn)
        return False, "`%s` is not a path-stripping or validating function" % name
    if k == "path" and len(init["segs"]) == 1:
        return False, "`%s` is the unprocessed text" % init["segs"][0]
    return False, "unrecognised expression"


def replace_chain(S, fn, depth=0):
    """characters replaced by a `.replace(a, b).replace(..)` chain in fn (in application order), following one level of helper calls"""
    chain = []
    for e in walk_block(fn.body):
        if e.get("k") == "mcall" and e["method"] == "replace" and len(e["args"]) == 2 and e["args"][0].get("k") == "lit":
            chain.append(e["args"][0]["lit"]["v"])
    if chain:
        return list(reversed(chain))   # walk is outermost-first
    # the same chain kept as rows of a constant table and applied in table order by a fold / loop: `TABLE.iter().fold(s, |acc, (c, r)| acc.replace(*c, r))`
    table_applied = any(e.get("k") == "mcall" and e["method"] == "replace" and len(e["args"]) == 2 and e["args"][0].get("k") != "lit" for e in walk_block(fn.body))
    if table_applied:
        for e in walk_block(fn.body):
            if e.get("k") == "path" and e["segs"][-1] in S.consts:
                ce = S.consts[e["segs"][-1]].get("expr")
                while isinstance(ce, dict) and ce.get("k") in ("ref", "paren"):
                    ce = ce["expr"]
                if isinstance(ce, dict) and ce.get("k") == "array":
                    rows = []
                    for row in ce["elems"]:
                        if row.get("k") == "tuple" and len(row["elems"]) == 2 and row["elems"][0].get("k") == "lit" and row["elems"][0]["lit"]["t"] in ("char", "str") \
                                and lit_str(row["elems"][1]) is not None and lit_str(row["elems"][1]).startswith("\\"):
                            rows.append(row["elems"][0]["lit"]["v"])
                        else:
                            rows = None
                            break
                    reversing = any(x.get("k") == "mcall" and x["method"] == "rev" for x in walk_block(fn.body))
                    if rows and not reversing:
                        return rows
    if depth < 2:
        for e in walk_block(fn.body):
            if e.get("k") == "call" and e["func"].get("k") == "path":
                # the callee, and a function handed to it by name (`filter_string("escape_js", value, escape_js)`)
                names_ = [e["func"]["segs"][-1]] + [a_["segs"][-1] for a_ in e.get("args", []) if a_.get("k") == "path" and a_.get("segs")]
                g = [x for x in S.fns if x.name in names_ and x.body is not None and x.file == fn.file]
                for h in g:
                    c = replace_chain(S, h, depth + 1)
                    if c:
                        return c
    return []


def chain_ok(chain):
    return bool(chain) and chain[0] == "\\" and {'"', "\n", "\r"} <= set(chain)


CHAR_PATS = {"'\\\\'": "\\", "'\"'": '"', "'\\\"'": '"', "'\\n'": "\n", "'\\r'": "\r", "'\\t'": "\t"}


def escaper_ok(S, fn, depth=0):
    """does fn escape text for a double-quoted JS literal?  Either the `.replace` chain (backslash first, then \" \\n \\r), or one pass over the
    characters with a `match` that maps each of \\ \" \\n \\r to a backslash sequence and keeps every other character as it is."""
    if chain_ok(replace_chain(S, fn)):
        return True
    for m in walk_block(fn.body):
        if m.get("k") != "match":
            continue
        table = {}
        keeps = False
        for arm in m["arms"]:
            pts = [x.strip() for x in pat_text(arm["pat"]).split("|")]
            lits = [lit_str(x) for x in walk(arm["body"]) if lit_str(x) is not None]
            def char_of(t_):
                if t_ in CHAR_PATS:
                    return CHAR_PATS[t_]
                try:
                    v_ = json.loads(t_)
                except ValueError:
                    return None
                return v_ if isinstance(v_, str) and len(v_) == 1 else None
            if arm["pat"].get("k") not in ("ident", "wild") and all(char_of(p_) is not None for p_ in pts):
                if len(lits) == 1 and len(lits[0]) == 2 and lits[0][0] == "\\":
                    for p_ in pts:
                        table[char_of(p_)] = lits[0]
                else:
                    table = None
                    break
            elif arm["pat"].get("k") in ("ident", "wild") and not arm.get("guard"):
                nm = arm["pat"].get("name")
                bt = expr_text(arm["body"])
                keeps = bool(nm) and (re.search(r"\bpush\(\s*%s\s*\)" % re.escape(nm), bt) is not None or bt.strip() in (nm, "%s.to_string()" % nm, "vec![%s]" % nm)) \
                    or (nm is None and re.search(r"\bpush\(\s*%s\s*\)" % re.escape(expr_text(m["expr"])), bt) is not None)
            else:
                table = None
                break
        if table and keeps and {"\\", '"', "\n", "\r"} <= set(table):
            over_chars = any(e.get("k") == "mcall" and e["method"] == "chars" for e in walk_block(fn.body))
            if over_chars:
                return True
    if depth < 2:
        for e in walk_block(fn.body):
            if e.get("k") == "call" and e["func"].get("k") == "path":
                for h in [x for x in S.fns if x.name == e["func"]["segs"][-1] and x.body is not None and x.file == fn.file]:
                    if escaper_ok(S, h, depth + 1):
                        return True
    return False


def registered_filters(S):
    """filter name -> Rust fn, from tera.register_filter("name", fn) calls"""
    out = {}
    for f in S.fns:
        if f.body is None:
            continue
        for e in walk_block(f.body):
            if e.get("k") == "mcall" and e["method"] == "register_filter" and len(e["args"]) == 2 and lit_str(e["args"][0]):
                nm = expr_text(e["args"][1]).split("::")[-1]
                g = [x for x in S.fns if x.name == nm and x.body is not None]
                if g:
                    out[lit_str(e["args"][0])] = g[0]
    # the same registrations kept as rows of a constant table that a loop hands to register_filter: `("escape_js", escape_js_filter)`
    loops = any(e.get("k") == "mcall" and e["method"] == "register_filter" and len(e["args"]) == 2 and lit_str(e["args"][0]) is None
                for f in S.fns if f.body is not None for e in walk_block(f.body))
    if loops:
        for cname, c in S.consts.items():
            ce = c.get("expr") if isinstance(c, dict) else None
            for x in (walk(ce) if isinstance(ce, dict) else []):
                if x.get("k") == "tuple" and len(x.get("elems", [])) == 2 and lit_str(x["elems"][0]) is not None and x["elems"][1].get("k") == "path":
                    nm = x["elems"][1]["segs"][-1]
                    g = [y for y in S.fns if y.name == nm and y.body is not None]
                    if g and nm.endswith("filter"):
                        out.setdefault(lit_str(x["elems"][0]), g[0])
    return out


def is_ident_guard(S, cond, file):
    """the condition calls a function that accepts exactly identifier-shaped text: a test on the first character and `.all(..)` over alphanumerics"""
    for x in walk(cond):
        if x.get("k") == "call" and x["func"].get("k") == "path":
            for g in [y for y in S.fns if y.name == x["func"]["segs"][-1] and y.body is not None and y.file == file]:
                txt = " ".join(expr_text(e) for e in walk_block(g.body))
                has_all = any(e.get("k") == "mcall" and e["method"] == "all" for e in walk_block(g.body))
                first = any(e.get("k") == "mcall" and e["method"] in ("is_some_and", "map_or", "is_some_and") for e in walk_block(g.body)) or "next()" in txt
                alnum = re.search(r"is_(ascii_)?alphanumeric\(\)", txt) and re.search(r"is_(ascii_)?alphabetic\(\)", txt)
                neg = any(e.get("k") == "unary" and e["op"] == "!" for e in walk_block(g.body))
                if has_all and first and alnum and not neg:
                    return g.qname
    return None


_LOCAL_CLOSURES = {}     # name -> closure AST of `let name = |c| ..;` in the predicate being read (set by ident_predicate_sets)


def char_class(S, e, var, file, depth=0):
    """the set of character classes for which a boolean expression over the character variable `var` is true: subsets of
    {"alpha", "digit", "_", "$", <other literal chars>}; None when the expression is not understood (or can be true for anything else)"""
    while isinstance(e, dict) and e.get("k") in ("paren", "block") and (e.get("k") == "paren" or (len(e.get("stmts", [])) == 1 and e["stmts"][0].get("k") == "expr")):
        e = e["expr"] if e.get("k") == "paren" else e["stmts"][0]["e"]
    if not isinstance(e, dict) or depth > 4:
        return None
    k = e.get("k")
    if k == "binary" and e["op"] == "||":
        l, r = char_class(S, e["l"], var, file, depth), char_class(S, e["r"], var, file, depth)
        return None if l is None or r is None else l | r
    if k == "binary" and e["op"] == "==":
        for a_, b_ in ((e["l"], e["r"]), (e["r"], e["l"])):
            if expr_text(a_).lstrip("*&") == var and b_.get("k") == "lit" and b_["lit"].get("t") == "char":
                return {str(b_["lit"]["v"])}
        return None
    if k == "mcall" and expr_text(e["recv"]).lstrip("*&") == var and not e["args"]:
        return {"is_alphabetic": {"alpha"}, "is_ascii_alphabetic": {"alpha"}, "is_alphanumeric": {"alpha", "digit"}, "is_ascii_alphanumeric": {"alpha", "digit"},
                "is_ascii_digit": {"digit"}, "is_numeric": {"digit"}}.get(e["method"])
    if k == "macro" and e.get("name") == "matches" and e.get("pat") is not None and expr_text(e["expr"]).lstrip("*&") == var and not e.get("guard"):
        pat = e["pat"]
        cases = pat["cases"] if pat.get("k") == "or" else [pat]
        if all(c.get("k") == "lit" and c["lit"].get("t") == "char" for c in cases):
            return {str(c["lit"]["v"]) for c in cases}
        return None
    if k == "call" and e["func"].get("k") == "path" and len(e["args"]) == 1 and expr_text(e["args"][0]).lstrip("*&") == var:
        clo = _LOCAL_CLOSURES.get(e["func"]["segs"][-1]) if len(e["func"]["segs"]) == 1 else None
        if clo is not None and len(clo.get("params", [])) == 1 and pat_bindings(clo["params"][0]):
            return char_class(S, clo["body"], pat_bindings(clo["params"][0])[0], file, depth + 1)
        for g in [y for y in S.fns if y.name == e["func"]["segs"][-1] and y.body is not None and y.file == file]:
            prm = [p_["pat"].get("name") for p_ in g.sig.get("params", []) if p_.get("pat")]
            if len(prm) == 1 and len(g.body) == 1 and g.body[0].get("k") == "expr" and not g.body[0].get("semi"):
                return char_class(S, g.body[0]["e"], prm[0], file, depth + 1)
    return None


def ident_predicate_sets(S, g):
    """(classes accepted for the first character, classes accepted for the others) of a predicate that accepts identifier-shaped text, in either
    spelling: `it.next().is_some_and(|c| START) && it.all(|c| PART)`, or let-else on the first character + a loop with early `return false`"""
    body = g.body or []
    _LOCAL_CLOSURES.clear()
    for st in body:
        if st.get("k") == "let" and (st.get("pat") or {}).get("k") == "ident" and (st.get("init") or {}).get("k") == "closure":
            _LOCAL_CLOSURES[st["pat"]["name"]] = st["init"]
    # (C) `match it.next() { Some(first) if START => it.all(|c| PART), _ => false }`
    if len(body) >= 1 and body[-1].get("k") == "expr" and not body[-1].get("semi") and body[-1]["e"].get("k") == "match" and "next()" in expr_text(body[-1]["e"]["expr"]):
        m_ = body[-1]["e"]
        some = [a_ for a_ in m_["arms"] if a_["pat"].get("k") == "tstruct" and "::".join(a_["pat"].get("path", [])) == "Some"]
        rest = [a_ for a_ in m_["arms"] if a_ not in some]
        if len(some) == 1 and some[0].get("guard") and all(expr_text(a_["body"]) == "false" for a_ in rest) and rest:
            fv = pat_bindings(some[0]["pat"])
            b_ = some[0]["body"]
            while isinstance(b_, dict) and b_.get("k") == "block" and len(b_["stmts"]) == 1 and b_["stmts"][0].get("k") == "expr":
                b_ = b_["stmts"][0]["e"]
            if fv and b_.get("k") == "mcall" and b_["method"] == "all" and b_["args"] and b_["args"][0].get("k") == "closure":
                qv = pat_bindings(b_["args"][0]["params"][0])[0]
                return char_class(S, some[0]["guard"], fv[0], g.file), char_class(S, b_["args"][0]["body"], qv, g.file)
    # (A) one expression
    if len(body) >= 1 and body[-1].get("k") == "expr" and not body[-1].get("semi"):
        e = body[-1]["e"]
        if e.get("k") == "binary" and e["op"] == "&&":
            l, r = e["l"], e["r"]
            if l.get("k") == "mcall" and l["method"] == "is_some_and" and l["args"] and l["args"][0].get("k") == "closure" and "next()" in expr_text(l["recv"]) \
                    and r.get("k") == "mcall" and r["method"] == "all" and r["args"] and r["args"][0].get("k") == "closure":
                pv = pat_bindings(l["args"][0]["params"][0])[0]
                qv = pat_bindings(r["args"][0]["params"][0])[0]
                return char_class(S, l["args"][0]["body"], pv, g.file), char_class(S, r["args"][0]["body"], qv, g.file)
    # (B) guard clauses
    def returns_false(node):
        stmts = node if isinstance(node, list) else (node.get("stmts") if isinstance(node, dict) and node.get("k") == "block" else [{"k": "expr", "e": node}])
        return any(x.get("k") == "return" and x.get("expr") is not None and expr_text(x["expr"]) == "false" for x in walk_block(stmts or []))
    first_var = None
    start = part = None
    ends_true = bool(body) and body[-1].get("k") == "expr" and not body[-1].get("semi") and expr_text(body[-1]["e"]) == "true"
    for st in body:
        if st.get("k") == "let" and st.get("else") is not None and st.get("init") is not None and "next()" in expr_text(st["init"]) and returns_false(st["else"]):
            bs = pat_bindings(st["pat"])
            first_var = bs[0] if bs else None
        elif st.get("k") == "expr" and st["e"].get("k") == "if" and st["e"].get("else") is None and first_var:
            c = st["e"]["cond"]
            if c.get("k") == "unary" and c.get("op") == "!" and returns_false(st["e"]["then"]):
                start = char_class(S, c["expr"], first_var, g.file)
        elif st.get("k") == "expr" and st["e"].get("k") == "for":
            lv = pat_bindings(st["e"]["pat"])
            for inner in st["e"]["body"]:
                if inner.get("k") == "expr" and inner["e"].get("k") == "if" and inner["e"].get("else") is None and lv:
                    c = inner["e"]["cond"]
                    if c.get("k") == "unary" and c.get("op") == "!" and returns_false(inner["e"]["then"]):
                        part = char_class(S, c["expr"], lv[0], g.file)
    if ends_true and first_var:
        return start, part
    return None, None


def ident_guard_fn(S, name, file):
    """is `name` a function (of that file) that accepts exactly identifier-shaped text: non-empty, first character alphabetic / `_` / `$`, every
    other character alphanumeric / `_` / `$` (decided on the character classes the predicate accepts, not on how it is written)"""
    for g in [y for y in S.fns if y.name == name and y.body is not None and y.file == file]:
        start, part = ident_predicate_sets(S, g)
        if start and part and start <= {"alpha", "_", "$"} and part <= {"alpha", "digit", "_", "$"}:
            return g.qname
    return None


def filter_effects(S, rule):
    """-> {filter name: effect}; effects: 'escape' (removes \" \\ line breaks), 'key' (identifier or quoted literal), 'access' (.ident or ["literal"]).
    Decided on the string shapes of the filter's return paths (SV), so that if/else, early returns and let-else spell the same filter."""
    eff = {}
    ev = SVEval(S)
    for name, fn in registered_filters(S).items():
        if name == "escape_js":
            if escaper_ok(S, fn):
                eff[name] = "escape"
                rule.ok("escape_js filter: \\ \" \\n \\r each become a backslash sequence (backslash handled first / in one pass)")
            else:
                rule.bad(V(rule.id, fn.qname, "escape-chain:%s" % replace_chain(S, fn), "the escape_js filter does not escape backslash first and cover \", \\n, \\r"))
            continue
        try:
            paths = ev.fn_paths(fn)
        except Exception:       # noqa: an unhandled construct: the filter simply gets no effect (its holes stay unclassified)
            continue
        ident_val = quoted_val = None
        guard = None
        shape_bad = None
        for conds, sv in paths:
            if not (sv[0] == "call" and sv[1].split("::")[-1] == "String" and len(sv[2]) == 1):
                continue
            g_pos = g_neg = None
            for c in conds:
                m = re.match(r"^(not\()?(\w+)\((\w+)\)\)?$", re.sub(r"^(\w+: )+", "", c))
                if m and ident_guard_fn(S, m.group(2), fn.file):
                    guard = ident_guard_fn(S, m.group(2), fn.file)
                    if m.group(1):
                        g_neg = True
                    else:
                        g_pos = True
            val = sv[2][0]
            if g_pos:
                ident_val = val
            elif g_neg:
                quoted_val = val
        if guard is None or ident_val is None or quoted_val is None:
            continue

        def pieces_(v):
            return v[1] if v[0] == "cat" else [v]
        qp = pieces_(quoted_val)
        esc_calls = [x for x in qp if x[0] == "call"]
        frame = "".join(x[1] if x[0] == "lit" else "{}" for x in qp)
        escaped = len(esc_calls) == 1 and any(escaper_ok(S, g) for g in S.fns if g.name == esc_calls[0][1].split("::")[-1] and g.body is not None and g.file == fn.file)
        if not escaped:
            rule.bad(V(rule.id, fn.qname, "quoted-branch-unescaped:%s" % name, "filter %s quotes non-identifiers without a valid escaper" % name))
            continue
        ip = pieces_(ident_val)
        iframe = "".join(x[1] if x[0] == "lit" else "{}" for x in ip)
        if frame == "\"{}\"" and iframe == "{}" and ip[0][0] == "var":
            eff[name] = "key"
            rule.ok("%s filter: identifier (guard %s) or escaped string literal" % (name, guard))
        elif frame == "[\"{}\"]" and iframe == ".{}":
            eff[name] = "access"
            rule.ok("%s filter: .identifier (guard %s) or [\"escaped literal\"]" % (name, guard))
        else:
            rule.bad(V(rule.id, fn.qname, "filter-shape:%s:%s" % (name, frame), "filter %s has an unexpected shape (frames %r / %r)" % (name, iframe, frame)))
    return eff


def hole_class(base, typing, prod, S):
    """-> (hazard class, source description) of a template expression base (identifier path / literal)"""
    if re.match(r'^".*"$', base) or re.match(r"^-?\d+(\.\d+)?$", base):
        return NONE, "literal"
    if re.search(r"[ ~+*/]| and | or |not\(", base):
        # computed expression: concatenations of literals and numbers only
        return UNKNOWN, "computed expression"
    m = re.match(r"^\(([^()]*)\)(.*)$", base)
    if m:
        base = m.group(1) + m.group(2)
    if base.startswith("loop."):
        return NONE, "loop counter"
    fo = typing.field_of(base)
    if fo and fo[0] == "ambiguous":
        return UNKNOWN, "variable typed as several structs %s" % fo[1]
    if fo:
        struct, fld = fo
        st = S.structs.get(struct)
        fty = next((x["ty"] for x in st["fields"] if x["name"] == fld), "") if st else ""
        if re.match(r"^(bool|usize|u32|u64|i32|i64|f64)$", fty):
            return NONE, "%s.%s: %s" % (struct, fld, fty)
        return prod.field(struct, fld), "%s.%s" % (struct, fld)
    root = base.split(".")[0]
    infos = typing.key_info.get(root)
    if infos and "." not in base:
        out = set()
        srcs = []
        for (fnq, val, ty) in sorted(infos):
            srcs.append("%s <- %s" % (fnq, val))
            if re.match(r"^(bool|usize)$", ty or ""):
                continue
            fn, ast = typing.key_ast.get((fnq, root), (None, None))
            out |= prod.expr(ast, fn, {}, ()) if ast is not None else UNKNOWN
        return frozenset(out), "; ".join(srcs)[:200]
    # loop variable over a list of strings (e.g. `file` in files)
    cands = typing.var_struct.get(root)
    if cands is not None and "." not in base:
        if root == "file":
            return frozenset(["punct"]), "written file name (literal table, C16)"
        return UNKNOWN, "untyped loop variable"
    return UNKNOWN, "unresolved path"

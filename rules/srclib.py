"""srclib — Python view of the syntax facts written by engines/srcfacts (syn AST + Tera AST)."""
import json
import os
import re


class FnInfo:
    def __init__(self, file, owner, trait, item):
        self.file = file
        self.owner = owner          # impl self type text / trait name / None
        self.trait = trait          # trait path text when inside `impl Trait for X`, or trait name for defaults
        self.item = item
        self.name = item["sig"]["name"]
        self.sig = item["sig"]
        self.body = item.get("body")
        self.line = item["ln"]
        self.eline = item.get("eln", item["ln"])
        self.attrs = item.get("attrs", [])

    @property
    def qname(self):
        return "%s::%s" % (self.owner, self.name) if self.owner else self.name

    def __repr__(self):
        return "<fn %s %s:%d>" % (self.qname, self.file, self.line)


def norm_ty(t):
    """token-stream text -> compact type text"""
    if t is None:
        return None
    t = re.sub(r"\s+", " ", t)
    t = t.replace(" :: ", "::").replace(" < ", "<").replace(" <", "<").replace("< ", "<")
    t = t.replace(" >", ">").replace(" ,", ",").replace("& ", "&").replace("' ", "'")
    return t.strip()


class Source:
    def __init__(self, path, repo):
        with open(path) as fh:
            d = json.load(fh)
        self.repo = repo
        self.files = d["files"]
        self.templates = d["templates"]
        self.errors = d["errors"]
        self.cargo_toml = d.get("cargo_toml", "")
        self.fns = []
        self.structs = {}
        self.enums = {}
        self.consts = {}
        self.impls = []
        for file, f in self.files.items():
            self._collect(file, f["items"])
        # helpers that did not exist at the pinned commit: every generic walker looks through a call to one of them (see walk)
        global _NEW_HELPERS, _STR_CONSTS
        _STR_CONSTS = {}
        pinned_consts = _pinned_consts()
        dup = set()
        for cname, c in self.consts.items():
            ce = c.get("expr") if isinstance(c, dict) else None
            nm = cname.split("::")[-1]
            if isinstance(ce, dict) and ce.get("k") == "lit" and ce["lit"]["t"] == "str" and (pinned_consts is None or nm not in pinned_consts):
                if nm in _STR_CONSTS and _STR_CONSTS[nm] != ce["lit"]["v"]:
                    dup.add(nm)
                _STR_CONSTS[nm] = ce["lit"]["v"]
        for nm in dup:
            _STR_CONSTS.pop(nm, None)
        byname = {}
        for fn in self.fns:
            byname.setdefault(fn.name, []).append(fn)
        _NEW_HELPERS = {}
        for name, fs in byname.items():
            bodies = [x for x in fs if x.body is not None]
            if len(bodies) == 1 and is_new_helper(bodies[0]) and "test" not in bodies[0].file.split("/")[-1]:
                _NEW_HELPERS[name] = bodies[0]

    def _nested_items(self, file, body):
        """items declared inside function bodies (e.g. the *HashData structs)"""
        def stmts(ss):
            for st in ss or []:
                if st.get("k") == "item" and st.get("item"):
                    yield st["item"]
        for it in stmts(body):
            if it.get("k") == "struct":
                it["file"] = file
                it["nested"] = True
                self.structs.setdefault(it["name"], it)
            elif it.get("k") == "enum":
                it["file"] = file
                self.enums.setdefault(it["name"], it)
            elif it.get("k") == "const":
                it["file"] = file
                self.consts.setdefault(it["name"], it)

    def _collect(self, file, items):
        for it in items:
            k = it.get("k")
            if k == "fn":
                self.fns.append(FnInfo(file, None, None, it))
                self._nested_items(file, it.get("body"))
            elif k == "impl":
                owner = norm_ty(it["self_ty"])
                owner = re.sub(r"<.*>$", "", owner)
                tr = norm_ty(it.get("trait"))
                self.impls.append((file, owner, tr, it))
                for sub in it["items"]:
                    if sub["k"] == "fn":
                        self.fns.append(FnInfo(file, owner, tr, sub))
                        self._nested_items(file, sub.get("body"))
                    elif sub["k"] == "const":
                        self.consts["%s::%s" % (owner, sub["name"])] = sub
            elif k == "trait":
                for sub in it["items"]:
                    if sub["k"] == "fn" and sub.get("body") is not None:
                        self.fns.append(FnInfo(file, it["name"], it["name"], sub))
                    elif sub["k"] == "fn":
                        fi = FnInfo(file, it["name"], it["name"], sub)
                        fi.body = None
                        self.fns.append(fi)
            elif k == "struct":
                it["file"] = file
                self.structs[it["name"]] = it
            elif k == "enum":
                it["file"] = file
                self.enums[it["name"]] = it
            elif k == "const":
                it["file"] = file
                self.consts[it["name"]] = it
            elif k == "mod":
                self._collect(file, it["items"])

    def find_fns(self, owner, name):
        return [f for f in self.fns if f.name == name and (owner is None or f.owner == owner)]

    def fn(self, owner, name, trait=None, _hops=0):
        c = [f for f in self.find_fns(owner, name) if f.body is not None and (trait is None or (f.trait or "").endswith(trait))]
        if c:
            return c[0]
        # a function of the pinned tree that no longer exists under its name: when it had a single caller there, its body was most likely folded into
        # that caller — what a rule looks for "in f" is then to be looked for in the caller (a rule that does not find it there still reports)
        if owner is not None and trait is None and _hops < 3:
            for fid, callers in _pinned_callers().items():
                segs = fid.split("::")
                if len(segs) >= 2 and segs[-1] == name and segs[-2] == owner and len(callers) == 1:
                    cs = callers[0].split("::")
                    if len(cs) >= 2:
                        self.relocated = getattr(self, "relocated", {})
                        self.relocated["%s::%s" % (owner, name)] = "%s::%s" % (cs[-2], cs[-1])
                        return self.fn(cs[-2], cs[-1], None, _hops + 1)
        return None

    # ------------------------------------------------------------ template registry
    def template_registry(self):
        """name -> template file (relative to repo), from `template!(tera, "name", "path")`
        invocations; the path is relative to the registering source file (include_str!)."""
        reg = {}
        for f in self.fns:
            if f.body is None:
                continue
            for e in walk_block(f.body):
                if e.get("k") == "macro" and e.get("name") == "template" and e.get("args") and len(e["args"]) == 3:
                    a = e["args"]
                    n = lit_str(a[1])
                    p = lit_str(a[2])
                    if n is not None and p is not None:
                        full = os.path.normpath(os.path.join(os.path.dirname(f.file), p))
                        reg[n] = {"file": full, "registrar": f.qname, "src": f.file, "line": e["ln"]}
        # the same pairing written without the macro: `("name", include_str!("path"))` rows of a table that a loop hands to add_raw_template,
        # or add_raw_template("name", include_str!("path")) itself

        def inc_path(e):
            if e and e.get("k") == "macro" and e.get("name") == "include_str":
                m = re.match(r'^\s*"((?:[^"\\]|\\.)*)"\s*,?\s*$', e.get("tokens", ""))
                return m.group(1) if m else None
            return None

        def scan(e, file, registrar):
            for x in walk(e):
                pair = None
                if x.get("k") == "tuple" and len(x.get("elems", [])) == 2:
                    pair = x["elems"]
                elif x.get("k") == "mcall" and x.get("method") == "add_raw_template" and len(x.get("args", [])) == 2:
                    pair = x["args"]
                if pair:
                    n, p_ = lit_str(pair[0]), inc_path(pair[1])
                    if n is not None and p_ is not None and n not in reg:
                        full = os.path.normpath(os.path.join(os.path.dirname(file), p_))
                        reg[n] = {"file": full, "registrar": registrar, "src": file, "line": x.get("ln", 0)}
        registering_files = {f.file for f in self.fns if f.body is not None and any(e.get("k") == "mcall" and e.get("method") == "add_raw_template" for e in walk_block(f.body))}
        for f in self.fns:
            if f.body is not None and f.file in registering_files:
                for e in walk_block(f.body):
                    scan(e, f.file, f.qname)
        for name, c in self.consts.items():
            if c.get("file") in registering_files and isinstance(c.get("expr"), dict):
                scan(c["expr"], c["file"], name)
        return reg


# ------------------------------------------------------------------ AST walking

_PINNED_CALLERS = [None]


def _pinned_callers():
    """pinned function id -> pinned callers (tables/pinned_callers.json); {} when the table is missing"""
    if _PINNED_CALLERS[0] is None:
        import json as _json
        p_ = os.path.join(os.path.dirname(os.path.dirname(os.path.abspath(__file__))), "tables", "pinned_callers.json")
        try:
            _PINNED_CALLERS[0] = _json.load(open(p_))
        except Exception:  # noqa
            _PINNED_CALLERS[0] = {}
    return _PINNED_CALLERS[0]


def _pinned_consts():
    """names of the string constants of the pinned tree (tables/pinned_consts.json); None when the table is missing"""
    import json as _json
    p_ = os.path.join(os.path.dirname(os.path.dirname(os.path.abspath(__file__))), "tables", "pinned_consts.json")
    try:
        return set(_json.load(open(p_)))
    except Exception:  # noqa
        return None


_STR_CONSTS = {}        # NAME -> text of `const NAME: &str = "text";` items that did not exist at the pinned commit (filled by Source)


def lit_str(e):
    if e and e.get("k") == "lit" and e["lit"]["t"] == "str":
        return e["lit"]["v"]
    # a literal that a clean-up gave a name (`const TYPES_TEMPLATE: &str = "typescript/types.ts.tera";` … `render(TYPES_TEMPLATE, ..)`)
    if e and e.get("k") == "path" and e.get("segs") and e["segs"][-1] in _STR_CONSTS and e["segs"][-1].isupper():
        return _STR_CONSTS[e["segs"][-1]]
    return None


def children(e):
    """direct sub-expressions / statements of an expression node"""
    k = e.get("k")
    out = []
    for key in ("func", "recv", "expr", "cond", "base", "index", "l", "r", "from", "to", "iter", "body", "else", "rest", "guard", "len"):
        v = e.get(key)
        if isinstance(v, dict):
            out.append(v)
        elif isinstance(v, list) and key in ("body", "else"):
            for s in v:
                out.extend(stmt_exprs(s))
    for key in ("args", "elems"):
        v = e.get(key)
        if isinstance(v, list):
            out.extend(x for x in v if isinstance(x, dict))
    if k == "match":
        for a in e["arms"]:
            if a.get("guard"):
                out.append(a["guard"])
            out.append(a["body"])
    if k in ("if",):
        for s in e["then"]:
            out.extend(stmt_exprs(s))
    if k == "block":
        for s in e["stmts"]:
            out.extend(stmt_exprs(s))
    if k == "struct":
        for f in e["fields"]:
            out.append(f["expr"])
    return out


def stmt_exprs(s):
    k = s.get("k")
    if k == "let":
        out = []
        if s.get("init"):
            out.append(s["init"])
        if s.get("else"):
            out.append(s["else"])
        return out
    if k == "expr":
        return [s["e"]]
    return []


_NEW_HELPERS = {}


def callee_name(x):
    if x.get("k") == "mcall":
        return x["method"]
    if x.get("k") == "call" and isinstance(x.get("func"), dict) and x["func"].get("k") == "path" and x["func"].get("segs"):
        return x["func"]["segs"][-1]
    return None


def walk(e, skip=()):
    """pre-order over all expression nodes below e (inclusive).  A call to a function that did not exist at the pinned commit (a helper some
    clean-up extracted) is followed into that function's body: what a rule looks for "inside f" is still inside f after part of f was given a name.
    `skip`: names not to follow (the function whose own body is being walked, when it is such a helper and calls itself)."""
    stack = [(e, tuple(skip))]
    callee_paths = set()
    while stack:
        x, active = stack.pop()
        if not isinstance(x, dict):
            continue
        yield x
        cs = children(x)
        extra = []
        if _NEW_HELPERS and len(active) < 3:
            nm = callee_name(x)
            if x.get("k") == "call" and isinstance(x.get("func"), dict):
                callee_paths.add(id(x["func"]))
            if nm is None and x.get("k") == "path" and len(x.get("segs", [])) >= 2 and id(x) not in callee_paths:
                nm = x["segs"][-1]          # the helper handed over by name: `.map(Self::segment_to_string)`
            h = _NEW_HELPERS.get(nm) if nm else None
            if h is not None and nm not in active:
                for st in h.body or []:
                    extra.extend((y, active + (nm,)) for y in stmt_exprs(st))
        stack.extend(reversed([(c, active) for c in cs] + extra))


def walk_block(stmts, skip=()):
    for s in stmts or []:
        for e in stmt_exprs(s):
            yield from walk(e, skip)


def expr_text(e, depth=0):
    """compact, position-free rendering of an expression (for keys and messages)"""
    if e is None:
        return ""
    k = e.get("k")
    if k == "lit":
        v = e["lit"]["v"]
        return json.dumps(v, ensure_ascii=False) if e["lit"]["t"] in ("str", "char") else str(v).lower() if e["lit"]["t"] == "bool" else str(v)
    if k == "path":
        return "::".join(e["segs"])
    if k == "mcall":
        return "%s.%s(%s)" % (expr_text(e["recv"]), e["method"], ", ".join(expr_text(a) for a in e["args"]))
    if k == "call":
        return "%s(%s)" % (expr_text(e["func"]), ", ".join(expr_text(a) for a in e["args"]))
    if k == "field":
        return "%s.%s" % (expr_text(e["base"]), e["member"])
    if k == "ref":
        return "&" + expr_text(e["expr"])
    if k == "unary":
        return e["op"] + expr_text(e["expr"])
    if k == "binary":
        return "%s %s %s" % (expr_text(e["l"]), e["op"], expr_text(e["r"]))
    if k == "index":
        return "%s[%s]" % (expr_text(e["base"]), expr_text(e["index"]))
    if k == "range":
        return "%s..%s" % (expr_text(e.get("from")), expr_text(e.get("to")))
    if k == "macro":
        return "%s!(%s)" % (e["name"], re.sub(r"\s+", " ", e["tokens"])[:80])
    if k == "try":
        return expr_text(e["expr"]) + "?"
    if k == "closure":
        return "|..| " + expr_text(e["body"])
    if k == "tuple":
        return "(" + ", ".join(expr_text(x) for x in e["elems"]) + ")"
    if k == "cast":
        return expr_text(e["expr"]) + " as " + e["ty"]
    return "<%s>" % k


def pat_text(p):
    k = p.get("k")
    if k == "ident":
        return p["name"]
    if k == "tstruct":
        return "%s(%s)" % ("::".join(p["path"]), ", ".join(pat_text(x) for x in p["elems"]))
    if k == "struct":
        return "%s{%s}" % ("::".join(p["path"]), ", ".join(f["member"] for f in p["fields"]))
    if k == "tuple":
        return "(" + ", ".join(pat_text(x) for x in p["elems"]) + ")"
    if k == "lit":
        v = p["lit"]["v"]
        return json.dumps(v, ensure_ascii=False) if isinstance(v, str) else str(v)
    if k == "wild":
        return "_"
    if k == "or":
        return " | ".join(pat_text(x) for x in p["cases"])
    if k == "path":
        return "::".join(p["segs"])
    if k == "ref":
        return "&" + pat_text(p["pat"])
    if k == "typed":
        return pat_text(p["pat"])
    return "<%s>" % k


def pat_bindings(p):
    """identifier names bound by a pattern"""
    k = p.get("k")
    if k == "ident":
        out = [p["name"]]
        if p.get("sub"):
            out += pat_bindings(p["sub"])
        return out
    if k in ("tstruct", "tuple", "slice"):
        return [b for x in p["elems"] for b in pat_bindings(x)]
    if k == "struct":
        return [b for f in p["fields"] for b in pat_bindings(f["pat"])]
    if k == "or":
        return pat_bindings(p["cases"][0]) if p["cases"] else []
    if k in ("ref", "typed"):
        return pat_bindings(p["pat"])
    return []


def attribute_loops(fn):
    """`for` loops of fn that iterate over one of its parameters of an attribute-list type (&[Attribute], &Vec<syn::Attribute> ..);
    identified by the parameter's type, not by its name"""
    names = [p["pat"].get("name") for p in fn.sig.get("params", []) if p.get("pat") and "Attribute" in (p.get("ty") or "")]
    out = []
    for e in walk_block(fn.body):
        if e.get("k") == "for":
            it = expr_text(e["iter"])
            if any(re.search(r"\b%s\b" % re.escape(n), it) for n in names if n):
                out.append(e)
    return out


# ------------------------------------------------------------------ Tera AST helpers

def tera_expr_idents(e):
    """identifier paths mentioned by a Tera expression (value, filters' arguments)"""
    out = []

    def val(v):
        k = v.get("k")
        if k == "ident":
            out.append(v["v"])
        elif k in ("math", "logic"):
            ex(v["l"])
            ex(v["r"])
        elif k == "test":
            out.append(v["ident"])
            for a in v["args"]:
                ex(a)
        elif k == "array":
            for a in v["elems"]:
                ex(a)
        elif k == "concat":
            for a in v["values"]:
                val(a)
        elif k == "in":
            ex(v["l"])
            ex(v["r"])
        elif k == "fncall":
            for _, a in v["call"]["args"]:
                ex(a)

    def ex(e):
        val(e["val"])
        for f in e.get("filters", []):
            for _, a in f["args"]:
                ex(a)
    ex(e)
    return out


def tera_walk(nodes):
    """yield every node (pre-order) of a Tera AST"""
    for n in nodes:
        yield n
        k = n.get("k")
        if k == "for":
            yield from tera_walk(n["body"])
            if n.get("empty"):
                yield from tera_walk(n["empty"])
        elif k == "if":
            for c in n["conds"]:
                yield from tera_walk(c["body"])
            if n.get("else"):
                yield from tera_walk(n["else"])
        elif k in ("block", "macrodef", "filtersection"):
            yield from tera_walk(n["body"])


def tera_all_idents(nodes):
    out = []
    for n in tera_walk(nodes):
        k = n.get("k")
        if k == "var":
            out.extend(tera_expr_idents(n["e"]))
        elif k == "set":
            out.extend(tera_expr_idents(n["value"]))
        elif k == "for":
            out.extend(tera_expr_idents(n["container"]))
        elif k == "if":
            for c in n["conds"]:
                out.extend(tera_expr_idents(c["cond"]))
    return out


def literal_set_guard(S, cond):
    """a closed membership test of one subject against string literals, however it is spelled:
    matches!(x, "a" | "b"), CONST.contains(&x) / ["a", "b"].contains(&x) with CONST a constant array of literals, x == "a" || x == "b".
    -> (subject text, frozenset of literals) or None"""
    if not isinstance(cond, dict):
        return None
    k = cond.get("k")
    if k == "paren":
        return literal_set_guard(S, cond.get("expr"))
    if k == "macro" and cond.get("name") == "matches" and cond.get("pat") is not None and not cond.get("guard"):
        pat = cond["pat"]
        cases = pat["cases"] if pat.get("k") == "or" else [pat]
        lits = [c["lit"]["v"] for c in cases if c.get("k") == "lit" and c["lit"].get("t") == "str"]
        if len(lits) == len(cases) and lits:
            return (expr_text(cond["expr"]), frozenset(lits))
        return None
    if k == "mcall" and cond.get("method") == "contains" and len(cond.get("args", [])) == 1:
        recv = cond["recv"]
        while recv.get("k") in ("ref", "paren"):
            recv = recv["expr"]
        arr = None
        if recv.get("k") == "array":
            arr = recv
        elif recv.get("k") == "path":
            c = S.consts.get(recv["segs"][-1]) or S.consts.get("::".join(recv["segs"][-2:]))
            e = c.get("expr") if c else None
            while isinstance(e, dict) and e.get("k") in ("ref", "paren"):
                e = e["expr"]
            if isinstance(e, dict) and e.get("k") == "array":
                arr = e
        if arr is not None:
            lits = [lit_str(x) for x in arr["elems"]]
            if lits and all(x is not None for x in lits):
                a = cond["args"][0]
                while a.get("k") in ("ref", "paren"):
                    a = a["expr"]
                return (expr_text(a), frozenset(lits))
        return None
    if k == "call" and len(cond.get("args", [])) == 2 and isinstance(cond.get("func"), dict) and cond["func"].get("k") == "path":
        # a small membership helper that a clean-up introduced: `ident_in(&ident, EMIT_METHODS)` with `fn ident_in(i, table) { table.iter().any(|t| i == t) }`
        h = _NEW_HELPERS.get(cond["func"]["segs"][-1])
        if h is not None and h.body is not None and any(x.get("k") == "mcall" and x["method"] in ("any", "contains") for x in walk_block(h.body, (h.name,))):
            for i_, a in enumerate(cond["args"]):
                t = a
                while t.get("k") in ("ref", "paren"):
                    t = t["expr"]
                arr = None
                if t.get("k") == "array":
                    arr = t
                elif t.get("k") == "path":
                    c = S.consts.get(t["segs"][-1]) or S.consts.get("::".join(t["segs"][-2:]))
                    e = c.get("expr") if c else None
                    while isinstance(e, dict) and e.get("k") in ("ref", "paren"):
                        e = e["expr"]
                    if isinstance(e, dict) and e.get("k") == "array":
                        arr = e
                if arr is not None:
                    lits = [lit_str(x) for x in arr["elems"]]
                    if lits and all(x is not None for x in lits):
                        o_ = cond["args"][1 - i_]
                        while o_.get("k") in ("ref", "paren"):
                            o_ = o_["expr"]
                        return (expr_text(o_), frozenset(lits))
        return None
    if k == "binary" and cond.get("op") == "||":
        l = literal_set_guard(S, cond["l"])
        r = literal_set_guard(S, cond["r"])
        if l and r and l[0] == r[0]:
            return (l[0], l[1] | r[1])
        return None
    if k == "binary" and cond.get("op") == "==":
        for a, b in ((cond["l"], cond["r"]), (cond["r"], cond["l"])):
            if lit_str(b) is not None:
                return (expr_text(a).lstrip("*&"), frozenset([lit_str(b)]))
    return None


_PINNED_S = [False, None]


def _pinned_suffixes():
    if _PINNED_S[0] is False:
        import json as _json
        p = os.path.join(os.path.dirname(os.path.dirname(os.path.abspath(__file__))), "tables", "pinned_functions.json")
        try:
            with open(p) as fh:
                ids = _json.load(fh)
            suf = set()
            for i in ids:
                t_ = i
                for _ in range(4):
                    t_ = re.sub(r"(::)?<[^<>]*>", "", t_)
                parts = [x for x in t_.split("::") if x]
                suf.add("::".join(parts[-2:]))
                suf.add(parts[-1])
            _PINNED_S[1] = suf
        except (OSError, ValueError):
            _PINNED_S[1] = None
        _PINNED_S[0] = True
    return _PINNED_S[1]


def is_new_helper(fn):
    """a function that did not exist at the pinned commit (see tables/pinned_functions.json): rules look through it"""
    suf = _pinned_suffixes()
    if suf is None:
        return False
    if getattr(fn, "trait", None):
        return False            # a trait implementation is not a helper somebody extracted
    q = fn.qname if fn.owner else fn.name
    return q not in suf


def walk_block_deep(S, fn, depth=0, seen=None):
    """walk_block(fn.body) plus the bodies of the new private helpers it calls (self.helper(..), Self::helper(..), helper(..) of the same file):
    what was moved out of an anchored function by a clean-up is still seen by the rule that reads the function"""
    seen = seen if seen is not None else set()
    if fn.body is None or (fn.file, fn.qname) in seen:
        return
    seen.add((fn.file, fn.qname))
    for e in walk_block(fn.body):
        yield e
        if depth >= 3:
            continue
        callee = None
        if e.get("k") == "mcall":
            callee = e["method"]
        elif e.get("k") == "call" and e["func"].get("k") == "path":
            callee = e["func"]["segs"][-1]
        if callee:
            for g in S.fns:
                if g.name == callee and g.body is not None and g.file == fn.file and is_new_helper(g):
                    yield from walk_block_deep(S, g, depth + 1, seen)


def literal_map(S, fn):
    """{key literal: result literal} of a function that maps string literals to string literals, whether it is written as a `match` on the
    string, an if/else-if chain of `==` / matches! / CONST.contains(&x) tests, or a mixture"""
    got = {}
    for e in walk_block(fn.body):
        if e.get("k") == "match":
            for arm in e["arms"]:
                pats = arm["pat"]["cases"] if arm["pat"].get("k") == "or" else [arm["pat"]]
                tgt = None
                for x in walk(arm["body"]):
                    if x.get("k") == "lit" and x["lit"]["t"] == "str":
                        tgt = x["lit"]["v"]
                for p in pats:
                    if p.get("k") == "lit" and p["lit"].get("t") == "str":
                        got.setdefault(p["lit"]["v"], tgt)
        if e.get("k") == "if" and e["cond"].get("k") != "letcond":
            g = literal_set_guard(S, e["cond"])
            if g is not None:
                tgt = None
                for x in walk_block(e["then"]):
                    if x.get("k") == "lit" and x["lit"]["t"] == "str":
                        tgt = x["lit"]["v"]
                        break
                for k in g[1]:
                    got.setdefault(k, tgt)
    return got

"""C14 — re-running with nothing changed rewrites nothing; --force always regenerates.

Decided clauses:
  D1  UNORD/CALLS  the three cache digests are independent of hash-iteration order: no unordered iteration
                   inside the hash functions, no serde serialisation of a HashMap/HashSet-carrying value into a
                   digest, command discovery order (the slice hashed in order) is itself order-free, the hasher
                   has fixed keys
  D2  CALLS/ORDER  on a cache hit nothing that mutates the filesystem is reachable (CLI path; build path incl.
                   the caller's continuation)
  D3  CTRL/ORDER   the cache is consulted only when force is off; with force on generation is reached without
                   consulting it; the CLI flag is applied after the configuration file was loaded
"""
import re

from common import Rule, V, finish
from mirlib import ENTRY_POINTS, short_path, op_const, op_place
from rulelib import is_fs_mut, strip_generics, blocks_reachable_from, is_cache_check
from unord import Unord

PROP = "C14"
NR = "tauri_typegen::build::generation_cache::GenerationCache::needs_regeneration"
CACHE_NEW = "tauri_typegen::build::generation_cache::GenerationCache::new"
GEN_MODELS = "tauri_typegen::generators::base::BaseBindingsGenerator::generate_models"


def is_call_to(c, fid):
    return c.resolved == fid or c.path == fid or strip_generics(c.path) == fid


def origin_mentions_call(f, o, call_bb, depth=0):
    """does the origin tree go back (through wrappers) to the call in block call_bb?"""
    if depth > 10:
        return False
    t = o[0]
    if t == "call":
        c = o[1]
        if c.bb == call_bb and c.fn is f:
            return True
        return any(origin_mentions_call(f, f.origin(a), call_bb, depth + 1) for a in c.args[:2])
    if t in ("proj", "discr"):
        return origin_mentions_call(f, o[1], call_bb, depth + 1)
    if t == "multi":
        return any(origin_mentions_call(f, x, call_bb, depth + 1) for x in o[2])
    if t == "un":
        return origin_mentions_call(f, o[2], call_bb, depth + 1)
    return False


def adt_mentions_unordered(P, ty, depth=0, seen=None):
    """does (the local ADT named in) type text `ty` carry a HashMap/HashSet field?"""
    seen = seen or set()
    if re.search(r"std::collections::(HashMap|HashSet)<", ty):
        return ty
    if depth > 3:
        return None
    for path, adt in P.adts.items():
        if path in ty and path not in seen:
            seen.add(path)
            for v in adt["variants"]:
                for fld in v["fields"]:
                    r = adt_mentions_unordered(P, fld["ty"], depth + 1, seen)
                    if r:
                        return "%s.%s: %s" % (short_path(path), fld["name"], r)
    return None


def stale_only_cleanup(P, k, genf, gen_call, c2, fsreach, hit_blocks=None):
    """Discharge a mutating step that still runs after a cache hit when it can only remove files that are *not* in the list it is handed, and the
    list handed over on the hit path is the enumeration of the very directory it cleans:
      (a) c2 receives the value returned by the generating function (the `?`-unwrapped result of gen_call);
      (b) on its hit path the generating function returns names collected from OutputManager::get_generation_metadata (a read_dir enumeration
          whose only per-entry conditions are is_file / metadata / file-name conversions);
      (c) inside c2's callees every filesystem mutator is control-dependent on `<set built from that list>.contains(name) == false`.
    Then every file of the directory is in the list, so nothing is removed: the hit leaves the directory untouched."""
    # (a)
    passed = False
    for a in c2.args:
        o = k.origin(a)
        t = k.describe_origin(o, short=True, deep=6)
        if short_path(genf.id) in t or genf.id.split("::")[-1] + "(" in t:
            passed = True
        elif short_path(genf.id) in k.feeding_calls(a, depth=8):
            passed = True        # handed on through a step helper's return slot
    if not passed:
        return False, "it does not receive the generating function's result"
    # (b)
    src = False
    for c in genf.calls:
        if short_path(c.best) == "OutputManager::get_generation_metadata" and c.bb in genf.reach_blocks:
            src = True
    if not src:
        return False, "the hit path does not return the directory enumeration (get_generation_metadata)"
    # ... and that enumeration is what the hit path returns: every `Ok(..)` written to the return place inside the hit region derives from it
    n_ret = 0
    region = set(hit_blocks or ())
    work = list(region)
    gen_blocks = {c.bb for c in genf.calls if c.path == GEN_MODELS}
    while work:
        x = work.pop()
        if x in gen_blocks:
            continue
        for y in genf.succ[x]:
            if y not in region:
                region.add(y)
                work.append(y)
    # blocks that can only be reached through the hit region and before generation
    for b in sorted(hit_blocks or ()):
        for st in genf.blocks[b]["stmts"]:
            rv = st.get("rv")
            if rv and st["lhs"]["l"] == 0 and not st["lhs"].get("p") and rv["k"] == "aggr" and rv.get("variant") == "Ok":
                n_ret += 1
                oo = genf.origin(rv["ops"][0])
                # `Some(list)` built on the hit path by a helper and unwrapped by the caller: of the alternatives that reach the unwrapping only
                # those with a payload count (the payload-less ones cannot be the value whose field is read)
                if oo[0] == "proj" and oo[1][0] == "multi" and any(pj.startswith("as:") for pj in oo[2]):
                    want_v = [pj for pj in oo[2] if pj.startswith("as:")][0][3:]
                    alts = [a_ for a_ in oo[1][2] if a_[0] == "aggr" and a_[1].get("variant") == want_v and a_[1].get("ops")]
                    others = [a_ for a_ in oo[1][2] if not (a_[0] == "aggr" and a_[1].get("variant") != want_v and not a_[1].get("ops")) and a_ not in alts]
                    if alts and not others:
                        t = " | ".join(genf.describe_origin(genf.origin(a_[1]["ops"][0]), short=True, deep=8) for a_ in alts)
                        if all("get_generation_metadata" in genf.describe_origin(genf.origin(a_[1]["ops"][0]), short=True, deep=8) for a_ in alts):
                            continue
                        return False, "on the hit path the function returns %s, not the directory enumeration" % t[:80]
                t = genf.describe_origin(oo, short=True, deep=8)
                if "get_generation_metadata" not in t:
                    return False, "on the hit path the function returns %s, not the directory enumeration" % t[:80]
    if n_ret == 0:
        return False, "no return value is produced inside the hit region"
    gm = P.find("OutputManager::get_generation_metadata")
    for g in gm:
        pushes = [c for c in g.calls if short_path(c.path) == "Vec::push" and c.bb in g.reach_blocks]
        if not pushes:
            return False, "get_generation_metadata collects nothing"
        for pc in pushes:
            for (bb, keep, lose) in g.filters_in_iteration(pc.bb):
                o, _ = g.cond_struct(bb, keep[0])
                nm = short_path(o[1].best) if o[0] == "call" else o[0]
                if o[0] == "call" and o[1].name in ("next", "is_file", "metadata", "file_name", "to_str", "and_then", "branch", "map", "ok", "as_ref", "as_deref"):
                    continue
                if o[0] in ("proj", "multi", "arg"):
                    continue
                return False, "get_generation_metadata filters the entries it lists (%s)" % nm
    # (c)
    for t in P.targets(c2):
        for fid in sorted(P.reachable([t])):
            g = P.fns[fid]
            for c in g.calls:
                if c.bb not in g.reach_blocks:
                    continue
                if is_fs_mut(c) or (any(fsreach(x) for x in P.targets(c)) and not any(x in P.reachable([t]) and x != fid and False for x in P.targets(c))):
                    if not is_fs_mut(c):
                        # an intermediate call: its own body is examined when the loop reaches it, but it must itself run under the membership guard
                        pass
                    conds = g.must_conditions(c.bb)
                    guarded = any(re.search(r"HashSet::contains\(.*\)=false", x) for x in conds)
                    if is_fs_mut(c) and not guarded:
                        # the mutator may sit in a helper that is only *called* under the guard
                        callers_guarded = True
                        for cid in P.rcallgraph.get(fid, ()):
                            if cid not in P.reachable([t]) and cid != t:
                                continue
                            kk = P.fns[cid]
                            for cc in kk.calls:
                                if fid in P.targets(cc) and cc.bb in kk.reach_blocks:
                                    if not any(re.search(r"HashSet::contains\(.*\)=false", x) for x in kk.must_conditions(cc.bb)):
                                        callers_guarded = False
                        if not callers_guarded or not P.rcallgraph.get(fid):
                            return False, "%s in %s is not guarded by a `not in the given list` test" % (short_path(c.best), short_path(fid))
    return True, "it only removes files that are not in the list it receives, and on a hit that list enumerates the whole directory"


def check(ctx):
    P = ctx.P
    S = ctx.S
    reach = P.reachable(ENTRY_POINTS)
    memo = {}
    fsreach = lambda fid: P.reaches(fid, is_fs_mut, memo)  # noqa: E731
    U = Unord(P)
    rules = []

    # ---------------------------------------------------------------- D1
    r1 = Rule("C14-D1-digest-order-free", "D1",
              "inside GenerationCache::new and everything it reaches: no unordered iteration leaks, no serialisation of a value "
              "whose type carries a HashMap/HashSet, fixed-key hasher; and the hashed command slice is discovered in an order-free way",
              "a digest that depends on hash-iteration order differs between identical runs, so an unchanged project is regenerated (files rewritten, watchers fire)")
    if CACHE_NEW not in P.fns:
        r1.bad(V(r1.id, "<anchor>", "missing:GenerationCache::new", "anchor not found"))
    hscope = P.reachable([k for k in P.fns if k.startswith(CACHE_NEW) and "{" not in k])
    for s in U.sites([P.fns[x] for x in sorted(hscope)]):
        if s.kind in ("erased", "sorted", "scalar"):
            r1.ok("%s: %s over %s — %s" % (short_path(s.fn.id), s.call.name, s.source, s.why))
        else:
            r1.bad(V(r1.id, s.fn.id, s.ident(), "unordered iteration inside a digest: %s" % s.why, s.call.file, s.call.line))
    for fid in sorted(hscope):
        f = P.fns[fid]
        for c in f.calls:
            p = strip_generics(c.path)
            if p in ("serde_json::ser::to_string", "serde_json::ser::to_string_pretty", "serde_json::ser::to_vec", "serde_json::value::to_value"):
                ty = c.generics[0] if c.generics else ""
                carrier = adt_mentions_unordered(P, ty)
                if carrier:
                    r1.bad(V(r1.id, fid, "serialises-unordered:%s" % carrier,
                             "digest input %s is serialised with its HashMap/HashSet in iteration order (%s)" % (short_path(ty), carrier), c.file, c.line))
                else:
                    r1.ok("%s serialises %s (no hash-ordered field)" % (short_path(fid), short_path(ty)[:60]))
            if "RandomState" in c.path or p.endswith("BuildHasher::build_hasher"):
                r1.bad(V(r1.id, fid, "random-hasher:%s" % short_path(p), "digest uses a randomly keyed hasher", c.file, c.line))
            if p.endswith("DefaultHasher::new"):
                r1.ok("%s uses DefaultHasher::new() (fixed keys)" % short_path(fid))
    # the digest says what the output depends on, not how this run was started: `force` and `verbose` change no generated byte, so a digest that
    # reads them differs between a forced and a plain run over identical inputs — the plain run after a forced one rewrites everything
    RUN_ONLY_FIELDS = {"force", "verbose"}
    RUN_ONLY_GETTERS = {"GenerateConfig::should_force", "GenerateConfig::is_verbose"}
    n_ro = 0
    for fid in sorted(hscope):
        f = P.fns[fid]
        if "{promoted#" in fid or not fid.startswith(("tauri_typegen::build::generation_cache::", "<tauri_typegen::build::generation_cache::")):
            continue
        hits = set()
        for c in f.calls:
            if c.bb in f.reach_blocks and short_path(c.best) in RUN_ONLY_GETTERS:
                hits.add(short_path(c.best).split("::")[-1] + "()")
        import json as _json
        for b_ in f.reach_blocks:
            txt = _json.dumps([st.get("rv") for st in f.blocks[b_]["stmts"]] + [f.blocks[b_]["term"].get("args")])
            for m_ in re.finditer(r'"adt": "tauri_typegen::interface::config::GenerateConfig"[^{}]*?"name": "(\w+)"', txt):
                if m_.group(1) in RUN_ONLY_FIELDS:
                    hits.add(m_.group(1))
            for m_ in re.finditer(r'"name": "(\w+)"[^{}]*?"adt": "tauri_typegen::interface::config::GenerateConfig"', txt):
                if m_.group(1) in RUN_ONLY_FIELDS:
                    hits.add(m_.group(1))
        n_ro += 1
        if hits:
            r1.bad(V(r1.id, fid, "digest-reads-run-mode:%s" % ",".join(sorted(hits)),
                     "%s feeds %s into the digest: the digest of a forced (or verbose) run differs from that of a plain run over the same inputs, so the next plain run regenerates"
                     % (short_path(fid), sorted(hits)), f.file, f.line))
    r1.ok("%d digest functions read neither force nor verbose" % n_ro)
    # command discovery order
    ap = [f.id for f in P.find("CommandAnalyzer::analyze_project_with_verbose")]
    ascope = P.reachable(ap)
    from c13 import worklist_locals, _base
    n_disc = 0
    for s in U.sites([P.fns[x] for x in sorted(ascope)]):
        n_disc += 1
        if s.kind in ("erased", "sorted", "scalar"):
            continue
        f = s.fn
        wl = worklist_locals(f)
        if wl:
            continue  # confluent worklists: classified by C13-D1
        r1.bad(V(r1.id, f.id, "discovery-order:" + s.ident(),
                 "command/struct discovery iterates %s in hash order (%s); hash_commands serialises the command slice in discovery order" % (s.source, s.why),
                 s.call.file, s.call.line))
    r1.ok("%d unordered-iteration sites on the discovery path inspected" % n_disc)
    r1.require_floor(5, "digest-path sites")
    rules.append(r1)

    # ---------------------------------------------------------------- D2 / D3
    r2 = Rule("C14-D2-cache-hit-writes-nothing", "D2",
              "in every function that consults GenerationCache::needs_regeneration, the region that runs only on a hit reaches no filesystem "
              "mutator; if the function returns from that region, its callers run no unconditional mutating step afterwards",
              "any write on the hit path touches the watched output directory and re-triggers watchers / rerun-if-changed")
    r3 = Rule("C14-D3-force", "D3",
              "needs_regeneration is called only under should_force()==false; under should_force()==true generate_models is reached without it; "
              "the CLI flag assigns config.force=Some(true) under exactly `force`, and nothing overwrites the configuration afterwards",
              "a forced run that still consults the cache, or a flag overridden by the file, does not regenerate")
    nr_fns = []
    for fid in sorted(reach):
        f = P.fns[fid]
        if any(is_cache_check(c) for c in f.calls) and not fid.startswith("tauri_typegen::build::generation_cache::"):
            nr_fns.append(f)
    for f in nr_fns:
        nr = [c for c in f.calls if is_cache_check(c)][0]
        # hit region: branch edges whose switched value derives from the NR call with outcome false
        hit_blocks = set()
        for (a, lab, (o, outcome)) in f.branch_edges():
            if outcome == "false" and origin_mentions_call(f, o, nr.bb):
                hit_blocks |= f.edge_region(a, lab)
        if not hit_blocks:
            r2.bad(V(r2.id, f.id, "no-hit-region", "cannot identify the cache-hit branch of needs_regeneration in %s" % f.id, nr.file, nr.line))
            continue
        bad = False
        for b in sorted(hit_blocks):
            c = f.call_at(b)
            if c is None:
                continue
            if is_fs_mut(c) or any(fsreach(t) for t in P.targets(c)):
                bad = True
                r2.bad(V(r2.id, f.id, "hit-region-mutates:%s" % short_path(c.best),
                         "on a cache hit %s is still reached and can mutate the filesystem" % c.best, c.file, c.line))
        if not bad:
            r2.ok("%s: %d blocks run only on a cache hit; none reaches a filesystem mutator" % (short_path(f.id), len(hit_blocks)))
        # ... and nothing is written on the way *to* the check either: a mutating step that control passes before it asks the cache runs on a hit
        # as well (dependency-graph files rewritten with identical bytes and a fresh mtime on every unchanged run)
        before = {b for b in f.reach_blocks if nr.bb in blocks_reachable_from(f, b) and b != nr.bb}
        pre = []
        for b in sorted(before):
            c = f.call_at(b)
            if c is None or c is nr:
                continue
            if is_fs_mut(c) or any(fsreach(t) for t in P.targets(c)):
                pre.append(c)
        for c in pre:
            r2.bad(V(r2.id, f.id, "mutation-before-cache-check:%s" % short_path(c.best), "%s runs %s before it consults the cache: the step is repeated on a cache hit "
                     "and touches the output directory of an unchanged project" % (short_path(f.id), short_path(c.best)), c.file, c.line))
        if not pre:
            r2.ok("%s: no filesystem mutation on the way to the cache check" % short_path(f.id))
        # does the function return from the hit region without generating?
        gen_blocks = {c.bb for c in f.calls if c.path == GEN_MODELS}
        returns_from_hit = False
        from collections import deque as _dq
        seen_ = set(hit_blocks)
        dq_ = _dq(hit_blocks)
        while dq_:
            x = dq_.popleft()
            if x in gen_blocks:
                continue
            if f.blocks[x]["term"]["k"] == "return":
                returns_from_hit = True
                break
            for y in f.succ[x]:
                if y not in seen_:
                    seen_.add(y)
                    dq_.append(y)
        gen = [c for c in f.calls if c.path == GEN_MODELS]
        if returns_from_hit:
            for caller_id in sorted(P.rcallgraph.get(f.id, ())):
                if caller_id not in reach:
                    continue
                k = P.fns[caller_id]
                for cs in k.calls:
                    if f.id not in P.targets(cs):
                        continue
                    after = blocks_reachable_from(k, cs.bb)
                    for b in sorted(after):
                        c2 = k.call_at(b)
                        if c2 is None:
                            continue
                        if is_fs_mut(c2) or any(fsreach(t) for t in P.targets(c2)):
                            okg, whyg = stale_only_cleanup(P, k, f, cs, c2, fsreach, hit_blocks)
                            if okg:
                                r2.ok("%s after a hit: %s" % (short_path(c2.best), whyg))
                                continue
                            r2.notes.append("%s after a hit is not discharged as a stale-only clean-up: %s" % (short_path(c2.best), whyg))
                            r2.bad(V(r2.id, k.id, "mutation-after-cache-hit:%s" % short_path(c2.best),
                                     "after %s returned from a cache hit, %s still runs and can mutate the output directory" % (short_path(f.id), c2.best),
                                     c2.file, c2.line))
                        else:
                            r2.ok(None)
        # D3: force guard
        conds = f.must_conditions(nr.bb)
        if any(re.match(r"call GenerateConfig::should_force\(\)=false", x) for x in conds):
            r3.ok("%s: needs_regeneration only under should_force()=false" % short_path(f.id))
        else:
            r3.bad(V(r3.id, f.id, "cache-consulted-under-force", "needs_regeneration is not guarded by should_force()==false (guards: %s)" % conds, nr.file, nr.line))
        # under force, generation reached without NR
        ok_force = False
        for (a, lab, (o, outcome)) in f.branch_edges():
            if outcome == "true" and o[0] == "call" and short_path(o[1].best) == "GenerateConfig::should_force":
                tgt = dict(f.succ_edges(a))[lab] if lab in dict(f.succ_edges(a)) else None
                if tgt is None:
                    continue
                # reach generate_models without passing NR block
                from collections import deque
                seen = {tgt}
                dq = deque([tgt])
                while dq:
                    x = dq.popleft()
                    if x == nr.bb:
                        continue
                    cc = f.call_at(x)
                    if cc is not None and cc.path == GEN_MODELS:
                        ok_force = True
                        break
                    for y in f.succ[x]:
                        if y not in seen and y != nr.bb:
                            seen.add(y)
                            dq.append(y)
        # ... and unconditionally: what runs only because force is set cannot leave the function (no `?`, no return): a forced run must regenerate
        # from *every* cache state — no record, a corrupt one, one from another version — so nothing on that branch may fail on such a state
        for (a, lab, (o, outcome)) in f.branch_edges():
            if outcome == "true" and o[0] == "call" and short_path(o[1].best) == "GenerateConfig::should_force":
                for b in sorted(f.edge_region(a, lab) & f.reach_blocks):
                    if f.blocks[b]["term"]["k"] == "return":
                        r3.bad(V(r3.id, f.id, "force-path-conditional:return", "the branch taken only when force is set can return before generation"))
                    cc = f.call_at(b)
                    if cc is None:
                        continue
                    why_ = None
                    if strip_generics(cc.path) in ("std::ops::Try::branch", "std::ops::FromResidual::from_residual"):
                        why_ = "fallible-step"
                    elif cc.path.startswith("tauri_typegen::build::generation_cache::") or cc.path.startswith("std::fs::"):
                        r3.notes.append("forced branch calls %s (infallible use is harmless)" % short_path(cc.best))
                    if why_:
                        r3.bad(V(r3.id, f.id, "force-path-conditional:%s" % why_, "the branch taken only when force is set contains a %s that can end the run before generation: whether the forced run regenerates then depends on the state it meets" % why_, cc.file, cc.line))
        if ok_force:
            r3.ok("%s: should_force()=true reaches generate_models without consulting the cache" % short_path(f.id))
        else:
            r3.bad(V(r3.id, f.id, "force-does-not-reach-generation", "with force set, generate_models is not reached without needs_regeneration", nr.file, nr.line))
    r2.require_floor(2, "functions consulting the cache")

    # CLI flag application (bin)
    rg = P.fns.get("cargo_tauri_typegen::run_generate")
    if rg is None:
        r3.bad(V(r3.id, "<anchor>", "missing:run_generate", "CLI generate path not found"))
    else:
        assigns = []
        for b, blk in enumerate(rg.blocks):
            for st in blk["stmts"]:
                if "lhs" not in st:
                    continue
                pj = st["lhs"].get("p", [])
                if pj and pj[-1]["k"] == "field" and pj[-1].get("name") == "force" and pj[-1].get("adt", "").endswith("GenerateConfig"):
                    assigns.append((b, st))
        if len(assigns) != 1:
            r3.bad(V(r3.id, rg.id, "force-assignments:%d" % len(assigns), "expected exactly one assignment of config.force from the CLI flag, found %d" % len(assigns)))
        for b, st in assigns:
            conds = rg.must_conditions(b, sequencing=False)
            rv = st["rv"]
            if rv["k"] == "use":
                oo = rg.origin(rv["op"])
                if oo[0] == "aggr":
                    rv = oo[1]
            val_ok = rv["k"] == "aggr" and rv.get("variant") == "Some" and op_const(rv["ops"][0]) is not None and op_const(rv["ops"][0]).get("bool") is True
            from rulelib import cli_value_cond
            if len(conds) == 1 and cli_value_cond(conds[0], "force") == "true" and val_ok:
                r3.ok("run_generate: config.force = Some(true) under exactly `force`")
            else:
                r3.bad(V(r3.id, rg.id, "force-assignment-guard:%s:%s" % (",".join(conds), "Some(true)" if val_ok else "other-value"),
                         "config.force is assigned under %s with %s; expected Some(true) under exactly arg:force=true" % (conds, "Some(true)" if val_ok else "another value"),
                         rg.file, st.get("line")))
            # nothing overwrites config afterwards
            L = st["lhs"]["l"]
            after = blocks_reachable_from(rg, b)
            for b2 in sorted(after):
                for st2 in rg.blocks[b2]["stmts"]:
                    if "lhs" in st2 and st2["lhs"]["l"] == L and st2 is not st:
                        pj2 = st2["lhs"].get("p", [])
                        whole = not pj2
                        fld = pj2[-1].get("name") if pj2 and pj2[-1]["k"] == "field" else None
                        if whole or fld == "force":
                            r3.bad(V(r3.id, rg.id, "config-overwritten-after-flag:%s" % (fld or "whole"),
                                     "the configuration (%s) is overwritten after the --force flag was applied" % (fld or "whole struct"), rg.file, st2.get("line")))
                t2 = rg.blocks[b2]["term"]
                if t2["k"] == "call" and t2["dest"]["l"] == L and not t2["dest"].get("p"):
                    r3.bad(V(r3.id, rg.id, "config-overwritten-after-flag:call", "the configuration is re-loaded after the --force flag was applied", rg.file, None))
            # should_force is read after the flag switch
            for c in rg.calls:
                if short_path(c.best) == "GenerateConfig::should_force":
                    sw = [a for (a, lab) in rg.edge_dominators(b) if cli_value_cond(rg.describe_cond(a, lab), "force") == "true"]
                    if sw and rg.dominates(sw[0], c.bb):
                        r3.ok("run_generate: should_force() read after the flag was applied")
                    else:
                        r3.bad(V(r3.id, rg.id, "should_force-before-flag", "should_force() can be read before the CLI flag is applied", c.file, c.line))
    r3.require_floor(6, "force guards")
    rules.append(r2)
    # "force" is an opt-in: when neither the file nor the command line sets it, should_force() answers false — a getter that defaults to true
    # makes every run a forced run (the cache is never consulted, all files are rewritten on an unchanged project)
    for g in [g_ for g_ in P.find("GenerateConfig::should_force") if g_.id.endswith("should_force")]:
        dflt = []
        for c in g.calls:
            if c.bb in g.reach_blocks and c.name in ("unwrap_or", "map_or", "is_some_and", "unwrap_or_default", "unwrap_or_else") and "Option" in c.path:
                k_ = op_const(c.args[1]) if len(c.args) > 1 else None
                dflt.append((c, k_["bool"] if k_ and "bool" in k_ else (False if c.name in ("unwrap_or_default", "is_some_and") else None)))
        for (c, v_) in dflt:
            if v_ is True:
                r3.bad(V(r3.id, g.id, "force-defaults-to-true", "should_force() answers true when `force` is unset: every run is a forced run and the cache is never consulted", c.file, c.line))
            elif v_ is False:
                r3.ok("should_force(): unset means false")
    rules.append(r3)

    # ---------------------------------------------------------------- D4: the saved record is comparable with the one the next run computes
    from rulelib import is_cache_new, arg_by_type, ARG_TYPES
    r4 = Rule("C14-D4-comparable-record", "D4",
              "in every function that consults the cache and later saves a record: the record is built by the same GenerationCache constructor the check uses "
              "internally, from the same commands / structs / events / config values",
              "a record built by another constructor (or without the events) never equals the digest the check computes: every unchanged re-run regenerates")
    n_pairs = 0
    for fid in sorted(reach):
        f = P.fns[fid]
        if fid.startswith("tauri_typegen::build::generation_cache::"):
            continue
        checks = [c for c in f.calls if is_cache_check(c) and c.bb in f.reach_blocks]
        news = [c for c in f.calls if is_cache_new(c) and c.bb in f.reach_blocks]
        if not checks or not news:
            continue
        # constructors the check itself reaches
        inner = set()
        for t in P.targets(checks[0]):
            for g in P.reachable([t]):
                for c in P.fns[g].calls:
                    if is_cache_new(c):
                        inner.add(strip_generics(c.resolved or c.path))
        # the most specific one (the others are thin wrappers delegating to it)
        for cn in news:
            n_pairs += 1
            used = strip_generics(cn.resolved or cn.path)
            wrappers = {used}
            for t in P.targets(cn):
                for c in P.fns[t].calls:
                    if is_cache_new(c):
                        wrappers.add(strip_generics(c.resolved or c.path))
            if not (wrappers & inner):
                r4.bad(V(r4.id, fid, "different-constructor:%s" % short_path(used), "the saved record is built by %s, the check compares against %s" % (short_path(used), sorted(short_path(x) for x in inner)), cn.file, cn.line))
                continue
            bad = []
            for what in ("commands", "structs", "events", "config"):
                a = arg_by_type(checks[0], ARG_TYPES[what])
                b = arg_by_type(cn, ARG_TYPES[what])
                if a is None and b is None:
                    continue
                if a is None or b is None:
                    bad.append("%s:%s" % (what, "missing-in-record" if b is None else "missing-in-check"))
                    continue
                ta = f.describe_origin(f.origin(a), short=False, deep=3)
                tb = f.describe_origin(f.origin(b), short=False, deep=3)
                if re.sub(r"\.deref|deref\(|\)", "", ta) != re.sub(r"\.deref|deref\(|\)", "", tb):
                    bad.append("%s:differs" % what)
            # ... and they are still the same values: between the check and the construction of the record nothing borrows them mutably or stores
            # into them (sorting / deduplicating / extending the command list after the check makes the saved digest differ from the next check's)
            def root_(o):
                from mirlib import TRANSPARENT, strip_generics_
                while True:
                    if o[0] == "proj":
                        o = o[1]
                    elif o[0] == "call" and o[1].args and TRANSPARENT.get(strip_generics_(o[1].path)) in ("try", "deref", "asref"):
                        o = o[1].fn.origin(o[1].args[0])
                    else:
                        return o

            def same_root(x, y):
                return (x[0] == "call" and y[0] == "call" and x[1] is y[1]) or (x[0] == "arg" and y[0] == "arg" and x[1] == y[1])
            after_check = blocks_reachable_from(f, checks[0].bb)
            for what in ("commands", "structs", "events", "config"):
                a = arg_by_type(checks[0], ARG_TYPES[what])
                b = arg_by_type(cn, ARG_TYPES[what])
                if a is None or b is None:
                    continue
                ra = root_(f.origin(a))
                if ra[0] not in ("call", "arg"):
                    continue
                for bb in sorted(after_check):
                    if bb not in f.reach_blocks or not (cn.bb == bb or cn.bb in blocks_reachable_from(f, bb)):
                        continue
                    for st in f.blocks[bb]["stmts"]:
                        rv = st.get("rv")
                        if not rv:
                            continue
                        if rv["k"] == "ref" and rv.get("mut") and same_root(root_(f.origin({"copy": {"l": rv["place"]["l"], "p": []}})), ra):
                            bad.append("%s:mutably-borrowed-after-check" % what)
                        elif st["lhs"].get("p") and any(pj.get("k") == "field" for pj in st["lhs"]["p"]) and same_root(root_(f.origin({"copy": {"l": st["lhs"]["l"], "p": []}})), ra):
                            bad.append("%s:stored-into-after-check" % what)
            bad = sorted(set(bad))
            if bad:
                r4.bad(V(r4.id, fid, "record-inputs:%s" % ",".join(bad), "the saved record and the cache check do not receive the same values (%s)" % ", ".join(bad), cn.file, cn.line))
            else:
                r4.ok("%s: record built by %s from the values the check receives" % (short_path(fid), short_path(used)))
    # ... and inside the check: the function of the cache module that builds the record to compare with hands the constructor every input it
    # received itself — commands, structs, events, configuration.  `Self::new(commands, structs, config)` in a function that was given the events
    # hashes an empty event list, while the record saved after generation hashes the real one: a project that emits events never hits the cache
    for k in sorted(P.fns):
        if "::generation_cache::GenerationCache::" not in k or "{closure" in k or "{promoted" in k:
            continue
        g = P.fns[k]
        if not any(strip_generics(c.path).endswith("GenerationCache::load") or short_path(c.best) == "GenerationCache::load" for c in g.calls):
            continue
        for cn in [c for c in g.calls if is_cache_new(c) and c.bb in g.reach_blocks]:
            for what in ("commands", "structs", "events", "config"):
                params = [i_ for i_ in range(1, g.arg_count + 1) if re.search(ARG_TYPES[what], g.locals[i_] if i_ < len(g.locals) else "")]
                if not params:
                    continue
                a = arg_by_type(cn, ARG_TYPES[what])
                o = g.origin(a) if a is not None else None
                while o is not None and o[0] in ("proj", "ref") and isinstance(o[1], tuple):
                    o = o[1]
                if o is not None and o[0] == "arg" and o[1] in params:
                    r4.ok("%s: the record to compare with is built from the %s it was given" % (short_path(k), what))
                else:
                    r4.bad(V(r4.id, k, "check-ignores-input:%s" % what, "%s was given the %s but builds the record it compares with without them (%s): the digest it computes "
                             "never equals the one saved after a generation that used them" % (short_path(k), what, short_path(cn.best)), cn.file, cn.line))
    # the files whose presence the check demands before it answers "up to date" are files the tool writes, under the very names it writes them:
    # a name nobody writes (a typo, `dependency_graph.dot`) is never there, so no record is ever accepted and every unchanged re-run regenerates
    FILE_RX = re.compile(r"^[\w.-]+\.(ts|txt|dot|json|js|md)$")
    from c08 import EXIST_CHECKS as _EX
    vouch = [k for k in sorted(P.fns) if "::GenerationCache::" in k and "{promoted" not in k and "::{closure" not in k
             and any(strip_generics(c.path) in _EX for kk in P.family(k) if "{promoted" not in kk for c in P.fns[kk].calls)]
    written = set()
    for k, g in P.fns.items():
        if "::generation_cache::" in k or "{promoted" in k or not k.startswith(("tauri_typegen", "cargo_tauri_typegen")):
            continue
        from rulelib import family_strs as _fs
        written.update(x for x in (_fs(P, S, k) if "{closure" not in k else g.const_strs()) if FILE_RX.match(x))
    n_v = 0
    for k in vouch:
        from rulelib import family_strs
        names = sorted({x for x in family_strs(P, S, k) if FILE_RX.match(x)})
        for nm in names:
            n_v += 1
            if nm in written:
                r4.ok("%s demands %s, a name the generators write" % (short_path(k), nm))
            else:
                r4.bad(V(r4.id, k, "vouches-for-unwritten-file:%s" % nm, "%s refuses a record unless `%s` exists, but nothing writes a file of that name: "
                         "the cache is never accepted" % (short_path(k), nm)))
    r4.require_floor(2, "check/record pairs")
    rules.append(r4)

    # ---------------------------------------------------------------- D5: the record on disk is the record that was serialised
    r5 = Rule("C14-D5-record-replaced-whole", "D5",
              "the cache record (and every generated file) is written by whole-file replacement (rule shared with C01-D5 and C17-D2)",
              "a record written over a longer old one without truncation does not parse any more: every later unchanged run regenerates")
    from rulelib import check_whole_file_writes
    check_whole_file_writes(P, r5, reach, what="cache record / generated file")
    r5.require_floor(2, "write sites")
    rules.append(r5)

    return finish(
        PROP, ctx, rules,
        "UNORD over the digest functions and the discovery path, serde-carrier type inspection, cache-hit control regions "
        "(everything that runs only when needs_regeneration answered false) checked against the filesystem-mutator closure, "
        "force-guard dominance and flag-after-load ordering.",
        ["mtime behaviour of the file system", "GenerationCache record equality across versions (decided by C08)"],
        ["a digest built from order-free inputs with a fixed-key hasher is reproducible (64-bit collisions ignored)"])

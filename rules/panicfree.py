"""panicfree — PANIC rule kind: every panic-capable site must be discharged.

Symbolic (not concrete) evaluation of index arithmetic on the MIR:
  * integer locals become linear forms over atoms: found(n) = payload of the n-th find/rfind call,
    len(view), ci(n) = index yielded by a char_indices iterator, var(l) = opaque variable
  * &str locals become views (root, offset form): slicing a view adds the start index to the offset;
    trim*/strip*/split pieces start a fresh root
A slice bound is *valid* (in range and on a char boundary) when, in root coordinates, it is
  0, len(root), the offset of an existing view, or  off(S_f) + found_f + c  with 0 <= c <= |pattern_f|
  (c strictly inside the pattern only for ASCII patterns) for a find on a view S_f of the same root.
"""
import re

from mirlib import Call, op_const, op_place, short_path
from rulelib import strip_generics


class Lin:
    """linear form: const + sum(coef * atom); None-able via classmethod unknown()"""
    __slots__ = ("c", "a")

    def __init__(self, c=0, a=None):
        self.c = c
        self.a = dict(a or {})

    def add(self, o, sign=1):
        r = Lin(self.c + sign * o.c, self.a)
        for k, v in o.a.items():
            r.a[k] = r.a.get(k, 0) + sign * v
            if r.a[k] == 0:
                del r.a[k]
        return r

    def key(self):
        return (self.c, tuple(sorted((repr(k), v) for k, v in self.a.items())))

    def __eq__(self, o):
        return isinstance(o, Lin) and self.key() == o.key()

    def __hash__(self):
        return hash(self.key())

    def nonneg(self):
        return self.c >= 0 and all(v >= 0 for v in self.a.values())

    def render(self, namer=lambda a: repr(a)):
        parts = [("%s" % namer(k)) if v == 1 else "%d*%s" % (v, namer(k)) for k, v in sorted(self.a.items(), key=lambda kv: repr(kv[0]))]
        if self.c or not parts:
            parts.append(str(self.c))
        return " + ".join(parts)


class View:
    __slots__ = ("root", "off")

    def __init__(self, root, off):
        self.root = root
        self.off = off

    def key(self):
        return (self.root, self.off.key())


FIND_NAMES = {"find", "rfind"}
SAME_VIEW = {"std::string::String::as_str", "std::ops::Deref::deref", "std::convert::AsRef::as_ref", "std::borrow::Borrow::borrow",
             "std::clone::Clone::clone", "std::borrow::Cow::<'_, B>::as_ref"}
DERIVED_VIEW = {"trim_start", "trim", "trim_end", "trim_matches", "trim_start_matches", "trim_end_matches", "strip_prefix", "strip_suffix"}


class Sym:
    def __init__(self, f):
        self.f = f
        self._lin = {}
        self._view = {}
        self.found = {}   # bb -> dict(view, patlen, ascii, pat)
        self.alts = {}    # bb of an unwrap_or call -> [Lin, Lin]
        self._scan_finds()

    # ------------------------------------------------------------ helpers
    def _single_def(self, l):
        ds = [d for d in self.f.defs.get(l, []) if d[0] == "arg" or d[1] in self.f.reach_blocks]
        return ds[0] if len(ds) == 1 else None

    def _scan_finds(self):
        f = self.f
        for c in f.calls:
            if c.name in FIND_NAMES and (c.self_ty == "str") and c.bb in f.reach_blocks:
                k = c.const_arg(1)
                patlen = None
                ascii_ = False
                pat = None
                if k is not None:
                    if "str" in k:
                        pat = k["str"]
                        patlen = len(pat.encode())
                        ascii_ = all(ord(ch) < 128 for ch in pat)
                    elif "char" in k:
                        pat = k["char"]
                        patlen = len(pat.encode())
                        ascii_ = ord(pat) < 128
                self.found[c.bb] = {"call": c, "patlen": patlen, "ascii": ascii_, "pat": pat}

    # ------------------------------------------------------------ integers
    def lin_op(self, op, depth=0):
        k = op_const(op)
        if k is not None:
            if "int" in k:
                return Lin(k["int"])
            return None
        return self.lin_place(op_place(op), depth)

    def lin_place(self, p, depth=0):
        if p is None or depth > 40:
            return None
        pj = p.get("p", [])
        l = p["l"]
        if not pj:
            return self.lin_local(l, depth)
        # (_x as Some).0 of a find call ; (_t.0) of a checked add ; tuple field of char_indices item
        d = self._single_def(l)
        names = [str(x.get("name", x.get("i"))) if x["k"] == "field" else (x.get("variant") if x["k"] == "downcast" else x["k"]) for x in pj]
        if d is None:
            # `let mut best = None; .. best = Some(i); .. if let Some(p) = best`: payload of the Some(..) assignments
            if names == ["Some", "0"]:
                payloads = []
                for dd in self.f.defs.get(l, []):
                    if dd[0] == "arg" or dd[1] not in self.f.reach_blocks:
                        continue
                    rv2 = dd[3] if dd[0] == "stmt" else None
                    if rv2 is not None and rv2["k"] == "use":
                        oo = self.f.origin(rv2["op"])
                        if oo[0] == "aggr":
                            rv2 = oo[1]
                    if rv2 is not None and rv2["k"] == "aggr" and rv2.get("variant") == "Some":
                        payloads.append(self.lin_op(rv2["ops"][0], depth + 1))
                    elif rv2 is not None and rv2["k"] == "aggr" and rv2.get("variant") == "None":
                        continue
                    else:
                        payloads.append(None)
                if payloads and all(p is not None and p.key() == payloads[0].key() for p in payloads):
                    return payloads[0]
            return Lin(0, {("var", l, tuple(str(n) for n in names)): 1})
        if d[0] == "call":
            c = d[2]
            if c.bb in self.found and len(pj) == 2 and pj[0]["k"] == "downcast" and pj[0].get("variant") == "Some":
                return Lin(0, {("found", c.bb): 1})
            if c.name == "next" and "CharIndices" in (c.self_ty or "") and names[:2] == ["Some", "0"] and names[-1] == "0":
                return Lin(0, {("ci", self._iter_root(c)): 1})
            if c.name == "next" and "Enumerate" in (c.self_ty or "") and names[-1] == "0":
                return Lin(0, {("enum", c.bb): 1})
            return Lin(0, {("callfield", c.bb, tuple(str(n) for n in names)): 1})
        if d[0] == "stmt":
            rv = d[3]
            if rv["k"] == "bin" and pj and pj[0]["k"] == "field" and pj[0]["i"] == 0 and rv["op"].endswith("WithOverflow"):
                a = self.lin_op(rv["a"], depth + 1)
                b = self.lin_op(rv["b"], depth + 1)
                if a is None or b is None:
                    return None
                if rv["op"].startswith("Add"):
                    return a.add(b)
                if rv["op"].startswith("Sub"):
                    return a.add(b, -1)
                return None
            if rv["k"] == "use":
                q = op_place(rv["op"])
                if q is not None:
                    return self.lin_place({"l": q["l"], "p": q.get("p", []) + pj}, depth + 1)
            if rv["k"] in ("ref", "copy_for_deref"):
                q = rv["place"]
                rest = pj[1:] if pj and pj[0]["k"] == "deref" else pj
                return self.lin_place({"l": q["l"], "p": q.get("p", []) + rest}, depth + 1)
        return Lin(0, {("var", l, tuple(str(n) for n in names)): 1})

    def lin_local(self, l, depth=0):
        if l in self._lin:
            return self._lin[l]
        self._lin[l] = Lin(0, {("var", l, ()): 1})  # cycle guard / default
        d = self._single_def(l)
        res = None
        if d is None or d[0] == "arg":
            res = Lin(0, {("var", l, ()): 1})
        elif d[0] == "call":
            c = d[2]
            if c.name == "len" and c.self_ty in ("str", "std::string::String"):
                v = self.view_op(c.args[0])
                if v is not None and isinstance(v.root, tuple) and v.root[0] == "const" and isinstance(v.root[1], str) and v.root[1] != "?" and not v.off.a:
                    # `"Vec<".len()`: the byte length of a literal is a constant
                    res = Lin(len(v.root[1].encode()) - v.off.c)
                else:
                    res = Lin(0, {("len", v.key() if v else ("?", c.bb)): 1})
            elif c.name == "len_utf8":
                # byte length of the *first* character of a string: s.chars().next() -> Some(ch) -> ch.len_utf8()
                res = None
                o = self.f.origin(c.args[0], depth=10)
                while o[0] == "proj":
                    o = o[1]
                if o[0] == "call" and o[1].name == "next" and "str::Chars" in (o[1].self_ty or ""):
                    it = self.f.origin(o[1].args[0], depth=10)
                    while it[0] == "proj":
                        it = it[1]
                    if it[0] == "call" and it[1].name == "chars":
                        v = self.view_op(it[1].args[0])
                        if v is not None:
                            res = Lin(0, {("firstchar", v.key()): 1})
                if res is None:
                    res = Lin(0, {("call", c.bb): 1})
            elif c.name in ("unwrap_or", "unwrap_or_else") and "Option" in (c.self_ty or c.path) and len(c.args) == 2:
                # s.find(p).unwrap_or(d): either the found position or the default
                alts = None
                o = self.f.origin(c.args[0], depth=8)
                while o[0] == "proj":
                    o = o[1]
                if o[0] == "call" and o[1].bb in self.found and c.name == "unwrap_or":
                    dflt = self.lin_op(c.args[1], depth + 1)
                    if dflt is not None:
                        alts = [Lin(0, {("found", o[1].bb): 1}), dflt]
                if alts:
                    self.alts[c.bb] = alts
                    res = Lin(0, {("alt", c.bb): 1})
                else:
                    res = Lin(0, {("call", c.bb): 1})
            else:
                res = Lin(0, {("call", c.bb): 1})
        else:
            rv = d[3]
            if rv["k"] in ("use", "cast"):
                res = self.lin_op(rv["op"], depth + 1)
            elif rv["k"] == "bin" and rv["op"] in ("Add", "Sub", "AddUnchecked", "SubUnchecked"):
                a = self.lin_op(rv["a"], depth + 1)
                b = self.lin_op(rv["b"], depth + 1)
                if a is not None and b is not None:
                    res = a.add(b, 1 if rv["op"].startswith("Add") else -1)
            elif rv["k"] in ("copy_for_deref", "ref"):
                res = self.lin_place(rv["place"], depth + 1)
            if res is None:
                res = Lin(0, {("var", l, ()): 1})
        self._lin[l] = res
        return res

    def _iter_root(self, next_call):
        """root view key of the string a Chars/CharIndices/Enumerate iterator walks"""
        f = self.f
        o = f.origin(next_call.args[0], depth=14)
        seen = 0
        while seen < 12:
            seen += 1
            if o[0] == "proj":
                o = o[1]
                continue
            if o[0] == "call":
                c = o[1]
                if c.name in ("char_indices", "chars", "bytes"):
                    v = self.view_op(c.args[0])
                    return v.key() if v else ("?", c.bb)
                if c.args:
                    o = f.origin(c.args[0], depth=14)
                    continue
            if o[0] == "multi":
                # `let mut it = s.char_indices()` : pick the defining call
                nxt = [x for x in o[2] if x[0] == "call"]
                if nxt:
                    o = nxt[0]
                    continue
            break
        return ("?", next_call.bb)

    # ------------------------------------------------------------ strings
    def view_op(self, op, depth=0):
        k = op_const(op)
        if k is not None:
            return View(("const", k.get("str", "?")), Lin(0))
        return self.view_place(op_place(op), depth)

    def view_place(self, p, depth=0):
        if p is None or depth > 40:
            return None
        l = p["l"]
        pj = [x for x in p.get("p", []) if x["k"] != "deref"]
        if pj:
            # field of a struct / tuple: opaque root per (local, path)
            return View(("place", l, tuple(str(x.get("name", x.get("i", x["k"]))) for x in pj)), Lin(0))
        return self.view_local(l, depth)

    def view_local(self, l, depth=0):
        if l in self._view:
            return self._view[l]
        self._view[l] = View(("val", l), Lin(0))
        d = self._single_def(l)
        res = None
        if d is None:
            res = View(("val", l), Lin(0))
        elif d[0] == "arg":
            res = View(("arg", l), Lin(0))
        elif d[0] == "stmt":
            rv = d[3]
            if rv["k"] in ("use", "cast"):
                res = self.view_op(rv["op"], depth + 1)
            elif rv["k"] in ("ref", "copy_for_deref"):
                res = self.view_place(rv["place"], depth + 1)
        else:
            c = d[2]
            p = strip_generics(c.path)
            if c.path == "std::ops::Index::index" and (c.self_ty in ("str", "std::string::String")):
                base = self.view_op(c.args[0], depth + 1)
                rng = self.range_of(c)
                if base is not None and rng is not None:
                    start = rng.get("start")
                    if start is None:
                        res = View(base.root, base.off)
                    else:
                        ls = self.lin_op(start)
                        if ls is not None:
                            res = View(base.root, base.off.add(ls))
                if res is None:
                    res = View(("slice", c.bb), Lin(0))
            elif p in SAME_VIEW or c.path in SAME_VIEW:
                res = self.view_op(c.args[0], depth + 1)
            elif c.name in DERIVED_VIEW and c.self_ty == "str":
                res = View(("derived", c.bb), Lin(0))
            else:
                res = View(("call", c.bb), Lin(0))
        if res is None:
            res = View(("val", l), Lin(0))
        self._view[l] = res
        return res

    def range_of(self, index_call):
        """{'start': operand|None, 'end': operand|None, 'kind': ...} of the range argument"""
        f = self.f
        o = f.origin(index_call.args[1])
        while o[0] == "proj":
            o = o[1]
        if o[0] == "aggr":
            rv = o[1]
            adt = rv.get("adt", "")
            ops = rv["ops"]
            if adt.endswith("RangeFrom"):
                return {"start": ops[0], "end": None, "kind": "from"}
            if adt.endswith("RangeTo"):
                return {"start": None, "end": ops[0], "kind": "to"}
            if adt.endswith("ops::Range"):
                return {"start": ops[0], "end": ops[1], "kind": "range"}
            if adt.endswith("RangeFull"):
                return {"start": None, "end": None, "kind": "full"}
        if o[0] == "const":
            return None
        return None

    # ------------------------------------------------------------ validity
    def valid_in(self, view, L, namer=None, _depth=0):
        """is index L (relative to view) a valid boundary position of the view's string?  -> (ok, why)"""
        R = view.off.add(L)
        root = view.root
        if R.key() == Lin(0).key():
            return True, "start of the string"
        if L.key() == Lin(0).key():
            return True, "start of the view"
        # len of the same view
        if L.a == {("len", view.key()): 1} and L.c == 0:
            return True, "len() of the same string"
        for bb, info in self.found.items():
            sv = self.view_op(info["call"].args[0])
            if sv is None or sv.root != root:
                continue
            diff = R.add(sv.off, -1).add(Lin(0, {("found", bb): 1}), -1)
            if not diff.a:
                c = diff.c
                if c == 0:
                    return True, "position returned by %s(%r) on this string" % (info["call"].name, info["pat"])
                if info["patlen"] is not None and 0 < c <= info["patlen"]:
                    if c == info["patlen"] or info["ascii"]:
                        return True, "match position of %r plus %d (within the %d-byte pattern)" % (info["pat"], c, info["patlen"])
                    return False, "offset %d falls inside the non-ASCII pattern %r" % (c, info["pat"])
                if c > 0:
                    return False, "position of %s(%r) plus %d, but the matched pattern is only %s bytes long" % (
                        info["call"].name, info["pat"], c, info["patlen"] if info["patlen"] is not None else "an unknown number of")
        # find(..).unwrap_or(default): both alternatives must be valid positions
        if len(L.a) == 1 and L.c == 0 and _depth < 3:
            (a, coef), = L.a.items()
            if a[0] == "alt" and coef == 1 and a[1] in self.alts:
                whys = []
                for sub in self.alts[a[1]]:
                    okd, whyd = self.valid_in(view, sub, _depth=_depth + 1)
                    if not okd:
                        return False, "find(..).unwrap_or(..): the alternative %s — %s" % (sub.render(self.namer), whyd)
                    whys.append(whyd)
                return True, "find(..).unwrap_or(..): " + " / ".join(whys)
        # byte length of the first character of the same view
        if len(L.a) == 1 and L.c == 0 and list(L.a.items())[0] == (("firstchar", view.key()), 1):
            return True, "len_utf8() of the first character yielded by chars().next() of this string"
        # char_indices index on the same view
        for a, coef in L.a.items():
            if a[0] == "ci" and coef == 1 and len(L.a) == 1 and L.c == 0 and a[1] == view.key():
                return True, "index yielded by char_indices() of this string"
        # a loop variable (several definitions): every definition must itself be a valid position
        vars_ = [a for a in L.a if a[0] == "var" and not a[2]]
        if len(vars_) == 1 and L.a[vars_[0]] == 1 and L.c == 0 and len(L.a) == 1 and _depth < 2:
            l = vars_[0][1]
            ds = [d for d in self.f.defs.get(l, []) if d[0] != "arg" and d[1] in self.f.reach_blocks]
            if len(ds) > 1:
                whys = []
                for d in ds:
                    if d[0] != "stmt" or d[3]["k"] != "use":
                        return False, "loop variable %s is assigned from an expression the analysis does not understand" % self.f.lname(l)
                    sub = self.lin_op(d[3]["op"])
                    if sub is None:
                        return False, "loop variable %s: unknown assignment" % self.f.lname(l)
                    if sub.key() == L.key():
                        continue
                    okd, whyd = self.valid_in(view, sub, _depth=_depth + 1)
                    if not okd:
                        return False, "loop variable %s is assigned %s — %s" % (self.f.lname(l), sub.render(self.namer), whyd)
                    whys.append(whyd)
                return True, "loop variable %s: every assignment is a valid position (%s)" % (self.f.lname(l), "; ".join(whys)[:120])
        bad = [a for a in R.a if a[0] in ("enum",)]
        if bad:
            return False, "index is a chars().enumerate() counter (a character count, not a byte offset)"
        return False, "index %s has no provenance as a boundary of this string" % L.render(self.namer)

    def namer(self, a):
        f = self.f
        if a[0] == "found":
            info = self.found.get(a[1])
            return "%s(%r)" % (info["call"].name, info["pat"]) if info else "find"
        if a[0] == "var":
            return f.lname(a[1]) + "".join("." + x for x in a[2])
        if a[0] == "len":
            return "len"
        if a[0] == "enum":
            return "enumerate-counter"
        if a[0] == "ci":
            return "char_indices-index"
        return a[0]

    # ------------------------------------------------------------ guards
    def min_len(self, view, bb):
        """lower bound of the byte length of `view` implied by starts_with/ends_with guards dominating bb, plus the literals"""
        f = self.f
        pre = suf = None
        facts = []
        for (a, lab) in f.edge_dominators(bb):
            o, outcome = f.cond_struct(a, lab)
            if o[0] == "call" and outcome == "true" and o[1].name in ("starts_with", "ends_with") and o[1].self_ty == "str":
                c = o[1]
                v = self.view_op(c.args[0])
                if v is None or v.key() != view.key():
                    continue
                k = c.const_arg(1)
                if k is None:
                    continue
                lit = k.get("str", k.get("char"))
                if lit is None:
                    continue
                if c.name == "starts_with":
                    pre = lit
                else:
                    suf = lit
                facts.append("%s(%r)" % (c.name, lit))
        n = 0
        if pre is not None and suf is not None:
            # overlap possible iff some proper suffix of pre equals a prefix of suf
            ov = 0
            for k in range(1, min(len(pre), len(suf)) + 1):
                if pre[-k:] == suf[:k]:
                    ov = k
            n = len(pre.encode()) + len(suf.encode()) - len(pre[-ov:].encode()) if ov else len(pre.encode()) + len(suf.encode())
        elif pre is not None:
            n = len(pre.encode())
        elif suf is not None:
            n = len(suf.encode())
        return n, pre, suf, facts

"""shapes — interprocedural provenance ("shape") of string/path values over the MIR facts.

A shape is a small tree:
  ('lit', s)                    string literal
  ('field', 'Adt.field')        read of a named ADT field treated as a terminal (e.g. GenerateConfig.output_path)
  ('join', a, b)                Path::join(a, b)
  ('fmt', [piece...])           format!: pieces are ('lit', s) or shapes
  ('parent', a)                 Path::parent(a)
  ('direntry', a)               DirEntry::path() of an entry of read_dir(a)
  ('withext', a, b)             Path::with_extension
  ('param', fn_id, name)        parameter of an entry point / unresolved parameter
  ('alt', [shapes])             several possible origins (callers, reassignments)
  ('call', path, [shapes])      opaque call
  ('unknown', why)
No code is executed: this is a syntactic/dataflow read of the MIR.
"""
from mirlib import op_const, op_place, short_path
from rulelib import strip_generics

TERMINAL_FIELDS = {
    "tauri_typegen::interface::config::GenerateConfig.output_path": "OUTDIR",
    "tauri_typegen::interface::config::GenerateConfig.project_path": "PROJECT",
}

# callee (generics stripped) -> index of the argument whose shape passes through
TRANSPARENT_ARG0 = {
    "std::ops::Deref::deref", "std::ops::DerefMut::deref_mut", "std::convert::AsRef::as_ref",
    "std::borrow::Borrow::borrow", "std::clone::Clone::clone", "std::convert::Into::into",
    "std::convert::From::from", "std::string::ToString::to_string", "std::borrow::ToOwned::to_owned",
    "std::path::Path::new", "std::path::Path::to_path_buf", "std::path::PathBuf::as_path",
    "std::path::Path::to_string_lossy", "std::string::String::as_str", "std::borrow::Cow::<'_, B>::to_string",
    "std::path::Path::display", "std::borrow::Cow::<'_, B>::into_owned", "std::path::Path::as_os_str",
    "std::ffi::OsStr::to_str", "std::ffi::OsStr::to_string_lossy", "std::hint::must_use",
    "std::ops::Try::branch", "std::option::Option::<T>::unwrap", "std::option::Option::<T>::as_ref",
    "std::result::Result::<T, E>::unwrap", "std::option::Option::<T>::expect", "std::iter::Iterator::next",
    "std::iter::IntoIterator::into_iter", "std::path::PathBuf::from", "std::string::String::from",
    "std::option::Option::<T>::unwrap_or_else", "std::option::Option::<T>::unwrap_or",
    "std::option::Option::<&T>::cloned", "std::path::PathBuf::into_os_string",
}


def decode_template(hexbytes):
    """fmt::Arguments template bytes -> list of ('lit', s) | ('arg', index|None)"""
    b = bytes.fromhex(hexbytes)
    out = []
    i = 0
    nxt = 0
    while i < len(b):
        n = b[i]
        i += 1
        if n == 0:
            break
        if n < 0x80:
            out.append(("lit", b[i:i + n].decode("utf-8", "replace")))
            i += n
        elif n == 0x80:
            ln = int.from_bytes(b[i:i + 2], "little")
            i += 2
            out.append(("lit", b[i:i + ln].decode("utf-8", "replace")))
            i += ln
        else:
            idx = nxt
            if n & 1:
                i += 4
            if n & 2:
                i += 2
            if n & 4:
                i += 2
            if n & 8:
                idx = int.from_bytes(b[i:i + 2], "little")
                i += 2
            out.append(("arg", idx))
            nxt = idx + 1
    return out


class Shaper:
    def __init__(self, P, reach=None, max_depth=40):
        self.P = P
        self.reach = reach
        self.max_depth = max_depth
        self._callers = None
        self._field_src = None
        # ADTs filled from the command line: types with a clap FromArgMatches impl
        self.cli_adts = {im["self_ty"] for im in P.impls if (im.get("trait") or "").endswith("::FromArgMatches")}

    # ---- indices
    @property
    def callers(self):
        if self._callers is None:
            idx = {}
            for f in self.P.fns.values():
                if self.reach is not None and f.id not in self.reach:
                    continue
                if "{promoted#" in f.id:
                    continue
                for c in f.calls:
                    for t in self.P.targets(c):
                        idx.setdefault(t, []).append(c)
            self._callers = idx
        return self._callers

    @property
    def field_sources(self):
        """'Adt.field' -> [(fn, operand)] from aggregate constructions and field assignments"""
        if self._field_src is None:
            idx = {}
            for f in self.P.fns.values():
                if "{promoted#" in f.id:
                    continue
                if self.reach is not None and f.id not in self.reach:
                    continue
                for blk in f.blocks:
                    for st in blk["stmts"]:
                        rv = st.get("rv")
                        if not rv:
                            continue
                        if rv["k"] == "aggr" and rv.get("agg") == "adt":
                            for name, op in zip(rv["fields"], rv["ops"]):
                                idx.setdefault("%s.%s" % (rv["adt"], name), []).append((f, op))
                        lhs = st["lhs"]
                        pj = lhs.get("p", [])
                        if pj and pj[-1]["k"] == "field" and "name" in pj[-1] and pj[-1].get("adt", "").startswith(("tauri_typegen", "cargo_tauri")):
                            key = "%s.%s" % (pj[-1]["adt"], pj[-1]["name"])
                            if rv["k"] in ("use",):
                                idx.setdefault(key, []).append((f, rv["op"]))
                            else:
                                idx.setdefault(key, []).append((f, ("rv", rv, st)))
                    t = blk["term"]
                    if t["k"] == "call":
                        pj = t["dest"].get("p", [])
                        if pj and pj[-1]["k"] == "field" and "name" in pj[-1] and pj[-1].get("adt", "").startswith(("tauri_typegen", "cargo_tauri")):
                            key = "%s.%s" % (pj[-1]["adt"], pj[-1]["name"])
                            idx.setdefault(key, []).append((f, ("calldest", blk, t)))
            self._field_src = idx
        return self._field_src

    # ---- main
    def shape_op(self, f, op, depth=None, stack=()):
        if depth is None:
            depth = self.max_depth
        c = op_const(op)
        if c is not None:
            if "str" in c:
                return ("lit", c["str"])
            if "item" in c:
                return self._const_item(c["item"])
            if "closure" in c:
                return ("closure", c["closure"])
            return ("unknown", "const:" + c.get("ty", "?"))
        return self.shape_place(f, op_place(op), depth, stack)

    def _const_item(self, item):
        # named constant (e.g. CACHE_FILE_NAME): look for a promoted/const body is not available; use srcfacts in callers
        return ("constitem", item)

    def shape_place(self, f, place, depth, stack):
        if place is None:
            return ("unknown", "no-place")
        if depth <= 0:
            return ("unknown", "depth")
        pj = place.get("p", [])
        # terminal / tracked fields: last *named* field projection decides
        for p in reversed(pj):
            if p["k"] == "field" and "name" in p and p.get("adt", "").startswith(("tauri_typegen::", "cargo_tauri_typegen::")):
                key = "%s.%s" % (p["adt"], p["name"])
                if key in TERMINAL_FIELDS:
                    return ("field", TERMINAL_FIELDS[key])
                if p["adt"] in self.cli_adts:
                    return ("cli", "%s.%s" % (short_path(p["adt"]), p["name"]))
                return self._field_shape(key, depth - 1, stack)
            if p["k"] == "field":
                break
        return self._shape_local(f, place["l"], [x for x in pj], depth, stack)

    def _field_shape(self, key, depth, stack):
        if ("F", key) in stack:
            return ("unknown", "recursive-field")
        srcs = self.field_sources.get(key, [])
        outs = []
        for (f2, src) in srcs:
            if self.reach is not None and f2.id not in self.reach and not any(ch.id in self.reach for ch in []):
                # constructors of values may live in unreachable helper fns (tests are not compiled); keep all
                pass
            if isinstance(src, tuple) and src and src[0] == "calldest":
                from mirlib import Call
                blk, t = src[1], src[2]
                outs.append(self._shape_call(f2, Call(f2, f2.blocks.index(blk), t), depth, stack + (("F", key),)))
            elif isinstance(src, tuple) and src and src[0] == "rv":
                outs.append(("unknown", "field-assigned-from-" + src[1]["k"]))
            else:
                outs.append(self.shape_op(f2, src, depth, stack + (("F", key),)))
        return alt(outs) if outs else ("unknown", "field-never-assigned:" + key)

    def _shape_local(self, f, l, proj, depth, stack):
        if (f.id, l) in stack:
            return ("unknown", "cycle")
        stack = stack + ((f.id, l),)
        ds = f.defs.get(l, [])
        if not ds:
            return ("unknown", "undef")
        outs = []
        for d in ds:
            if d[0] == "arg":
                cap = self._shape_capture(f, l, proj, depth, stack) if (f.kind == "Closure" and l == 1) else None
                outs.append(cap if cap is not None else self._shape_param(f, l, depth, stack))
            elif d[0] == "call":
                outs.append(self._shape_call(f, d[2], depth, stack))
            else:
                rv = d[3]
                k = rv["k"]
                if k in ("use", "cast"):
                    outs.append(self.shape_op(f, rv["op"], depth - 1, stack))
                elif k in ("ref", "copy_for_deref", "rawptr"):
                    outs.append(self.shape_place(f, rv["place"], depth - 1, stack))
                elif k == "aggr" and rv.get("agg") in ("closure", "coroutine_closure"):
                    outs.append(("closure", rv["closure"]))
                elif k == "aggr":
                    if rv.get("agg") in ("tuple", "array") and proj:
                        # project the element if a field index is known
                        idx = None
                        for p in proj:
                            if p["k"] == "field":
                                idx = p["i"]
                                break
                        if idx is not None and idx < len(rv["ops"]):
                            outs.append(self.shape_op(f, rv["ops"][idx], depth - 1, stack))
                            continue
                    if rv.get("agg") == "adt":
                        # Some(x)/Ok(x): single payload
                        if len(rv["ops"]) == 1:
                            outs.append(self.shape_op(f, rv["ops"][0], depth - 1, stack))
                            continue
                        if not rv["ops"]:
                            outs.append(("none", rv.get("variant")))
                            continue
                    outs.append(("aggr", rv.get("adt") or rv.get("agg"), [self.shape_op(f, o, depth - 1, stack) for o in rv["ops"]]))
                else:
                    outs.append(("unknown", "rv:" + k))
        return alt(outs)

    def _shape_capture(self, f, l, proj, depth, stack):
        """a captured variable read inside a closure (`(*_1).i`) is the i-th operand of the closure aggregate built in the enclosing function"""
        idx = None
        for p in proj:
            if p["k"] == "field" and isinstance(p.get("i"), int):
                idx = p["i"]
                break
        if idx is None or depth <= 1:
            return None
        holders = [g for k, g in self.P.fns.items() if k == f.parent or f.parent in {b.get("inl") for b in g.d.get("blocks", [])}]
        outs = []
        for g in holders:
            for b in sorted(g.reach_blocks):
                for st in g.blocks[b]["stmts"]:
                    rv = st.get("rv") or {}
                    if rv.get("k") == "aggr" and rv.get("agg") in ("closure", "coroutine_closure") and rv.get("closure") == f.id and idx < len(rv.get("ops", [])):
                        outs.append(self.shape_op(g, rv["ops"][idx], depth - 1, stack))
        return alt(outs) if outs else None

    def _shape_param(self, f, l, depth, stack):
        name = f.lname(l)
        if f.kind == "Closure":
            # closure argument / capture
            if l == 1 and f.parent in self.P.fns:
                return ("capture", f.id)
            return ("closure-arg", f.id, name)
        cs = self.callers.get(f.id, [])
        if not cs:
            return ("param", f.id, name)
        outs = []
        for c in cs:
            i = l - 1
            if i < len(c.args):
                outs.append(self.shape_op(c.fn, c.args[i], depth - 1, stack))
        return alt(outs) if outs else ("param", f.id, name)

    def _shape_call(self, f, c, depth, stack):
        p = strip_generics(c.path)
        pg = c.path
        name = c.name or ""
        if p in TRANSPARENT_ARG0 or pg in TRANSPARENT_ARG0:
            if p.endswith("unwrap_or_else") or p.endswith("unwrap_or"):
                a = self.shape_op(f, c.args[0], depth - 1, stack)
                b = self.shape_op(f, c.args[1], depth - 1, stack) if len(c.args) > 1 else ("unknown", "default")
                if b[0] == "closure" and b[1] in self.P.fns and ("R", b[1]) not in stack:
                    b = self._return_shape(self.P.fns[b[1]], c, depth - 2, stack + (("R", b[1]),))
                return alt([a, ("default", b)])
            return self.shape_op(f, c.args[0], depth - 1, stack) if c.args else ("unknown", "noarg")
        if p == "std::path::Path::join":
            return ("join", self.shape_op(f, c.args[0], depth - 1, stack), self.shape_op(f, c.args[1], depth - 1, stack))
        if p == "std::path::Path::parent":
            return ("parent", self.shape_op(f, c.args[0], depth - 1, stack))
        if p == "std::path::Path::with_extension":
            return ("withext", self.shape_op(f, c.args[0], depth - 1, stack), self.shape_op(f, c.args[1], depth - 1, stack))
        if p == "std::fs::DirEntry::path":
            return ("direntry", self.shape_op(f, c.args[0], depth - 1, stack))
        if p == "std::fs::read_dir":
            return ("readdir", self.shape_op(f, c.args[0], depth - 1, stack))
        if p in ("std::fmt::format", "alloc::fmt::format"):
            return self._shape_fmt(f, c, depth, stack)
        # crate-local function: summarise by its return shape (one level), else opaque
        tg = self.P.targets(c)
        if tg and depth > 2:
            outs = []
            for t in tg:
                g = self.P.fns[t]
                if ("R", t) in stack:
                    continue
                outs.append(self._return_shape(g, c, depth - 2, stack + (("R", t),)))
            if outs:
                return alt(outs)
        return ("call", p, [self.shape_op(f, a, depth - 2, stack) for a in c.args[:3]])

    def _return_shape(self, g, call, depth, stack):
        """shape of what g returns: shapes of the values assigned to _0"""
        outs = []
        for d in g.defs.get(0, []):
            if d[0] == "call":
                outs.append(self._shape_call(g, d[2], depth, stack))
            elif d[0] == "stmt":
                rv = d[3]
                if rv["k"] in ("use", "cast"):
                    outs.append(self.shape_op(g, rv["op"], depth, stack))
                elif rv["k"] in ("ref", "copy_for_deref"):
                    outs.append(self.shape_place(g, rv["place"], depth, stack))
                elif rv["k"] == "aggr" and len(rv["ops"]) == 1:
                    outs.append(self.shape_op(g, rv["ops"][0], depth, stack))
                else:
                    outs.append(("unknown", "ret:" + rv["k"]))
        return alt(outs) if outs else ("unknown", "no-return-def")

    def _shape_fmt(self, f, c, depth, stack):
        """decode format!(..): the argument of fmt::format is Arguments::new(template, &[Argument::new_*(&x)..])"""
        o = f.origin(c.args[0])
        if o[0] != "call":
            return ("unknown", "fmt-args")
        ac = o[1]
        ap = strip_generics(ac.path)
        if ap.endswith("Arguments::from_str") or ap.endswith("Arguments::new_const"):
            s = ac.arg_str(0)
            return ("fmt", [("lit", s)]) if s is not None else ("unknown", "fmt-const")
        if not ap.endswith("Arguments::new"):
            return ("unknown", "fmt:" + ap)
        to = f.origin(ac.args[0])
        while to[0] == "proj":
            to = to[1]
        if to[0] != "const" or "bytes" not in to[1]:
            return ("unknown", "fmt-template")
        pieces = decode_template(to[1]["bytes"])
        ao = f.origin(ac.args[1])
        while ao[0] == "proj":
            ao = ao[1]
        argshapes = []
        if ao[0] == "aggr":
            for op in ao[1]["ops"]:
                oo = f.origin(op)
                if oo[0] == "call" and "Argument" in oo[1].path:
                    argshapes.append(self.shape_op(f, oo[1].args[0], depth - 1, stack))
                else:
                    argshapes.append(("unknown", "fmt-arg"))
        out = []
        for pc in pieces:
            if pc[0] == "lit":
                out.append(pc)
            else:
                i = pc[1]
                out.append(argshapes[i] if i is not None and i < len(argshapes) else ("unknown", "fmt-arg-index"))
        return ("fmt", out)


def alt(shapes):
    flat = []
    for s in shapes:
        if s[0] == "alt":
            flat.extend(s[1])
        else:
            flat.append(s)
    uniq = []
    for s in flat:
        if s not in uniq:
            uniq.append(s)
    if len(uniq) == 1:
        return uniq[0]
    return ("alt", uniq)


def render(s):
    t = s[0]
    if t == "lit":
        return repr(s[1])
    if t == "field":
        return s[1]
    if t == "join":
        return "join(%s, %s)" % (render(s[1]), render(s[2]))
    if t == "parent":
        return "parent(%s)" % render(s[1])
    if t == "withext":
        return "with_extension(%s, %s)" % (render(s[1]), render(s[2]))
    if t == "direntry":
        return "direntry(%s)" % render(s[1])
    if t == "readdir":
        return "read_dir(%s)" % render(s[1])
    if t == "fmt":
        return "fmt[" + " ".join(render(x) for x in s[1]) + "]"
    if t == "alt":
        return "{" + " | ".join(sorted(render(x) for x in s[1])) + "}"
    if t == "param":
        return "param(%s:%s)" % (short_path(s[1]), s[2])
    if t == "call":
        return "call %s(%s)" % (short_path(s[1]), ", ".join(render(x) for x in s[2]))
    if t == "default":
        return "default(%s)" % render(s[1])
    if t == "cli":
        return "cli(%s)" % s[1]
    if t == "constitem":
        return "const " + short_path(s[1])
    if t == "closure":
        return "closure " + short_path(s[1])
    if t == "aggr":
        return "aggr %s" % short_path(str(s[1]))
    if t == "none":
        return "None"
    if t in ("capture", "closure-arg"):
        return "%s(%s)" % (t, short_path(s[1]))
    return "?" + (":" + str(s[1]) if len(s) > 1 else "")


def alternatives(s):
    """expand 'alt' nodes at the top and inside joins/fmt into a list of alt-free shapes (bounded)"""
    t = s[0]
    if t == "alt":
        out = []
        for x in s[1]:
            out.extend(alternatives(x))
        return out[:64]
    if t == "join":
        return [("join", a, b) for a in alternatives(s[1]) for b in alternatives(s[2])][:64]
    if t in ("parent", "direntry", "readdir", "default"):
        return [(t, a) for a in alternatives(s[1])][:64]
    if t == "withext":
        return [("withext", a, b) for a in alternatives(s[1]) for b in alternatives(s[2])][:64]
    if t == "fmt":
        outs = [[]]
        for pc in s[1]:
            alts = alternatives(pc)
            outs = [o + [a] for o in outs for a in alts][:64]
        return [("fmt", o) for o in outs]
    return [s]

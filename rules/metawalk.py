"""metawalk — the callbacks handed to syn's `parse_nested_meta` consume what follows each item.

`parse_nested_meta` hands the callback one item (`key`, `key = value`, `key(..)`) and, after the callback returned Ok, expects a `,` or the end of the
list: a callback that returns Ok while `= value` / `(..)` is still unread makes the walk fail at that item.  The parsers of this crate discard that
error on purpose ("what was recognised before it is kept"), so everything *after* such an item in the same attribute is silently lost.  Hence, for
every callback (closure) passed to parse_nested_meta by the attribute parsers, every path from entry to a non-error return must

  * pass a consumer applied to the callback's item: `ParseNestedMeta::value`, `ParseNestedMeta::parse_nested_meta` (whose own callback is checked the
    same way), the `parenthesized!`/`braced!`/`bracketed!` group parsers on the item's input, or a crate function that receives the item and is
    itself consuming in this sense; or
  * have seen `peek(Token![=])` and `peek(Paren)` on the item's input both answer false (there is nothing to consume); or
  * run only for an item whose key, by the grammar of the attribute (serde's / validator's documentation), never carries arguments
    (`path.is_ident("skip")` held: BARE_ONLY below).

Decided on MIR (paths, resolved callees); the derive-list walk (`#[derive(A, B)]`, items never carry arguments) is outside the scope given by the caller.
"""
from common import V
from mirlib import short_path

GROUP_PARSERS = ("parse_parens", "parse_braces", "parse_brackets")
# keys that are bare words in every program the attribute's own macro accepts
BARE_ONLY = {"skip", "flatten", "untagged", "transparent", "deny_unknown_fields", "skip_serializing", "skip_deserializing", "other", "required", "nested"}


def _root(o):
    while o[0] == "proj":
        o = o[1]
    return o


def _closure_id(P, g, op):
    o = g.origin(op)
    if o[0] in ("aggr", "const") and isinstance(o[1], dict):
        cid = o[1].get("closure")
        if cid in P.fns:
            return cid
    return None


class MetaWalk:
    def __init__(self, P):
        self.P = P
        self.memo = {}

    def meta_params(self, g):
        """1-based argument numbers whose type is (a reference to) ParseNestedMeta"""
        out = []
        for i in range(1, g.arg_count + 1):
            if "ParseNestedMeta" in g.locals[i]:
                out.append(i)
        return out

    def problems(self, g, k, stack=()):
        """-> list of (function id, description) for paths of g that return without consuming item k"""
        key = (g.id, k)
        if key in self.memo:
            return self.memo[key]
        if key in stack:
            return []
        P = self.P
        out = []
        consumers = set()
        for c in g.calls:
            if c.bb not in g.reach_blocks or not c.args:
                continue
            refs = [j for j, a in enumerate(c.args) if (lambda o: o[0] == "arg" and o[1] == k)(_root(g.origin(a)))]
            if not refs:
                continue
            if c.name == "value" and "ParseNestedMeta" in c.path:
                consumers.add(c.bb)
            elif c.name == "parse_nested_meta" and "ParseNestedMeta" in c.path:
                consumers.add(c.bb)
                cid = _closure_id(P, g, c.args[-1])
                if cid is None:
                    out.append((g.id, "nested-callback-unresolved"))
                else:
                    h = P.fns[cid]
                    ks = self.meta_params(h)
                    if len(ks) != 1:
                        out.append((cid, "callback-shape:%d" % len(ks)))
                    else:
                        out.extend(self.problems(h, ks[0], stack + (key,)))
            elif c.name in GROUP_PARSERS:
                consumers.add(c.bb)
            else:
                tgt = c.best if c.best in P.fns else None
                if tgt is not None:
                    h = P.fns[tgt]
                    okall = True
                    for j in refs:
                        if j + 1 <= h.arg_count and "ParseNestedMeta" in h.locals[j + 1]:
                            # the callee's own gaps are reported at the callee (root cause), not once more at every caller
                            out.extend(self.problems(h, j + 1, stack + (key,)))
                        else:
                            okall = False
                    if okall:
                        consumers.add(c.bb)
        # error exits: `?` (from_residual into the return place) and explicit Err(..)
        errs = set()
        for c in g.calls:
            if c.name == "from_residual" and c.dest and c.dest.get("l") == 0:
                errs.add(c.bb)
        for b in g.reach_blocks:
            for st in g.blocks[b]["stmts"]:
                rv = st.get("rv")
                if rv and st["lhs"]["l"] == 0 and not st["lhs"].get("p") and rv["k"] == "aggr" and rv.get("variant") == "Err":
                    errs.add(b)
        # product search: block x (saw peek(=) false, saw peek(Paren) false)
        start = (0, False, False)
        seen = {start}
        work = [start]
        bad_states = set()
        while work:
            (b, e, p) = work.pop()
            if b in consumers or b in errs:
                continue
            t = g.blocks[b]["term"]
            if t["k"] == "return":
                if not (e and p):
                    bad_states.add((e, p))
                continue
            for (lab, y) in g.succ_edges(b):
                e2, p2 = e, p
                if t["k"] == "switch":
                    o, outcome = g.cond_struct(b, lab)
                    neg = False
                    while o[0] == "un" and o[1] == "Not":
                        o = o[2]
                        neg = not neg
                    if o[0] == "call" and o[1].name == "peek" and o[1].args and (lambda r: r[0] == "arg" and r[1] == k)(_root(g.origin(o[1].args[0]))):
                        is_false = (outcome == "false") != neg
                        gen = " ".join(o[1].generics)
                        if is_false and "syn::token::Eq" in gen:
                            e2 = True
                        if is_false and "syn::token::Paren" in gen:
                            p2 = True
                    if o[0] == "call" and o[1].name == "is_ident" and len(o[1].args) == 2 and (outcome == "true") != neg:
                        lit = o[1].arg_str(1)
                        if isinstance(lit, str) and lit in BARE_ONLY and _root(g.origin(o[1].args[0]))[:2] == ("arg", k):
                            e2 = p2 = True      # nothing can follow such a key
                s = (y, e2, p2)
                if s not in seen:
                    seen.add(s)
                    work.append(s)
        for (e, p) in sorted(bad_states):
            what = "without looking at what follows the item" if not (e or p) else ("having excluded only %s" % ("`= value`" if e else "`(..)`"))
            out.append((g.id, "returns-unconsumed:%s" % ("none" if not (e or p) else ("eq-only" if e else "paren-only")) + "|" + what))
        self.memo[key] = out
        return out


def check_meta_walks(ctx, rule, scope, what):
    """scope: predicate on function ids whose parse_nested_meta calls start a walk that must consume"""
    P = ctx.P
    reach = ctx.reach if hasattr(ctx, "reach") else None
    mw = MetaWalk(P)
    n = 0
    for fid in sorted(P.fns):
        f = P.fns[fid]
        if not scope(fid) or "{closure" in fid and not scope(fid.split("::{closure")[0]):
            continue
        for c in f.calls:
            if c.name != "parse_nested_meta" or c.bb not in f.reach_blocks:
                continue
            if "ParseNestedMeta" in c.path:
                continue        # nested walks are checked through their parent
            n += 1
            cid = _closure_id(P, f, c.args[-1]) if c.args else None
            if cid is None:
                rule.bad(V(rule.id, fid, "meta-walk-callback-unresolved", "the callback of a parse_nested_meta walk could not be resolved to a closure", c.file, c.line))
                continue
            h = P.fns[cid]
            ks = mw.meta_params(h)
            if len(ks) != 1:
                rule.bad(V(rule.id, cid, "meta-walk-callback-shape:%d" % len(ks), "unexpected callback signature", c.file, c.line))
                continue
            probs = mw.problems(h, ks[0])
            if probs:
                seen = set()
                for (where, desc) in probs:
                    keyd, _, text = desc.partition("|")
                    if (where, keyd) in seen:
                        continue
                    seen.add((where, keyd))
                    rule.bad(V(rule.id, where, "meta-item-unconsumed:" + keyd,
                               "%s: a callback of the %s walk can return Ok %s: syn then fails the walk at an item that carries `= value` or `(..)`, the error is discarded, "
                               "and every item after it in the attribute is silently dropped" % (short_path(where), what, text or keyd), c.file, c.line))
            else:
                rule.ok("%s: every callback path of the %s walk consumes the item's arguments (or saw that there are none)" % (short_path(fid), what))
    return n
